#!/bin/bash
# ./run.sh <Cxx> <quick|thorough>     run one property check (rebuilds from /repo's working tree)
# ./run.sh --replay <file>            replay a saved case without the generator
# ./run.sh --build                    build only
# exit 0 held / 1 violation (VIOLATION line) / 2 inconclusive (build failure, watchdog, OOM)
set -u
REPLAY_PATH=""
if [ "${1:-}" = "--replay" ] && [ -n "${2:-}" ]; then REPLAY_PATH="$(realpath "$2" 2>/dev/null || echo "$2")"; fi
cd "$(dirname "$0")/harness" || exit 2
export CARGO_NET_OFFLINE=true
export RUSTFLAGS="--cfg noodles_verif"
unset RUST_BACKTRACE
BUILD_LOG="$(mktemp)"
build() {
  # serialise concurrent builds; cargo also locks the target dir itself
  if ! cargo build --profile verif >"$BUILD_LOG" 2>&1; then
    echo "INCONCLUSIVE: harness build failed against the current /repo tree"
    tail -n 40 "$BUILD_LOG"
    rm -f "$BUILD_LOG"
    exit 2
  fi
  rm -f "$BUILD_LOG"
}
NV=target/verif/nv
case "${1:-}" in
  --build) build; exit 0 ;;
  --replay) build; exec "$NV" replay "$REPLAY_PATH" ;;
  C[0-9]*)
    tier="${2:-${VERIF_TIER:-quick}}"
    build
    exec "$NV" run "$1" "$tier"
    ;;
  *) echo "usage: $0 <Cxx> <quick|thorough> | --replay <file> | --build"; exit 3 ;;
esac
