#!/bin/bash
# usage: fuzz/run_fuzz.sh <target> <runs> <seed> [max_len]
# Builds the target, runs libFuzzer on a fresh corpus seeded with a few valid inputs, and exits
# 0 (no crash) / 1 (crash: prints `VIOLATION property=C08 replay=<file>`) / 2 (could not build or run).
# Thorough tier only; the proptest tier stands on its own. Needs the nightly toolchain + cargo-fuzz.
set -u
HERE="$(cd "$(dirname "$0")" && pwd)"
TARGET="${1:?target}"; RUNS="${2:?runs}"; SEED="${3:?seed}"
case "$TARGET" in
  c08_ints) DEF_MAX=8 ;;
  c08_tok3) DEF_MAX=2048 ;;
  c08_fqzcomp) DEF_MAX=4096 ;;
  c08_decode_arbitrary) DEF_MAX=4096 ;;
  *) DEF_MAX=8192 ;;
esac
MAX_LEN="${4:-$DEF_MAX}"
export CARGO_NET_OFFLINE=true RUSTFLAGS="--cfg noodles_verif"
unset RUST_BACKTRACE
cd "$HERE" || exit 2
[ -f Cargo.lock ] || cp /repo/Cargo.lock . 2>/dev/null
if ! cargo +nightly fuzz build --fuzz-dir "$HERE" "$TARGET" >"$HERE/build-$TARGET.log" 2>&1; then
  echo "INCONCLUSIVE: fuzz build failed (see $HERE/build-$TARGET.log)"; exit 2
fi
if ! cargo +nightly fuzz build --fuzz-dir "$HERE" seedgen >>"$HERE/build-$TARGET.log" 2>&1; then
  echo "INCONCLUSIVE: seedgen build failed (see $HERE/build-$TARGET.log)"; exit 2
fi
WORK="$(mktemp -d "${TMPDIR:-/tmp}/nvfuzz-$TARGET-XXXXXX")"
CORPUS="$WORK/corpus"; ART="$WORK/artifacts"; mkdir -p "$CORPUS" "$ART" "$WORK/replays"
TRIPLE="$(rustc +nightly -vV | sed -n 's/^host: //p')"
BIN_DIR="$HERE/target/$TRIPLE/release"
"$BIN_DIR/seedgen" "$TARGET" "$CORPUS" 2>/dev/null
: > "$CORPUS/empty"
export ASAN_OPTIONS="${ASAN_OPTIONS:-allocator_may_return_null=1}"
export NV_FUZZ_REPLAY_DIR="$WORK/replays"
"$BIN_DIR/$TARGET" "$CORPUS" -runs="$RUNS" -seed="$SEED" -len_control=0 -max_len="$MAX_LEN" \
   -artifact_prefix="$ART/" -rss_limit_mb=8192 -malloc_limit_mb=4096 -timeout=300 -print_final_stats=1 >"$WORK/log.txt" 2>&1
RC=$?
grep -E "stat::number_of_executed_units|stat::new_units_added|cov: " "$WORK/log.txt" | tail -3
if [ $RC -eq 0 ]; then
  rm -rf "$WORK"; echo "fuzz $TARGET: $RUNS runs, seed $SEED: no crash"; exit 0
fi
ARTF="$(ls "$ART" 2>/dev/null | head -1)"
case "$ARTF" in
  timeout-*|oom-*|slow-unit-*)
    # time and memory are observed, not bounded, by this property: not a violation
    KEEP="${VERIF_ROOT:-$HERE/..}/replays/found"; mkdir -p "$KEEP"; cp "$ART/$ARTF" "$KEEP/fuzz-$TARGET-$ARTF"
    echo "INCONCLUSIVE: libFuzzer reported ${ARTF%%-*} (input kept as $KEEP/fuzz-$TARGET-$ARTF)"; rm -rf "$WORK"; exit 2 ;;
esac
KEEP="${VERIF_ROOT:-$HERE/..}/replays/found"; mkdir -p "$KEEP"
REPLAY=""
J="$(ls "$WORK/replays" 2>/dev/null | head -1)"
if [ -n "$J" ]; then cp "$WORK/replays/$J" "$KEEP/$J"; REPLAY="$KEEP/$J"; fi
if [ -n "$ARTF" ]; then cp "$ART/$ARTF" "$KEEP/fuzz-$TARGET-$ARTF"; [ -z "$REPLAY" ] && REPLAY="$KEEP/fuzz-$TARGET-$ARTF"; fi
grep -E "C08 fuzz violation|ERROR: libFuzzer|SUMMARY" "$WORK/log.txt" | head -5
if [ -z "$REPLAY" ]; then echo "INCONCLUSIVE: fuzzer exited with $RC without an artifact (log: $WORK/log.txt)"; exit 2; fi
echo "VIOLATION property=C08 replay=$REPLAY"
echo "  (libFuzzer artifact: $KEEP/fuzz-$TARGET-$ARTF ; re-run: $BIN_DIR/$TARGET <artifact> ; JSON replays go through \`nv replay\`)"
rm -rf "$WORK"
exit 1
