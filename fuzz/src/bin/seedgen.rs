//! Writes a few valid inputs for a fuzz target into a corpus directory:
//! `seedgen <target> <dir>`. Round-trip targets get structured inputs (control bytes + payload),
//! the decode-arbitrary target gets real streams produced by the encoders.
use noodles_cram::codecs::{aac, rans_4x8, rans_nx16};
use noodles_cram::verif as nv;
use nv_fuzz::props::c08::DECODE_ARBITRARY_IDS;

fn payloads() -> Vec<Vec<u8>> {
    vec![
        b"noodles".to_vec(),
        b"abracadabraabracadabraabracadabraabracadabrad".to_vec(),
        (0..300u32).map(|i| b"ACGTN"[(i * i % 5) as usize]).collect(),
        (0..200u32).map(|i| 30 + ((i * 7) % 11) as u8).collect(),
        vec![7u8; 40],
        (0..=255u8).collect(),
        vec![],
    ]
}

fn main() {
    let args: Vec<String> = std::env::args().collect();
    let (target, dir) = (args.get(1).map(|s| s.as_str()).unwrap_or(""), args.get(2).map(|s| s.as_str()).unwrap_or("."));
    let mut n = 0;
    let mut put = |bytes: Vec<u8>| {
        let _ = std::fs::write(format!("{dir}/seed-{n:03}"), bytes);
        n += 1;
    };
    match target {
        "c08_rans4x8" => {
            for p in payloads() {
                for ctl in [0u8, 1, 2, 3] {
                    put([vec![ctl], p.clone()].concat());
                }
            }
        }
        "c08_nx16" | "c08_aac" => {
            for p in payloads() {
                for flags in [0u8, 0x01, 0x04, 0x08, 0x40, 0x80, 0xc1, 0x10, 0x20] {
                    put([vec![flags, 1], p.clone()].concat());
                }
            }
        }
        "c08_fqzcomp" => {
            for p in payloads().into_iter().filter(|p| !p.is_empty()) {
                put([vec![0u8], p.clone()].concat());
                put([vec![1u8, 10], p.clone()].concat());
                put([vec![2u8, 4, 3, 5, 100, 1], p.clone()].concat());
            }
        }
        "c08_tok3" => {
            put(b"I17_08765:2:123:61541:01763#9\0I17_08765:2:123:1636:08611#9\0I17_08765:2:124:45613:16161#9\0".to_vec());
            put(b"12:034:5\xfd\xfd\xfe\xfd".to_vec());
            put(b"read.1\0read.2\0read.3\0read.3\0\0x\0".to_vec());
            put(b"a:5\0a:06\0".to_vec());
        }
        "c08_general" => {
            for p in payloads() {
                for c in 0u8..3 {
                    put([vec![c, 6], p.clone()].concat());
                }
            }
        }
        "c08_ints" => {
            for v in [0u64, 127, 128, 16383, 16384, 0x0fff_ffff, 0x1000_0000, u32::MAX as u64, u64::MAX, 1 << 56, 1 << 63] {
                put(v.to_le_bytes().to_vec());
            }
        }
        "c08_decode_arbitrary" => {
            // valid streams for every decoder (encoders may fail or panic on some payloads in the
            // pinned tree: those seeds are simply skipped)
            let _ = std::panic::take_hook();
            std::panic::set_hook(Box::new(|_| {}));
            for p in payloads() {
                let hint = (p.len() as u16).to_le_bytes();
                let mut streams: Vec<(u8, Vec<u8>)> = Vec::new();
                let mut add = |id: u8, f: &dyn Fn() -> std::io::Result<Vec<u8>>| {
                    if let Ok(Ok(s)) = std::panic::catch_unwind(std::panic::AssertUnwindSafe(f)) {
                        streams.push((id, s));
                    }
                };
                add(1, &|| nv::gzip_encode(flate2::Compression::new(6), &p));
                add(2, &|| nv::bzip2_encode(bzip2::Compression::new(6), &p));
                add(3, &|| nv::lzma_encode(1, &p));
                add(4, &|| nv::rans_4x8_encode(rans_4x8::Order::Zero, &p));
                add(4, &|| nv::rans_4x8_encode(rans_4x8::Order::One, &p));
                for f in [0u8, 0x01, 0x04, 0x08, 0x40, 0x80, 0xc0] {
                    add(5, &|| nv::rans_nx16_encode(rans_nx16::Flags::from(f), &p));
                    add(6, &|| nv::aac_encode(aac::Flags::from(f), &p));
                }
                if !p.is_empty() {
                    add(7, &|| nv::fqzcomp_encode(&[p.len()], &p));
                }
                for (id, s) in streams {
                    let sel = DECODE_ARBITRARY_IDS.iter().position(|x| *x == id).unwrap_or(0) as u8;
                    put([vec![sel, hint[0], hint[1]], s].concat());
                }
            }
            if let Ok(s) = nv::name_tokenizer_encode(b"I17_08765:2:123:61541:01763#9\0I17_08765:2:123:1636:08611#9\0I17_08765:2:124:45613:16161#9\0") {
                put([vec![7u8, 0, 0], s].concat());
            }
            for (sel, bytes) in [(8u8, vec![0xf7u8, 0x55, 0x99, 0x66, 0x02]), (9, vec![0xff, 0x55, 0xaa, 0xcc, 0x33, 0xe3, 0x1c, 0xf0, 0x0f]), (10, vec![0x81, 0x80, 0x00])] {
                put([vec![sel, 0, 0], bytes].concat());
            }
        }
        other => {
            eprintln!("seedgen: unknown target {other:?}");
            std::process::exit(2);
        }
    }
    eprintln!("seedgen: wrote {n} seeds for {target} into {dir}");
}
