//! libFuzzer tier for C08 (and the codec part of C15). The targets run the SAME check functions as
//! the proptest tier: the harness sources are included by path (engine, generators' PRNG, the
//! reference oracles and props/c08.rs), so there is one implementation of every oracle.
//!
//! The paths below are absolute on purpose (one `sed s,/verif,/verif,` relocates the package).
#![allow(dead_code, clippy::type_complexity, clippy::too_many_arguments)]

#[path = "/verif/harness/src/engine/mod.rs"]
pub mod engine;

pub mod r#gen {
    #[path = "/verif/harness/src/gen/payload.rs"]
    pub mod payload;
}

pub mod oracle {
    #[path = "/verif/harness/src/oracle/varint_ref.rs"]
    pub mod varint_ref;
    #[path = "/verif/harness/src/oracle/rans_ref.rs"]
    pub mod rans_ref;
}

pub mod props {
    #[path = "/verif/harness/src/props/c08.rs"]
    pub mod c08;
}

use engine::{Fail, Verdict};
use std::collections::BTreeSet;
use std::sync::OnceLock;

/// Default location of the known-findings list (same file as the proptest tier); override with
/// `NV_KNOWN_FINDINGS`. Extra tolerated panic sites for the decode-arbitrary target (one signature
/// per line, `#` comments) come from `NV_FUZZ_ALLOW` (default: `<this package>/allow_panics.txt`).
const DEFAULT_KNOWN: &str = "/verif/KNOWN_FINDINGS.txt";
const DEFAULT_ALLOW: &str = "/verif/fuzz/allow_panics.txt";

fn known_sigs() -> &'static BTreeSet<String> {
    static K: OnceLock<BTreeSet<String>> = OnceLock::new();
    K.get_or_init(|| {
        let mut set = BTreeSet::new();
        let path = std::env::var("NV_KNOWN_FINDINGS").unwrap_or_else(|_| DEFAULT_KNOWN.to_string());
        if std::env::var("NV_FUZZ_STRICT").is_err() {
            if let Ok(text) = std::fs::read_to_string(&path) {
                for line in text.lines() {
                    let line = line.trim();
                    let Some(rest) = line.strip_prefix("known:") else { continue };
                    let head = rest.split(" :: ").next().unwrap_or(rest);
                    if !head.contains("property=C08") && !head.contains("property=C15") {
                        continue;
                    }
                    let Some(s0) = head.find(" sig=") else { continue };
                    let after = &head[s0 + 5..];
                    let sig = match after.rfind(" replay=") {
                        Some(r0) => &after[..r0],
                        None => after,
                    };
                    set.insert(sig.trim().to_string());
                }
            }
            let allow = std::env::var("NV_FUZZ_ALLOW").unwrap_or_else(|_| DEFAULT_ALLOW.to_string());
            if let Ok(text) = std::fs::read_to_string(&allow) {
                for line in text.lines() {
                    let line = line.trim();
                    if !line.is_empty() && !line.starts_with('#') {
                        set.insert(line.to_string());
                    }
                }
            }
        }
        set
    })
}

/// Replace libFuzzer's abort-on-panic hook by the harness' recording hook (panics inside noodles
/// are caught and classified by the checks; a violation aborts explicitly).
pub fn init() {
    static I: OnceLock<()> = OnceLock::new();
    I.get_or_init(|| {
        props::c08::NO_MEMORY_LIMIT.store(true, std::sync::atomic::Ordering::Relaxed);
        engine::panics::install_hook();
        let _ = known_sigs();
    });
}

/// Judge a verdict like the engine does: failures whose signature is listed are tolerated (strict
/// with `NV_FUZZ_STRICT=1`, used for replaying an artifact); anything else writes a replay file for
/// `nv replay` (when a case is given) and aborts, which libFuzzer records as a crash.
pub fn judge(sub: &str, case: Option<serde_json::Value>, v: Verdict) {
    let Err(fails) = v else { return };
    let unknown: Vec<&Fail> = fails.iter().filter(|f| !known_sigs().contains(&f.sig)).collect();
    let Some(first) = unknown.first() else { return };
    // survey mode: log every new signature (with the case size) to a file and keep going
    if let Ok(path) = std::env::var("NV_FUZZ_COLLECT") {
        static SEEN: std::sync::Mutex<BTreeSet<String>> = std::sync::Mutex::new(BTreeSet::new());
        if let Ok(mut seen) = SEEN.lock() {
            if seen.insert(first.sig.clone()) {
                use std::io::Write;
                if let Ok(mut f) = std::fs::OpenOptions::new().create(true).append(true).open(&path) {
                    let _ = writeln!(f, "{}\t{}", first.sig, engine::trunc(&first.msg, 300));
                }
            }
        }
        return;
    }
    eprintln!("C08 fuzz violation: sub={sub} sig={} {}", first.sig, engine::trunc(&first.msg, 600));
    if let (Some(case), Ok(dir)) = (case, std::env::var("NV_FUZZ_REPLAY_DIR")) {
        let body = serde_json::json!({"property": "C08", "sub": sub, "seed": 0, "tier": "fuzz", "case": case, "fails": fails});
        let text = serde_json::to_vec_pretty(&body).unwrap_or_default();
        let path = format!("{dir}/C08-{sub}-fuzz-{:016x}.json", engine::fnv(&text));
        if std::fs::write(&path, &text).is_ok() {
            eprintln!("NV-REPLAY {path}");
        }
    }
    std::process::abort();
}

/// Run a harness check with the engine's panic handling (a panic in noodles that the check did not
/// classify becomes `panic:<file>:<message>`; a panic in the harness sources is reported as such).
pub fn run<C>(check: fn(&C) -> Verdict, case: &C) -> Verdict {
    match engine::panics::catch(|| check(case)) {
        Ok(v) => v,
        Err(info) => Err(vec![Fail::new(info.sig(), info.describe())]),
    }
}
