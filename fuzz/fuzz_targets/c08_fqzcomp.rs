#![no_main]
//! fqzcomp: byte 0 = partition mode and flags, then the partition, rest = quality bytes.
//! mode (bits 0-1): 0 one record, 1 equal lengths (next byte = length), 2/3 explicit lengths (next
//! byte n, then n length bytes; bit 2 of byte 0 scales them ×8). Bit 3 keeps zero-length records.
//! The quality string is cut or the last record extended so that the lengths partition it exactly.
use arbitrary::Unstructured;
use libfuzzer_sys::fuzz_target;
use nv_fuzz::props::c08::{check_fqz, FqzCase, Lens};

fuzz_target!(|data: &[u8]| {
    nv_fuzz::init();
    let mut u = Unstructured::new(data);
    let ctl: u8 = u.arbitrary().unwrap_or(0);
    let mut lens: Vec<u32> = match ctl & 3 {
        0 => vec![],
        1 => {
            let l: u8 = u.arbitrary().unwrap_or(1);
            vec![l as u32; 64]
        }
        _ => {
            let n: u8 = u.arbitrary().unwrap_or(0);
            let scale = if ctl & 4 != 0 { 8 } else { 1 };
            (0..n % 48).map(|_| u.arbitrary::<u8>().unwrap_or(1) as u32 * scale).collect()
        }
    };
    let quals = u.take_rest().to_vec();
    if quals.is_empty() {
        return; // the CRAM writer never passes an empty quality block
    }
    let allow_zero = ctl & 8 != 0;
    if !allow_zero {
        lens.iter_mut().for_each(|l| *l = (*l).max(1));
    }
    // make the lengths an exact partition of the quality string
    let mut out: Vec<u32> = Vec::new();
    let mut left = quals.len() as u32;
    for l in lens {
        if left == 0 {
            break;
        }
        let l = l.min(left);
        out.push(l);
        left -= l;
    }
    if left > 0 {
        out.push(left);
    }
    let case = FqzCase { lens: Lens::Var(out.clone()), class: 0, nsym: 0, seed: 0, allow_zero: true, lit: Some(quals) };
    let v = nv_fuzz::run(check_fqz, &case);
    nv_fuzz::judge("fqzcomp", serde_json::to_value(&case).ok(), v);
});
