#![no_main]
//! gzip / bzip2 / lzma: byte 0 = codec (mod 3), byte 1 = level (xz presets capped at 6), rest = payload.
use arbitrary::Unstructured;
use libfuzzer_sys::fuzz_target;
use nv_fuzz::props::c08::{check_general, Data, GeneralCase};

fuzz_target!(|data: &[u8]| {
    nv_fuzz::init();
    let mut u = Unstructured::new(data);
    let codec: u8 = u.arbitrary::<u8>().unwrap_or(0) % 3;
    let mut level: u8 = u.arbitrary::<u8>().unwrap_or(0) % 10;
    if codec == 2 {
        level = level.min(6);
    }
    let payload = u.take_rest().to_vec();
    let case = GeneralCase { codec, level, data: Data::Lit(payload) };
    let v = nv_fuzz::run(check_general, &case);
    nv_fuzz::judge("general", serde_json::to_value(&case).ok(), v);
});
