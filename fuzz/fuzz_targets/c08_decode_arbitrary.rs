#![no_main]
//! Decoders on arbitrary bytes must not panic (the codec half of C15). Byte 0 selects the decoder
//! (index into DECODE_ARBITRARY_IDS), bytes 1-2 = size hint (LE, used as output size for
//! gzip/bzip2/lzma and as external size for NO_SIZE streams), rest = the stream. Streams announcing
//! more than 1 MiB of output at the top level are skipped (allocation from untrusted sizes and
//! "decompression bombs" are C15's business and would only stall the campaign). A panic whose
//! signature is listed (KNOWN_FINDINGS C08/C15 lines or allow_panics.txt) is tolerated.
use libfuzzer_sys::fuzz_target;
use nv_fuzz::engine::{panics, Fail, Pass};
use nv_fuzz::props::c08::{declared_size, decode_arbitrary, DECODE_ARBITRARY_IDS};

fuzz_target!(|data: &[u8]| {
    nv_fuzz::init();
    if data.len() < 3 {
        return;
    }
    let id = DECODE_ARBITRARY_IDS[data[0] as usize % DECODE_ARBITRARY_IDS.len()];
    let hint = u16::from_le_bytes([data[1], data[2]]) as usize;
    let stream = &data[3..];
    if declared_size(id, stream).is_some_and(|n| n > 1 << 20) {
        return;
    }
    let verdict = match panics::catch(|| decode_arbitrary(id, stream, hint)) {
        Ok(_) => Ok(Pass::new(true, 0)),
        Err(info) => Err(vec![Fail::new(info.sig(), format!("decoder {id} on {} arbitrary bytes: {}", stream.len(), info.describe()))]),
    };
    nv_fuzz::judge("decode_arbitrary", None, verdict);
});
