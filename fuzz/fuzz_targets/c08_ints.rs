#![no_main]
//! ITF8 / LTF8 / uint7: 8 input bytes give one 64-bit pattern; its low 32 bits are also used as an
//! ITF8 and a uint7 value. Write → compare with the specification's bytes → read back.
use libfuzzer_sys::fuzz_target;
use nv_fuzz::props::c08::{itf8_one, ltf8_one, uint7_one};

fuzz_target!(|data: &[u8]| {
    nv_fuzz::init();
    let mut b = [0u8; 8];
    let n = data.len().min(8);
    b[..n].copy_from_slice(&data[..n]);
    let v = u64::from_le_bytes(b);
    let mut buf = Vec::new();
    let r = (|| {
        itf8_one(v as u32 as i32, &mut buf)?;
        uint7_one(v as u32, &mut buf)?;
        ltf8_one(v as i64, &mut buf)?;
        // sign-extended and small forms as well
        ltf8_one(v as u32 as i32 as i64, &mut buf)?;
        ltf8_one((v >> (v & 63)) as i64, &mut buf)
    })();
    let verdict = r.map(|_| nv_fuzz::engine::Pass::new(true, v));
    nv_fuzz::judge("ints", Some(serde_json::json!({"kind": "ltf8", "value": v as i64})), verdict);
});
