#![no_main]
//! Adaptive arithmetic coder: byte 0 = flag byte, byte 1 bit 0 = sanitise, rest = payload.
use arbitrary::Unstructured;
use libfuzzer_sys::fuzz_target;
use nv_fuzz::props::c08::{check_aac, Data, FlagCase};

fuzz_target!(|data: &[u8]| {
    nv_fuzz::init();
    let mut u = Unstructured::new(data);
    let flags: u8 = u.arbitrary().unwrap_or(0);
    let ctl: u8 = u.arbitrary().unwrap_or(0);
    let payload = u.take_rest().to_vec();
    let case = FlagCase { data: Data::Lit(payload), flags: flags & !0x02, safe: ctl & 1 != 0 };
    let v = nv_fuzz::run(check_aac, &case);
    nv_fuzz::judge("aac", serde_json::to_value(&case).ok(), v);
});
