#![no_main]
//! Name tokenizer: the input is the name list itself; bytes ≥ 0xf0 are control bytes that expand to
//! typical name material (so that the mutator finds digits / deltas / duplicates quickly):
//! 0xff = NUL (name end), 0xfe = copy the previous name, 0xfd = copy it with its last number + 1,
//! 0xfc = ':', 0xf0..0xfb = digit. A final NUL is added when missing.
use libfuzzer_sys::fuzz_target;
use nv_fuzz::props::c08::{check_names, NamesCase};

fn bump(name: &[u8]) -> Vec<u8> {
    // increment the last decimal run (keeping its width when it has leading zeros)
    let Some(end) = name.iter().rposition(|b| b.is_ascii_digit()) else { return name.to_vec() };
    let mut start = end;
    while start > 0 && name[start - 1].is_ascii_digit() {
        start -= 1;
    }
    let digits = &name[start..=end];
    let Ok(v) = std::str::from_utf8(digits).unwrap_or("0").parse::<u64>() else { return name.to_vec() };
    let s = if digits[0] == b'0' { format!("{:0w$}", v + 1, w = digits.len()) } else { (v + 1).to_string() };
    [&name[..start], s.as_bytes(), &name[end + 1..]].concat()
}

fuzz_target!(|data: &[u8]| {
    nv_fuzz::init();
    let mut names: Vec<Vec<u8>> = Vec::new();
    let mut cur: Vec<u8> = Vec::new();
    for &b in data {
        match b {
            0x00 | 0xff => names.push(std::mem::take(&mut cur)),
            0xfe | 0xfd => {
                if !cur.is_empty() {
                    names.push(std::mem::take(&mut cur));
                }
                if let Some(prev) = names.last().cloned() {
                    names.push(if b == 0xfe { prev } else { bump(&prev) });
                }
            }
            0xfc => cur.push(b':'),
            0xf0..=0xfb => cur.push(b'0' + (b - 0xf0) % 10),
            _ => cur.push(b),
        }
    }
    if !cur.is_empty() || names.is_empty() {
        names.push(cur);
    }
    let mut raw = Vec::new();
    for n in &names {
        raw.extend_from_slice(n);
        raw.push(0);
    }
    let case = NamesCase { base: vec![], edits: vec![], plain: false, lit: Some(raw) };
    let v = nv_fuzz::run(check_names, &case);
    nv_fuzz::judge("name_tokenizer", serde_json::to_value(&case).ok(), v);
});
