#![no_main]
//! rANS 4x8: byte 0 = order (bit 0) and "sanitise" (bit 1), rest = payload. Oracles: own round trip +
//! independent decoder (props/c08.rs::check_r4x8).
use arbitrary::Unstructured;
use libfuzzer_sys::fuzz_target;
use nv_fuzz::props::c08::{check_r4x8, Data, R4x8Case};

fuzz_target!(|data: &[u8]| {
    nv_fuzz::init();
    let mut u = Unstructured::new(data);
    let ctl: u8 = u.arbitrary().unwrap_or(0);
    let payload = u.take_rest().to_vec();
    let case = R4x8Case { data: Data::Lit(payload), order: ctl & 1, safe: ctl & 2 != 0 };
    let v = nv_fuzz::run(check_r4x8, &case);
    nv_fuzz::judge("rans4x8", serde_json::to_value(&case).ok(), v);
});
