#!/usr/bin/env python3
import subprocess,sys,json,os
ROOT='/tmp/agents/G'; REPO=ROOT+'/repo'
def sh(c,**k): return subprocess.run(c,shell=True,capture_output=True,text=True,**k)
def hist(prop):
    d=json.load(open(f'{ROOT}/evidence/{prop}.json'))
    return d['coverage'].get('excluded_known',{})
base={}
if os.path.exists(ROOT+'/patches/base.json'): base=json.load(open(ROOT+'/patches/base.json'))
names=sys.argv[1:]
if names==['base']:
    names=[]
for p in names:
    r=sh(f'git -C {REPO} apply {ROOT}/patches/{p}.patch')
    if r.returncode: print('APPLY FAILED',p,r.stderr); sh(f'git -C {REPO} checkout -- .'); sys.exit(2)
try:
    cur={}
    for prop in ['C07','C19']:
        r=sh(f'{ROOT}/nv.sh run {prop} quick')
        out=r.stdout+r.stderr
        for l in out.splitlines():
            if ('VIOLATION' in l or 'sig=' in l or 'BUILD' in l or 'INCONCL' in l or l.startswith('note:') or ' quick: ' in l) and not l.startswith('KNOWN-FINDING'):
                print('   ',l.strip()[:300])
        cur[prop]=hist(prop) if r.returncode in (0,1) else {}
    if not names:
        json.dump(cur,open(ROOT+'/patches/base.json','w')); print('baseline saved')
    else:
        for prop in cur:
            keys=set(cur[prop])|set(base.get(prop,{}))
            for k in sorted(keys):
                a=base.get(prop,{}).get(k,0); b=cur[prop].get(k,0)
                if a!=b and (b==0 or a==0 or abs(a-b)>max(5,a//3)): print(f'  {prop} {a:5d} -> {b:5d}  {k[:140]}')
finally:
    sh(f'git -C {REPO} checkout -- .')
