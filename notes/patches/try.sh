#!/bin/bash
# usage: try.sh <patch-name>...  — applies the patches to the worktree, runs C07+C19 quick, restores
cd /tmp/agents/G/repo || exit 2
for p in "$@"; do git apply /tmp/agents/G/patches/$p.patch || { echo "APPLY FAILED $p"; git checkout -- .; exit 2; }; done
for prop in C07 C19; do
  /tmp/agents/G/nv.sh run $prop quick 2>&1 | grep -E "note:|VIOLATION|sig=|quick:|BUILD|INCONCL|fails differently" | grep -v "^KNOWN-FINDING" | cut -c1-330 | sort | uniq -c | sort -rn | head -30
done
git checkout -- .
