#!/usr/bin/env python3
"""usage: run_mutant.py <prop> <name> <file-relative-to-repo> <old> <new>
Applies a single-site textual mutation in the private worktree, runs quick, reverts."""
import subprocess, sys, os
prop, name, rel, old, new = sys.argv[1:6]
repo = '/tmp/agents/E/repo'
path = os.path.join(repo, rel)
src = open(path).read()
if src.count(old) != 1:
    print(f"MUTANT {name}: pattern occurs {src.count(old)} times in {rel} -- not applied"); sys.exit(3)
open(path, 'w').write(src.replace(old, new))
try:
    r = subprocess.run(['/tmp/agents/E/nv.sh', 'run', prop, 'quick'], capture_output=True, text=True)
    out = r.stdout + r.stderr
    lines = [l for l in out.splitlines() if l.startswith('VIOLATION') or l.startswith('  sub=') or 'BUILD FAILED' in l or l.startswith('error')]
    verdict = 'CAUGHT' if r.returncode == 1 else ('SURVIVED' if r.returncode == 0 else f'rc={r.returncode}')
    print(f"MUTANT {name}: {verdict}")
    for l in lines[:4]:
        print('   ', l[:260])
finally:
    subprocess.run(['git', '-C', repo, 'checkout', '--', '.'])
