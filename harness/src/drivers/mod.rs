//! The format-driver table (DESIGN §2.7): for every reader/writer family one `Driver` that can
//! generate a document, write it through noodles following the writer's finishing protocol, and
//! read bytes back into a canonical `Transcript` — synchronously and, where an async twin exists,
//! asynchronously. C12, C13, C14, C15, C16 (and parts of C20) are relations over transcripts.

pub mod asyncs;
pub mod docs;
pub mod sync;

use crate::engine::Tier;
use crate::io_adv::chunk::{ChunkRead, ReadScript, ReadStats, WindowBufRead};
use proptest::strategy::BoxedStrategy;
use serde::{Deserialize, Serialize};
use std::io::{self, BufRead, BufReader, Cursor, Read, Seek, Write};
use std::sync::{Arc, Mutex};

pub use docs::*;

/// One generated document; each driver uses one variant.
#[derive(Clone, Debug, Serialize, Deserialize, PartialEq)]
pub enum Doc {
    /// raw payload for BGZF itself: (payload, flush points as per-mille of the length, level)
    Bytes { payload: crate::r#gen::payload::Payload, flushes: Vec<u16>, level: Option<u8> },
    Aln(AlnDoc),
    Var(VarDoc),
    Text(TextDoc),
    BinIndex(BinIndexDoc),
    Pairs(PairsDoc),
    Fai(FaiDoc),
    Crai(CraiDoc),
}

/// Canonical event list produced by reading a byte string.
#[derive(Clone, Debug, PartialEq, Eq)]
pub enum Ev {
    Header(String),
    Record(String),
    /// all bytes delivered by a raw byte reader: (fnv hash, length)
    Bytes(u64, usize),
    /// virtual position (BGZF based formats) after the preceding event
    Vpos(u64),
    Index(String),
    Eof,
    Err { stage: &'static str, kind: String },
    /// the reader kept producing events far beyond what the input can hold
    Runaway,
}

pub type Transcript = Vec<Ev>;

pub fn err_ev(stage: &'static str, e: &io::Error) -> Ev {
    Ev::Err { stage, kind: format!("{:?}", e.kind()) }
}

pub fn records_of(t: &Transcript) -> Vec<&String> {
    t.iter().filter_map(|e| if let Ev::Record(s) = e { Some(s) } else { None }).collect()
}

pub fn summarize(t: &Transcript) -> String {
    let mut out = String::new();
    let n = t.len();
    for (i, e) in t.iter().enumerate() {
        if i >= 6 && i + 4 < n {
            if i == 6 {
                out.push_str(&format!("… ({} events) … ", n - 10));
            }
            continue;
        }
        match e {
            Ev::Header(h) => out.push_str(&format!("Header[{}B] ", h.len())),
            Ev::Record(r) => out.push_str(&format!("Record({}) ", crate::engine::trunc(r, 60))),
            Ev::Bytes(h, l) => out.push_str(&format!("Bytes({l},{h:x}) ")),
            Ev::Vpos(v) => out.push_str(&format!("@{v:x} ")),
            Ev::Index(s) => out.push_str(&format!("Index[{}B] ", s.len())),
            Ev::Eof => out.push_str("Eof "),
            Ev::Err { stage, kind } => out.push_str(&format!("Err({stage},{kind}) ")),
            Ev::Runaway => out.push_str("Runaway "),
        }
    }
    out
}

/// How the underlying byte source delivers the file.
#[derive(Clone, Debug, Serialize, Deserialize, PartialEq, Default)]
pub enum Delivery {
    /// `&[u8]` / `Cursor`
    #[default]
    Plain,
    /// `ChunkRead`, wrapped in `BufReader::with_capacity(bufcap)` where a `BufRead` is needed
    /// (`None` = the default capacity) — and never wrapped where `Read` suffices
    Chunk { script: ReadScript, bufcap: Option<u32> },
    /// `ChunkRead` always wrapped in `BufReader::with_capacity(bufcap)`
    Buffered { script: ReadScript, bufcap: u32 },
    /// direct `BufRead` exposing scripted windows
    Window { script: ReadScript },
}

pub trait ReadSeek: Read + Seek + Send {}
impl<T: Read + Seek + Send> ReadSeek for T {}
pub trait BufReadSeek: BufRead + Seek + Send {}
impl<T: BufRead + Seek + Send> BufReadSeek for T {}

#[derive(Clone, Default)]
pub struct SrcStats(pub Arc<Mutex<ReadStats>>);

impl SrcStats {
    pub fn get(&self) -> ReadStats {
        self.0.lock().unwrap().clone()
    }
}

pub fn open_read(data: &Arc<Vec<u8>>, d: &Delivery) -> (Box<dyn ReadSeek>, SrcStats) {
    match d {
        Delivery::Plain => (Box::new(Cursor::new(ArcBytes(data.clone()))), SrcStats::default()),
        Delivery::Chunk { script, .. } => {
            let r = ChunkRead::new(data.clone(), script.clone());
            let st = SrcStats(r.stats.clone());
            (Box::new(r), st)
        }
        Delivery::Buffered { script, bufcap } => {
            let r = ChunkRead::new(data.clone(), script.clone());
            let st = SrcStats(r.stats.clone());
            (Box::new(BufReader::with_capacity((*bufcap as usize).max(1), r)), st)
        }
        Delivery::Window { script } => {
            let r = WindowBufRead::new(data.clone(), script.clone());
            let st = SrcStats(r.stats.clone());
            (Box::new(r), st)
        }
    }
}

pub fn open_bufread(data: &Arc<Vec<u8>>, d: &Delivery) -> (Box<dyn BufReadSeek>, SrcStats) {
    match d {
        Delivery::Plain => (Box::new(Cursor::new(ArcBytes(data.clone()))), SrcStats::default()),
        Delivery::Chunk { script, bufcap } => {
            let r = ChunkRead::new(data.clone(), script.clone());
            let st = SrcStats(r.stats.clone());
            let b: Box<dyn BufReadSeek> = match bufcap {
                Some(c) => Box::new(BufReader::with_capacity((*c as usize).max(1), r)),
                None => Box::new(BufReader::new(r)),
            };
            (b, st)
        }
        Delivery::Buffered { script, bufcap } => {
            let r = ChunkRead::new(data.clone(), script.clone());
            let st = SrcStats(r.stats.clone());
            (Box::new(BufReader::with_capacity((*bufcap as usize).max(1), r)), st)
        }
        Delivery::Window { script } => {
            let r = WindowBufRead::new(data.clone(), script.clone());
            let st = SrcStats(r.stats.clone());
            (Box::new(r), st)
        }
    }
}

/// `Arc<Vec<u8>>` as `AsRef<[u8]>` for `Cursor`.
#[derive(Clone)]
pub struct ArcBytes(pub Arc<Vec<u8>>);
impl AsRef<[u8]> for ArcBytes {
    fn as_ref(&self) -> &[u8] {
        &self.0
    }
}

#[derive(Clone, Debug)]
pub struct ReadOpts {
    /// touch every accessor of every record returned Ok (C15)
    pub sweep: bool,
    /// stop and emit `Runaway` after this many events
    pub max_events: usize,
    /// record a `Vpos` event after each record for BGZF-based formats
    pub vpos: bool,
    /// buffer size used by the raw BGZF driver's `read` loop (≥ 65536 takes the reader's
    /// direct-into-caller-buffer path)
    pub bgzf_buf: usize,
    /// skip the calls that are listed known hangs (counted in `KNOWN_HANGS_EXCLUDED`); off in
    /// single-mutant replays so that the known finding still reproduces
    pub exclude_known_hangs: bool,
}

/// How often a listed known hang was avoided by a predicate on the input (C15 accounting).
pub static KNOWN_HANGS_EXCLUDED: std::sync::atomic::AtomicU64 = std::sync::atomic::AtomicU64::new(0);

impl Default for ReadOpts {
    fn default() -> Self {
        ReadOpts { sweep: false, max_events: 200_000, vpos: true, bgzf_buf: 4093, exclude_known_hangs: false }
    }
}

#[derive(Clone, Copy, Debug, PartialEq, Eq)]
pub enum Family {
    Bgzf,
    Alignment,
    Variant,
    Text,
    Index,
}

pub trait Driver: Send + Sync {
    fn name(&self) -> &'static str;
    fn family(&self) -> Family;
    /// file is a BGZF container (blocks can be walked / re-framed)
    fn is_bgzf(&self) -> bool;
    fn doc(&self, tier: Tier) -> BoxedStrategy<Doc>;
    /// Write the document through noodles with the writer's documented finishing protocol.
    /// Returns the first error any noodles call returned.
    fn write(&self, doc: &Doc, sink: &mut dyn Write) -> io::Result<()>;
    /// Read bytes into a transcript. `doc` supplies side information a reader legitimately needs
    /// (the CRAM reference).
    fn read(&self, data: &Arc<Vec<u8>>, d: &Delivery, doc: &Doc, opts: &ReadOpts) -> (Transcript, SrcStats);
    /// For writers that need to own a `'static + Send` sink (the multithreaded BGZF writer):
    /// write straight into the given handle. `None` = use `write`.
    fn write_owned(&self, _doc: &Doc, _sink: Box<dyn crate::io_adv::faulty::DynSink>) -> Option<io::Result<()>> {
        None
    }
    /// The document as text rendered by the harness itself, not by a noodles writer (text
    /// formats only): input that keeps what noodles' writers normalise away — CRLF line ends, a
    /// missing final newline, raw UTF-8 where noodles would percent-encode.
    fn raw_input(&self, _doc: &Doc) -> Option<Vec<u8>> {
        None
    }
    /// Has an async twin (reader, writer).
    fn has_async(&self) -> (bool, bool) {
        (false, false)
    }
}

/// Write a document to a `Vec<u8>` (healthy sink).
pub fn write_to_vec(drv: &dyn Driver, doc: &Doc) -> io::Result<Vec<u8>> {
    let mut v = Vec::new();
    drv.write(doc, &mut v)?;
    Ok(v)
}

pub fn all() -> Vec<Box<dyn Driver>> {
    sync::all()
}

pub fn by_name(name: &str) -> Option<Box<dyn Driver>> {
    all().into_iter().find(|d| d.name() == name)
}

pub fn names() -> Vec<&'static str> {
    all().iter().map(|d| d.name()).collect()
}
