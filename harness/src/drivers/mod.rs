//! Format-driver table (stub).
