//! Async halves of the format drivers (filled in below).
