//! Async halves of the format drivers: the same transcripts / bytes as `sync.rs`, through the async
//! APIs over the scripted poll adversaries (`io_adv::async_adv`).

use super::sync::{
    aln_of, binning_index_events, build_binned_index, build_linear_index, crai_of_doc, cram_records_per_slice, fai_of_doc, gff_line_text, gzi_of_doc, parse_sam, parse_vcf, repository_of, sam_header_text, text_of, var_of,
    vcf_header_text,
};
use super::*;
use crate::io_adv::async_adv::{AdvAsyncRead, AdvAsyncWrite, PollScript, PollStats};
use futures::StreamExt;
use noodles_bam as bam;
use noodles_bcf as bcf;
use noodles_bgzf as bgzf;
use noodles_cram as cram;
use noodles_csi as csi;
use noodles_fasta as fasta;
use noodles_fastq as fastq;
use noodles_gff as gff;
use noodles_sam as sam;
use noodles_tabix as tabix;
use noodles_vcf as vcf;
use std::num::NonZero;
use tokio::io::{AsyncReadExt, AsyncWriteExt, BufReader};

pub fn runtime() -> tokio::runtime::Runtime {
    tokio::runtime::Builder::new_current_thread().max_blocking_threads(8).build().expect("tokio runtime")
}

fn push(t: &mut Transcript, opts: &ReadOpts, e: Ev) -> bool {
    if t.len() >= opts.max_events {
        t.push(Ev::Runaway);
        return false;
    }
    t.push(e);
    true
}

fn aln_text(header: &sam::Header, rec: &dyn sam::alignment::Record) -> Result<String, io::Error> {
    let buf = sam::alignment::RecordBuf::try_from_alignment_record(header, rec)?;
    Ok(format!("{buf:?}"))
}

fn var_text(header: &vcf::Header, rec: &dyn vcf::variant::Record) -> Result<String, io::Error> {
    let buf = vcf::variant::RecordBuf::try_from_variant_record(header, rec)?;
    Ok(format!("{buf:?}"))
}

pub fn has_async_reader(name: &str) -> bool {
    matches!(name, "bgzf" | "bam" | "bam-eager" | "sam" | "cram" | "vcf" | "bcf" | "fasta" | "fastq" | "gff" | "gff-bufs" | "bai" | "csi" | "tabix" | "gzi" | "fai" | "crai")
}

pub fn has_async_writer(name: &str) -> bool {
    matches!(name, "bgzf" | "bam" | "sam" | "cram" | "vcf" | "bcf" | "fastq" | "bai" | "csi" | "tabix" | "gzi" | "fai" | "crai")
}

/// Read `data` through the async reader of driver `name` under a poll script. The events are built
/// exactly like the sync driver's.
pub fn read_async(name: &str, data: &Arc<Vec<u8>>, doc: &Doc, script: &PollScript, workers: usize, opts: &ReadOpts) -> Option<(Transcript, PollStats)> {
    if !has_async_reader(name) {
        return None;
    }
    let src = AdvAsyncRead::new(data.clone(), script);
    let stats = src.stats.clone();
    let rt = runtime();
    let workers = NonZero::new(workers.clamp(1, 8)).unwrap();
    let mut t: Transcript = Vec::new();
    let name = name.to_string();
    rt.block_on(async {
        match name.as_str() {
            "bgzf" => {
                let mut r = bgzf::r#async::io::reader::Builder::default().set_worker_count(workers).build_from_reader(src);
                let mut buf = vec![0u8; opts.bgzf_buf.max(1)];
                let mut h: u64 = 0xcbf29ce484222325;
                let mut total = 0usize;
                let limit = data.len().saturating_mul(1100).saturating_add(1 << 20);
                let end = loop {
                    match r.read(&mut buf).await {
                        Ok(0) => break Ev::Eof,
                        Ok(n) => {
                            for b in &buf[..n] {
                                h ^= *b as u64;
                                h = h.wrapping_mul(0x100000001b3);
                            }
                            total += n;
                            if total > limit {
                                break Ev::Runaway;
                            }
                        }
                        Err(e) => break err_ev("read", &e),
                    }
                };
                t.push(Ev::Bytes(h, total));
                t.push(Ev::Vpos(u64::from(r.virtual_position())));
                t.push(end);
            }
            "bam" | "bam-eager" => {
                let inner = bgzf::r#async::io::reader::Builder::default().set_worker_count(workers).build_from_reader(src);
                let mut r = bam::r#async::io::Reader::from(inner);
                let header = match r.read_header().await {
                    Ok(h) => h,
                    Err(e) => {
                        t.push(err_ev("header", &e));
                        return;
                    }
                };
                t.push(Ev::Header(sam_header_text(&header)));
                if opts.vpos {
                    t.push(Ev::Vpos(u64::from(r.get_ref().virtual_position())));
                }
                if name == "bam-eager" {
                    let mut rec = sam::alignment::RecordBuf::default();
                    loop {
                        match r.read_record_buf(&header, &mut rec).await {
                            Ok(0) => {
                                t.push(Ev::Eof);
                                break;
                            }
                            Ok(_) => {
                                if !push(&mut t, opts, Ev::Record(format!("{rec:?}"))) {
                                    break;
                                }
                                if opts.vpos {
                                    t.push(Ev::Vpos(u64::from(r.get_ref().virtual_position())));
                                }
                            }
                            Err(e) => {
                                t.push(err_ev("record", &e));
                                break;
                            }
                        }
                    }
                } else {
                    let mut rec = bam::Record::default();
                    loop {
                        match r.read_record(&mut rec).await {
                            Ok(0) => {
                                t.push(Ev::Eof);
                                break;
                            }
                            Ok(_) => {
                                let ev = match aln_text(&header, &rec) {
                                    Ok(s) => Ev::Record(s),
                                    Err(e) => err_ev("decode", &e),
                                };
                                if !push(&mut t, opts, ev) {
                                    break;
                                }
                                if opts.vpos {
                                    t.push(Ev::Vpos(u64::from(r.get_ref().virtual_position())));
                                }
                            }
                            Err(e) => {
                                t.push(err_ev("record", &e));
                                break;
                            }
                        }
                    }
                }
            }
            "sam" => {
                let mut r = sam::r#async::io::Reader::new(BufReader::new(src));
                let header = match r.read_header().await {
                    Ok(h) => h,
                    Err(e) => {
                        t.push(err_ev("header", &e));
                        return;
                    }
                };
                t.push(Ev::Header(sam_header_text(&header)));
                let mut rec = sam::alignment::RecordBuf::default();
                loop {
                    match r.read_record_buf(&header, &mut rec).await {
                        Ok(0) => {
                            t.push(Ev::Eof);
                            break;
                        }
                        Ok(_) => {
                            if !push(&mut t, opts, Ev::Record(format!("{rec:?}"))) {
                                break;
                            }
                        }
                        Err(e) => {
                            t.push(err_ev("record", &e));
                            break;
                        }
                    }
                }
            }
            "cram" => {
                let repo = match doc {
                    Doc::Aln(a) => repository_of(a),
                    _ => fasta::Repository::default(),
                };
                let mut r = cram::r#async::io::reader::Builder::default().set_reference_sequence_repository(repo).build_from_reader(src);
                let header = match r.read_header().await {
                    Ok(h) => h,
                    Err(e) => {
                        t.push(err_ev("header", &e));
                        return;
                    }
                };
                t.push(Ev::Header(sam_header_text(&header)));
                let mut ended = false;
                {
                    let mut records = r.records(&header);
                    while let Some(rec) = records.next().await {
                        match rec {
                            Ok(rec) => {
                                if !push(&mut t, opts, Ev::Record(format!("{rec:?}"))) {
                                    ended = true;
                                    break;
                                }
                            }
                            Err(e) => {
                                t.push(err_ev("record", &e));
                                ended = true;
                                break;
                            }
                        }
                    }
                }
                if !ended {
                    t.push(Ev::Eof);
                }
            }
            "vcf" => {
                let mut r = vcf::r#async::io::Reader::new(BufReader::new(src));
                let header = match r.read_header().await {
                    Ok(h) => h,
                    Err(e) => {
                        t.push(err_ev("header", &e));
                        return;
                    }
                };
                t.push(Ev::Header(vcf_header_text(&header)));
                let mut rec = vcf::Record::default();
                loop {
                    match r.read_record(&mut rec).await {
                        Ok(0) => {
                            t.push(Ev::Eof);
                            break;
                        }
                        Ok(_) => {
                            let ev = match var_text(&header, &rec) {
                                Ok(s) => Ev::Record(s),
                                Err(e) => err_ev("decode", &e),
                            };
                            if !push(&mut t, opts, ev) {
                                break;
                            }
                        }
                        Err(e) => {
                            t.push(err_ev("record", &e));
                            break;
                        }
                    }
                }
            }
            "bcf" => {
                let inner = bgzf::r#async::io::reader::Builder::default().set_worker_count(workers).build_from_reader(src);
                let mut r = bcf::r#async::io::Reader::from(inner);
                let header = match r.read_header().await {
                    Ok(h) => h,
                    Err(e) => {
                        t.push(err_ev("header", &e));
                        return;
                    }
                };
                t.push(Ev::Header(vcf_header_text(&header)));
                if opts.vpos {
                    t.push(Ev::Vpos(u64::from(r.get_ref().virtual_position())));
                }
                let mut rec = bcf::Record::default();
                loop {
                    match r.read_record(&mut rec).await {
                        Ok(0) => {
                            t.push(Ev::Eof);
                            break;
                        }
                        Ok(_) => {
                            let ev = match var_text(&header, &rec) {
                                Ok(s) => Ev::Record(s),
                                Err(e) => err_ev("decode", &e),
                            };
                            if !push(&mut t, opts, ev) {
                                break;
                            }
                            if opts.vpos {
                                t.push(Ev::Vpos(u64::from(r.get_ref().virtual_position())));
                            }
                        }
                        Err(e) => {
                            t.push(err_ev("record", &e));
                            break;
                        }
                    }
                }
            }
            "fasta" => {
                let mut r = fasta::r#async::io::Reader::new(BufReader::new(src));
                loop {
                    let mut def = fasta::record::Definition::new("", None);
                    match r.read_definition(&mut def).await {
                        Ok(0) => {
                            t.push(Ev::Eof);
                            break;
                        }
                        Ok(_) => {}
                        Err(e) => {
                            t.push(err_ev("record", &e));
                            break;
                        }
                    }
                    let mut seq = Vec::new();
                    match r.read_sequence(&mut seq).await {
                        Ok(_) => {
                            let rec = fasta::Record::new(def, fasta::record::Sequence::from(seq));
                            if !push(&mut t, opts, Ev::Record(format!("{rec:?}"))) {
                                break;
                            }
                        }
                        Err(e) => {
                            t.push(err_ev("record", &e));
                            break;
                        }
                    }
                }
            }
            "fastq" => {
                let mut r = fastq::r#async::io::Reader::new(BufReader::new(src));
                let mut rec = fastq::Record::default();
                loop {
                    match r.read_record(&mut rec).await {
                        Ok(0) => {
                            t.push(Ev::Eof);
                            break;
                        }
                        Ok(_) => {
                            if !push(&mut t, opts, Ev::Record(format!("{rec:?}"))) {
                                break;
                            }
                        }
                        Err(e) => {
                            t.push(err_ev("record", &e));
                            break;
                        }
                    }
                }
            }
            "gff" => {
                let mut r = gff::r#async::io::Reader::new(BufReader::new(src));
                let mut line = gff::Line::default();
                loop {
                    match r.read_line(&mut line).await {
                        Ok(0) => {
                            t.push(Ev::Eof);
                            break;
                        }
                        Ok(_) => {
                            if !push(&mut t, opts, Ev::Record(gff_line_text(&line, false))) {
                                break;
                            }
                        }
                        Err(e) => {
                            t.push(err_ev("record", &e));
                            break;
                        }
                    }
                }
            }
            "gff-bufs" => {
                use futures::TryStreamExt;
                let mut r = gff::r#async::io::Reader::new(BufReader::new(src));
                let mut lbs = r.line_bufs();
                loop {
                    match lbs.try_next().await {
                        Ok(None) => {
                            t.push(Ev::Eof);
                            break;
                        }
                        Ok(Some(lb)) => {
                            if !push(&mut t, opts, Ev::Record(format!("LB:{lb:?}"))) {
                                break;
                            }
                        }
                        Err(e) => {
                            t.push(err_ev("record", &e));
                            break;
                        }
                    }
                }
            }
            "bai" | "csi" | "tabix" | "gzi" | "fai" | "crai" => {
                let res: io::Result<Vec<Ev>> = match name.as_str() {
                    "bai" => bam::bai::r#async::io::Reader::new(src).read_index().await.map(|i| binning_index_events(&i)),
                    "csi" => csi::r#async::io::Reader::new(src).read_index().await.map(|i| binning_index_events(&i)),
                    "tabix" => tabix::r#async::io::Reader::new(src).read_index().await.map(|i| binning_index_events(&i)),
                    "gzi" => bgzf::gzi::r#async::io::Reader::new(src).read_index().await.map(|i| i.as_ref().iter().map(|e| Ev::Record(format!("{e:?}"))).collect()),
                    "fai" => fasta::fai::r#async::io::Reader::new(BufReader::new(src)).read_index().await.map(|i| i.as_ref().iter().map(|e| Ev::Record(format!("{e:?}"))).collect()),
                    _ => cram::crai::r#async::io::Reader::new(src).read_index().await.map(|i| i.iter().map(|e| Ev::Record(format!("{e:?}"))).collect()),
                };
                match res {
                    Ok(evs) => {
                        for e in evs {
                            if !push(&mut t, opts, e) {
                                break;
                            }
                        }
                        t.push(Ev::Eof);
                    }
                    Err(e) => t.push(err_ev("index", &e)),
                }
            }
            _ => {}
        }
    });
    let st = stats.lock().unwrap().clone();
    Some((t, st))
}

/// Write `doc` through the async writer of driver `name` under a poll script with the documented
/// finishing protocol (`shutdown`). Returns the bytes the sink holds.
pub fn write_async(name: &str, doc: &Doc, script: &PollScript, workers: usize) -> Option<(io::Result<()>, Vec<u8>, PollStats)> {
    if !has_async_writer(name) {
        return None;
    }
    let sink = AdvAsyncWrite::new(script);
    let bytes = sink.bytes.clone();
    let stats = sink.stats.clone();
    let rt = runtime();
    let workers = NonZero::new(workers.clamp(1, 8)).unwrap();
    let name = name.to_string();
    let res: io::Result<()> = rt.block_on(async {
        match name.as_str() {
            "bgzf" => {
                let Doc::Bytes { payload, flushes, level } = doc else { return Err(io::Error::other("wrong doc")) };
                let data = payload.expand();
                let mut b = bgzf::r#async::io::writer::Builder::default().set_worker_count(workers);
                if let Some(l) = level {
                    if let Some(cl) = bgzf::io::writer::CompressionLevel::new(*l) {
                        b = b.set_compression_level(cl);
                    }
                }
                let mut w = b.build_from_writer(sink);
                let mut points: Vec<usize> = flushes.iter().map(|p| (*p as usize % 1001) * data.len() / 1000).collect();
                points.sort_unstable();
                let mut off = 0;
                for p in points {
                    w.write_all(&data[off..p]).await?;
                    w.flush().await?;
                    off = p;
                }
                w.write_all(&data[off..]).await?;
                w.shutdown().await?;
                Ok(())
            }
            "bam" => {
                let d = aln_of(doc)?;
                let (header, recs) = parse_sam(&d.sam_text("unsorted"))?;
                let inner = bgzf::r#async::io::writer::Builder::default().set_worker_count(workers).build_from_writer(sink);
                let mut w = bam::r#async::io::Writer::from(inner);
                w.write_header(&header).await?;
                for (i, r) in recs.iter().enumerate() {
                    if let Some(bad) = super::sync::rejected_variant(i, r) {
                        let _ = w.write_alignment_record(&header, &bad).await;
                    }
                    w.write_alignment_record(&header, r).await?;
                }
                w.shutdown().await?;
                Ok(())
            }
            "sam" => {
                let d = aln_of(doc)?;
                let (header, recs) = parse_sam(&d.sam_text("unsorted"))?;
                let mut w = sam::r#async::io::Writer::new(sink);
                w.write_header(&header).await?;
                for r in &recs {
                    w.write_alignment_record(&header, r).await?;
                }
                w.get_mut().shutdown().await?;
                Ok(())
            }
            "cram" => {
                let d = aln_of(doc)?;
                let (header, recs) = parse_sam(&d.sam_text("unsorted"))?;
                let mut b = cram::r#async::io::writer::Builder::default().set_reference_sequence_repository(repository_of(d));
                if let Some(n) = cram_records_per_slice(d) {
                    b = b.verif_set_records_per_slice(n);
                }
                let mut w = b.build_from_writer(sink);
                w.write_header(&header).await?;
                for r in &recs {
                    w.write_alignment_record(&header, r).await?;
                }
                w.shutdown(&header).await?;
                Ok(())
            }
            "vcf" => {
                let d = var_of(doc)?;
                let (header, recs) = parse_vcf(&d.vcf_text())?;
                let mut w = vcf::r#async::io::Writer::new(sink);
                w.write_header(&header).await?;
                for r in &recs {
                    w.write_variant_record(&header, r).await?;
                }
                w.shutdown().await?;
                Ok(())
            }
            "bcf" => {
                let d = var_of(doc)?;
                let (header, recs) = parse_vcf(&d.vcf_text())?;
                let inner = bgzf::r#async::io::writer::Builder::default().set_worker_count(workers).build_from_writer(sink);
                let mut w = bcf::r#async::io::Writer::from(inner);
                w.write_header(&header).await?;
                for r in &recs {
                    w.write_variant_record(&header, r).await?;
                }
                w.get_mut().shutdown().await?;
                Ok(())
            }
            "fastq" => {
                let text = text_of(doc)?.render();
                let mut rd = fastq::io::Reader::new(&text[..]);
                let mut w = fastq::r#async::io::Writer::new(sink);
                for rec in rd.records() {
                    w.write_record(&rec?).await?;
                }
                w.get_mut().shutdown().await?;
                Ok(())
            }
            "bai" => {
                let Doc::BinIndex(d) = doc else { return Err(io::Error::other("wrong doc")) };
                let ix = build_linear_index(d, false)?;
                let mut w = bam::bai::r#async::io::Writer::new(sink);
                w.write_index(&ix).await?;
                w.shutdown().await?;
                Ok(())
            }
            "tabix" => {
                let Doc::BinIndex(d) = doc else { return Err(io::Error::other("wrong doc")) };
                let ix = build_linear_index(d, true)?;
                let mut w = tabix::r#async::io::Writer::new(sink);
                w.write_index(&ix).await?;
                w.shutdown().await?;
                Ok(())
            }
            "csi" => {
                let Doc::BinIndex(d) = doc else { return Err(io::Error::other("wrong doc")) };
                let ix = build_binned_index(d)?;
                let mut w = csi::r#async::io::Writer::new(sink);
                w.write_index(&ix).await?;
                w.shutdown().await?;
                Ok(())
            }
            "gzi" => {
                let Doc::Pairs(d) = doc else { return Err(io::Error::other("wrong doc")) };
                let mut w = bgzf::gzi::r#async::io::Writer::new(sink);
                w.write_index(&gzi_of_doc(d)).await?;
                w.get_mut().shutdown().await?;
                Ok(())
            }
            "fai" => {
                let Doc::Fai(d) = doc else { return Err(io::Error::other("wrong doc")) };
                let mut w = fasta::fai::r#async::io::Writer::new(sink);
                w.write_index(&fai_of_doc(d)).await?;
                w.shutdown().await?;
                Ok(())
            }
            "crai" => {
                let Doc::Crai(d) = doc else { return Err(io::Error::other("wrong doc")) };
                let mut w = cram::crai::r#async::io::Writer::new(sink);
                w.write_index(&crai_of_doc(d)).await?;
                w.shutdown().await?;
                Ok(())
            }
            _ => Ok(()),
        }
    });
    let out = bytes.lock().unwrap().clone();
    let st = stats.lock().unwrap().clone();
    Some((res, out, st))
}
