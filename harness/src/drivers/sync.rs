//! Synchronous halves of the format drivers.

use super::*;
use crate::engine::{Tier, fnv};
use noodles_bam as bam;
use noodles_bcf as bcf;
use noodles_bed as bed;
use noodles_bgzf as bgzf;
use noodles_core::Position;
use noodles_cram as cram;
use noodles_csi as csi;
use noodles_fasta as fasta;
use noodles_fastq as fastq;
use noodles_gff as gff;
use noodles_gtf as gtf;
use noodles_sam as sam;
use noodles_tabix as tabix;
use noodles_vcf as vcf;
use proptest::prelude::*;
use sam::alignment::io::Write as _;
use std::io::{self, BufRead, Read, Write};
use vcf::variant::io::Write as _;

fn invalid(msg: impl Into<String>) -> io::Error {
    io::Error::new(io::ErrorKind::InvalidInput, msg.into())
}

// ---------------------------------------------------------------------------------------------
// conversions from the plain documents to noodles values (by parsing harness-rendered text from a
// plain slice)

pub fn parse_sam(text: &str) -> io::Result<(sam::Header, Vec<sam::alignment::RecordBuf>)> {
    let mut r = sam::io::Reader::new(text.as_bytes());
    let header = r.read_header()?;
    let mut recs = Vec::new();
    for rec in r.record_bufs(&header) {
        recs.push(rec?);
    }
    Ok((header, recs))
}

pub fn parse_vcf(text: &str) -> io::Result<(vcf::Header, Vec<vcf::variant::RecordBuf>)> {
    let mut r = vcf::io::Reader::new(text.as_bytes());
    let header = r.read_header()?;
    let mut recs = Vec::new();
    for rec in r.record_bufs(&header) {
        recs.push(rec?);
    }
    Ok((header, recs))
}

pub fn aln_of(doc: &Doc) -> io::Result<&AlnDoc> {
    match doc {
        Doc::Aln(d) => Ok(d),
        _ => Err(invalid("driver given a document of the wrong kind")),
    }
}
pub fn var_of(doc: &Doc) -> io::Result<&VarDoc> {
    match doc {
        Doc::Var(d) => Ok(d),
        _ => Err(invalid("driver given a document of the wrong kind")),
    }
}
pub fn text_of(doc: &Doc) -> io::Result<&TextDoc> {
    match doc {
        Doc::Text(d) => Ok(d),
        _ => Err(invalid("driver given a document of the wrong kind")),
    }
}

pub fn repository_of(d: &AlnDoc) -> fasta::Repository {
    let records: Vec<fasta::Record> = d
        .references()
        .into_iter()
        .map(|(name, seq)| fasta::Record::new(fasta::record::Definition::new(name, None), fasta::record::Sequence::from(seq)))
        .collect();
    fasta::Repository::new(records)
}

/// Exercise a `Debug` implementation. A `fmt::Error` returned by it is an error, not a panic
/// (`format!` would turn it into a panic of the formatting machinery), so it is ignored here.
pub fn dbg_touch<T: std::fmt::Debug>(x: &T) {
    use std::fmt::Write as _;
    struct Sink(usize);
    impl std::fmt::Write for Sink {
        fn write_str(&mut self, s: &str) -> std::fmt::Result {
            self.0 += s.len();
            if self.0 > 4_000_000 { Err(std::fmt::Error) } else { Ok(()) }
        }
    }
    let mut sink = Sink(0);
    let _ = write!(sink, "{x:?}");
}

// ---------------------------------------------------------------------------------------------
// event helpers

pub struct Tx<'a> {
    pub t: Transcript,
    pub opts: &'a ReadOpts,
}

impl<'a> Tx<'a> {
    pub fn new(opts: &'a ReadOpts) -> Self {
        Tx { t: Vec::new(), opts }
    }
    /// push; returns false when the event budget is exhausted
    pub fn push(&mut self, e: Ev) -> bool {
        if self.t.len() >= self.opts.max_events {
            self.t.push(Ev::Runaway);
            return false;
        }
        self.t.push(e);
        true
    }
}

/// Deterministic rendering of a SAM header (`Debug` is deterministic here, but the writer's text is
/// the canonical form; fall back to `Debug` when the writer rejects the header).
pub fn sam_header_text(h: &sam::Header) -> String {
    let mut w = sam::io::Writer::new(Vec::new());
    match w.write_header(h) {
        Ok(()) => String::from_utf8_lossy(w.get_ref()).into_owned(),
        Err(_) => format!("{h:?}"),
    }
}

/// Deterministic rendering of a VCF header. NOT `Debug`: the header's string maps contain a
/// `HashMap` whose iteration order differs between two equal values.
pub fn vcf_header_text(h: &vcf::Header) -> String {
    let mut w = vcf::io::Writer::new(Vec::new());
    let text = match w.write_header(h) {
        Ok(()) => String::from_utf8_lossy(w.get_ref()).into_owned(),
        Err(e) => format!("<unwritable: {:?}>", e.kind()),
    };
    format!(
        "{text}|{:?}|{:?}|{:?}|{:?}|{:?}|{:?}|{:?}|{:?}",
        h.file_format(),
        h.infos(),
        h.filters(),
        h.formats(),
        h.alternative_alleles(),
        h.contigs(),
        h.sample_names(),
        h.other_records()
    )
}

fn bgzf_vpos<R: Read>(r: &bgzf::io::Reader<R>) -> u64 {
    u64::from(r.virtual_position())
}

// ---------------------------------------------------------------------------------------------
// BGZF

pub struct BgzfDriver;

pub fn bgzf_write_doc(doc: &Doc, sink: &mut dyn Write) -> io::Result<()> {
    let Doc::Bytes { payload, flushes, level } = doc else { return Err(invalid("wrong doc")) };
    let data = payload.expand();
    let mut b = bgzf::io::writer::Builder::default();
    if let Some(l) = level {
        if let Some(cl) = bgzf::io::writer::CompressionLevel::new(*l) {
            b = b.set_compression_level(cl);
        }
    }
    let mut w = b.build_from_writer(sink);
    let mut points: Vec<usize> = flushes.iter().map(|p| (*p as usize % 1001) * data.len() / 1000).collect();
    points.sort_unstable();
    let mut off = 0;
    for p in points {
        w.write_all(&data[off..p])?;
        w.flush()?;
        off = p;
    }
    w.write_all(&data[off..])?;
    w.finish()?;
    Ok(())
}

impl Driver for BgzfDriver {
    fn name(&self) -> &'static str {
        "bgzf"
    }
    fn family(&self) -> Family {
        Family::Bgzf
    }
    fn is_bgzf(&self) -> bool {
        true
    }
    fn doc(&self, tier: Tier) -> BoxedStrategy<Doc> {
        let max = tier.pick(150_000, 300_000);
        (crate::r#gen::payload::payload(max), proptest::collection::vec(0u16..=1000, 0..5), proptest::option::of(0u8..=9))
            .prop_map(|(payload, flushes, level)| Doc::Bytes { payload, flushes, level })
            .boxed()
    }
    fn write(&self, doc: &Doc, sink: &mut dyn Write) -> io::Result<()> {
        bgzf_write_doc(doc, sink)
    }
    fn read(&self, data: &Arc<Vec<u8>>, d: &Delivery, _doc: &Doc, opts: &ReadOpts) -> (Transcript, SrcStats) {
        let (src, st) = open_read(data, d);
        let mut tx = Tx::new(opts);
        let mut r = bgzf::io::Reader::new(src);
        let mut buf = vec![0u8; opts.bgzf_buf.max(1)];
        let mut h: u64 = 0xcbf29ce484222325;
        let mut total = 0usize;
        let limit = data.len().saturating_mul(1100).saturating_add(1 << 20);
        let end = loop {
            match r.read(&mut buf) {
                Ok(0) => break Ev::Eof,
                Ok(n) => {
                    for b in &buf[..n] {
                        h ^= *b as u64;
                        h = h.wrapping_mul(0x100000001b3);
                    }
                    total += n;
                    if total > limit {
                        break Ev::Runaway;
                    }
                }
                Err(e) => break err_ev("read", &e),
            }
        };
        tx.push(Ev::Bytes(h, total));
        tx.push(Ev::Vpos(bgzf_vpos(&r)));
        tx.push(end);
        (tx.t, st)
    }
    fn has_async(&self) -> (bool, bool) {
        (true, true)
    }
}

/// BGZF through the multithreaded writer / reader (rayon pool of the process).
pub struct BgzfMtDriver;

fn bgzf_mt_write(doc: &Doc, sink: Box<dyn crate::io_adv::faulty::DynSink>) -> io::Result<()> {
    let Doc::Bytes { payload, flushes, level } = doc else { return Err(invalid("wrong doc")) };
    let data = payload.expand();
    let mut b = bgzf::io::multithreaded_writer::Builder::default();
    if let Some(l) = level {
        if let Some(cl) = bgzf::io::writer::CompressionLevel::new(*l) {
            b = b.set_compression_level(cl);
        }
    }
    let mut w = b.build_from_writer(sink);
    let mut points: Vec<usize> = flushes.iter().map(|p| (*p as usize % 1001) * data.len() / 1000).collect();
    points.sort_unstable();
    let mut off = 0;
    // after the first error only drop the writer (further calls are outside what it promises)
    let res = (|| -> io::Result<()> {
        for p in points {
            w.write_all(&data[off..p])?;
            w.flush()?;
            off = p;
        }
        w.write_all(&data[off..])?;
        w.finish()?;
        Ok(())
    })();
    drop(w);
    res
}

impl Driver for BgzfMtDriver {
    fn name(&self) -> &'static str {
        "bgzf-mt"
    }
    fn family(&self) -> Family {
        Family::Bgzf
    }
    fn is_bgzf(&self) -> bool {
        true
    }
    fn doc(&self, tier: Tier) -> BoxedStrategy<Doc> {
        BgzfDriver.doc(tier)
    }
    fn write(&self, doc: &Doc, sink: &mut dyn Write) -> io::Result<()> {
        let s = crate::io_adv::sink::SyncSink::new();
        bgzf_mt_write(doc, Box::new(s.clone()))?;
        sink.write_all(&s.bytes())
    }
    fn write_owned(&self, doc: &Doc, sink: Box<dyn crate::io_adv::faulty::DynSink>) -> Option<io::Result<()>> {
        Some(bgzf_mt_write(doc, sink))
    }
    fn read(&self, data: &Arc<Vec<u8>>, d: &Delivery, _doc: &Doc, opts: &ReadOpts) -> (Transcript, SrcStats) {
        let (src, st) = open_read(data, d);
        let mut tx = Tx::new(opts);
        let mut r = bgzf::io::MultithreadedReader::new(src);
        let mut buf = vec![0u8; opts.bgzf_buf.max(1)];
        let mut h: u64 = 0xcbf29ce484222325;
        let mut total = 0usize;
        let limit = data.len().saturating_mul(1100).saturating_add(1 << 20);
        let mut end = loop {
            match r.read(&mut buf) {
                Ok(0) => break Ev::Eof,
                Ok(n) => {
                    for b in &buf[..n] {
                        h ^= *b as u64;
                        h = h.wrapping_mul(0x100000001b3);
                    }
                    total += n;
                    if total > limit {
                        break Ev::Runaway;
                    }
                }
                Err(e) => break err_ev("read", &e),
            }
        };
        tx.push(Ev::Bytes(h, total));
        tx.push(Ev::Vpos(u64::from(r.virtual_position())));
        // frame-level errors surface from finish() by design
        if let Err(e) = r.finish() {
            if matches!(end, Ev::Eof) {
                end = err_ev("finish", &e);
            }
        }
        tx.push(end);
        (tx.t, st)
    }
}

// ---------------------------------------------------------------------------------------------
// alignment formats

fn aln_record_text(header: &sam::Header, rec: &dyn sam::alignment::Record, sweep: bool) -> Result<String, io::Error> {
    if sweep {
        sweep_alignment_record(header, rec);
    }
    let buf = sam::alignment::RecordBuf::try_from_alignment_record(header, rec)?;
    if sweep {
        // SAM rendering of what was decoded (may legitimately fail with an error)
        let mut w = sam::io::Writer::new(Vec::new());
        let _ = w.write_alignment_record(header, &buf);
    }
    Ok(format!("{buf:?}"))
}

/// Touch every accessor of an alignment record (C15): results are ignored, only panics matter.
pub fn sweep_alignment_record(header: &sam::Header, rec: &dyn sam::alignment::Record) {
    let _ = rec.name().map(|n| n.len());
    let _ = rec.flags();
    let _ = rec.reference_sequence_id(header);
    let _ = rec.alignment_start();
    let _ = rec.mapping_quality();
    let cigar = rec.cigar();
    let _ = cigar.len();
    for op in cigar.iter().take(100_000) {
        let _ = op;
    }
    let _ = rec.mate_reference_sequence_id(header);
    let _ = rec.mate_alignment_start();
    let _ = rec.template_length();
    let seq = rec.sequence();
    let _ = seq.len();
    let _ = seq.iter().take(1_000_000).count();
    let q = rec.quality_scores();
    let _ = q.len();
    let _ = q.iter().take(1_000_000).count();
    let data = rec.data();
    for f in data.iter().take(100_000) {
        if let Ok((_tag, value)) = f {
            dbg_touch(&value);
        }
    }
    let _ = rec.alignment_span();
    let _ = rec.alignment_end();
    let _ = rec.reference_sequence(header);
    let _ = rec.mate_reference_sequence(header);
}

pub struct BamDriver {
    /// read through the lazy record (`read_record`) or the eager `read_record_buf`
    pub eager: bool,
    /// uncompressed BAM stream (`Writer::from` / `Reader::from`), no BGZF layer
    pub raw: bool,
}

pub fn write_bam_raw(d: &AlnDoc, sink: &mut dyn Write) -> io::Result<()> {
    let (header, recs) = parse_sam(&d.sam_text("unsorted"))?;
    let mut w = bam::io::Writer::from(sink);
    w.write_header(&header)?;
    for r in recs.iter() {
        w.write_alignment_record(&header, r)?;
    }
    w.get_mut().flush()?;
    Ok(())
}

/// A record the BAM encoder must reject after it has encoded part of it: the given record with one
/// quality score too few (`None` when the record has fewer than two bases or no scores). Written —
/// and its error ignored — in front of every third record by the sync and async BAM halves alike: a
/// rejected record must leave no trace in what the writer emits afterwards.
pub fn rejected_variant(i: usize, r: &sam::alignment::RecordBuf) -> Option<sam::alignment::RecordBuf> {
    if i % 3 != 1 || r.sequence().len() < 2 || r.quality_scores().as_ref().len() != r.sequence().len() {
        return None;
    }
    let mut bad = r.clone();
    let mut q = bad.quality_scores().as_ref().to_vec();
    q.pop();
    *bad.quality_scores_mut() = q.into();
    Some(bad)
}

pub fn write_bam(d: &AlnDoc, sink: &mut dyn Write) -> io::Result<()> {
    let (header, recs) = parse_sam(&d.sam_text("unsorted"))?;
    let mut w = bam::io::Writer::new(sink);
    w.write_header(&header)?;
    for (i, r) in recs.iter().enumerate() {
        if let Some(bad) = rejected_variant(i, r) {
            let _ = w.write_alignment_record(&header, &bad);
        }
        w.write_alignment_record(&header, r)?;
        if d.flush_every > 0 && (i + 1) % d.flush_every as usize == 0 {
            w.get_mut().flush()?;
        }
    }
    w.try_finish()?;
    // `try_finish` followed by drop would write a second EOF block from `Drop` (which cannot
    // report a failure); take the sink back instead, so that every sink call belongs to an
    // explicit writer call
    let _ = w.into_inner().into_inner();
    Ok(())
}

impl Driver for BamDriver {
    fn name(&self) -> &'static str {
        match (self.raw, self.eager) {
            (true, false) => "bam-raw",
            (true, true) => "bam-raw-eager",
            (false, true) => "bam-eager",
            (false, false) => "bam",
        }
    }
    fn family(&self) -> Family {
        Family::Alignment
    }
    fn is_bgzf(&self) -> bool {
        !self.raw
    }
    fn doc(&self, _tier: Tier) -> BoxedStrategy<Doc> {
        aln_doc(14).prop_map(Doc::Aln).boxed()
    }
    fn write(&self, doc: &Doc, sink: &mut dyn Write) -> io::Result<()> {
        if self.raw { write_bam_raw(aln_of(doc)?, sink) } else { write_bam(aln_of(doc)?, sink) }
    }
    fn read(&self, data: &Arc<Vec<u8>>, d: &Delivery, _doc: &Doc, opts: &ReadOpts) -> (Transcript, SrcStats) {
        if self.raw {
            return read_bam_raw(data, d, opts, self.eager);
        }
        let (src, st) = open_read(data, d);
        let mut tx = Tx::new(opts);
        let mut r = bam::io::Reader::new(src);
        let header = match r.read_header() {
            Ok(h) => h,
            Err(e) => {
                tx.push(err_ev("header", &e));
                return (tx.t, st);
            }
        };
        tx.push(Ev::Header(sam_header_text(&header)));
        if opts.vpos {
            tx.push(Ev::Vpos(bgzf_vpos(r.get_ref())));
        }
        if self.eager {
            let mut rec = sam::alignment::RecordBuf::default();
            loop {
                match r.read_record_buf(&header, &mut rec) {
                    Ok(0) => {
                        tx.push(Ev::Eof);
                        break;
                    }
                    Ok(_) => {
                        if opts.sweep {
                            sweep_alignment_record(&header, &rec);
                        }
                        if !tx.push(Ev::Record(format!("{rec:?}"))) {
                            break;
                        }
                        if opts.vpos {
                            tx.push(Ev::Vpos(bgzf_vpos(r.get_ref())));
                        }
                    }
                    Err(e) => {
                        tx.push(err_ev("record", &e));
                        break;
                    }
                }
            }
        } else {
            let mut rec = bam::Record::default();
            loop {
                match r.read_record(&mut rec) {
                    Ok(0) => {
                        tx.push(Ev::Eof);
                        break;
                    }
                    Ok(_) => {
                        if opts.sweep {
                            dbg_touch(&rec);
                        }
                        match aln_record_text(&header, &rec, opts.sweep) {
                            Ok(s) => {
                                if !tx.push(Ev::Record(s)) {
                                    break;
                                }
                            }
                            Err(e) => {
                                // the record was framed but does not decode: report and go on
                                if !tx.push(err_ev("decode", &e)) {
                                    break;
                                }
                            }
                        }
                        if opts.vpos {
                            tx.push(Ev::Vpos(bgzf_vpos(r.get_ref())));
                        }
                    }
                    Err(e) => {
                        tx.push(err_ev("record", &e));
                        break;
                    }
                }
            }
        }
        (tx.t, st)
    }
    fn has_async(&self) -> (bool, bool) {
        (!self.raw, !self.raw)
    }
}

/// Uncompressed BAM stream through the lazy record reader (+ conversion to `RecordBuf`).
fn read_bam_raw(data: &Arc<Vec<u8>>, d: &Delivery, opts: &ReadOpts, eager: bool) -> (Transcript, SrcStats) {
    let (src, st) = open_read(data, d);
    let mut tx = Tx::new(opts);
    let mut r = bam::io::Reader::from(src);
    let header = match r.read_header() {
        Ok(h) => h,
        Err(e) => {
            tx.push(err_ev("header", &e));
            return (tx.t, st);
        }
    };
    tx.push(Ev::Header(sam_header_text(&header)));
    if eager {
        let mut rec = sam::alignment::RecordBuf::default();
        loop {
            match r.read_record_buf(&header, &mut rec) {
                Ok(0) => {
                    tx.push(Ev::Eof);
                    break;
                }
                Ok(_) => {
                    if opts.sweep {
                        sweep_alignment_record(&header, &rec);
                    }
                    if !tx.push(Ev::Record(format!("{rec:?}"))) {
                        break;
                    }
                }
                Err(e) => {
                    tx.push(err_ev("record", &e));
                    break;
                }
            }
        }
        return (tx.t, st);
    }
    let mut rec = bam::Record::default();
    loop {
        match r.read_record(&mut rec) {
            Ok(0) => {
                tx.push(Ev::Eof);
                break;
            }
            Ok(_) => {
                if opts.sweep {
                    dbg_touch(&rec);
                }
                match aln_record_text(&header, &rec, opts.sweep) {
                    Ok(s) => {
                        if !tx.push(Ev::Record(s)) {
                            break;
                        }
                    }
                    Err(e) => {
                        if !tx.push(err_ev("decode", &e)) {
                            break;
                        }
                    }
                }
            }
            Err(e) => {
                tx.push(err_ev("record", &e));
                break;
            }
        }
    }
    (tx.t, st)
}

pub struct SamDriver {
    pub bgzipped: bool,
    /// read through `Reader::read_record` into a reused lazy `sam::Record` (plain text only)
    pub lazy: bool,
}

pub fn write_sam<W: Write>(d: &AlnDoc, mut w: sam::io::Writer<W>) -> io::Result<W> {
    let (header, recs) = parse_sam(&d.sam_text("unsorted"))?;
    w.write_header(&header)?;
    for r in &recs {
        w.write_alignment_record(&header, r)?;
    }
    sam::alignment::io::Write::finish(&mut w, &header)?;
    Ok(w.into_inner())
}

fn read_sam_stream<R: BufRead>(mut r: sam::io::Reader<R>, tx: &mut Tx, vpos: &dyn Fn(&sam::io::Reader<R>) -> Option<u64>, lazy: bool) {
    let header = match r.read_header() {
        Ok(h) => h,
        Err(e) => {
            tx.push(err_ev("header", &e));
            return;
        }
    };
    tx.push(Ev::Header(sam_header_text(&header)));
    if lazy {
        // `Reader::read_record` into one reused `sam::Record`, decoded through the record trait
        let mut rec = sam::Record::default();
        loop {
            match r.read_record(&mut rec) {
                Ok(0) => {
                    tx.push(Ev::Eof);
                    break;
                }
                Ok(_) => {
                    let go = match sam::alignment::RecordBuf::try_from_alignment_record(&header, &rec) {
                        Ok(buf) => tx.push(Ev::Record(format!("{buf:?}"))),
                        Err(e) => tx.push(err_ev("decode", &e)),
                    };
                    if !go {
                        break;
                    }
                }
                Err(e) => {
                    tx.push(err_ev("record", &e));
                    break;
                }
            }
        }
        return;
    }
    let mut rec = sam::alignment::RecordBuf::default();
    loop {
        match r.read_record_buf(&header, &mut rec) {
            Ok(0) => {
                tx.push(Ev::Eof);
                break;
            }
            Ok(_) => {
                if tx.opts.sweep {
                    sweep_alignment_record(&header, &rec);
                }
                if !tx.push(Ev::Record(format!("{rec:?}"))) {
                    break;
                }
                if tx.opts.vpos {
                    if let Some(v) = vpos(&r) {
                        tx.push(Ev::Vpos(v));
                    }
                }
            }
            Err(e) => {
                tx.push(err_ev("record", &e));
                break;
            }
        }
    }
}

/// Lazy SAM records: every accessor (C15 sweep only).
pub fn sweep_sam_lazy(data: &[u8], exclude_known_hangs: bool) {
    let mut r = sam::io::Reader::new(data);
    let Ok(header) = r.read_header() else { return };
    let mut rec = sam::Record::default();
    let mut n = 0;
    while let Ok(k) = r.read_record(&mut rec) {
        if k == 0 || n > 10_000 {
            break;
        }
        n += 1;
        sweep_alignment_record(&header, &rec);
        // known finding (hang@sam): the lazy CIGAR iterator yields `Err` forever on a malformed
        // CIGAR, so `Debug` of the record (DebugList::entries over it) never returns
        let cigar_errs = rec.cigar().iter().take(100_000).any(|op| op.is_err());
        if cigar_errs && exclude_known_hangs {
            super::KNOWN_HANGS_EXCLUDED.fetch_add(1, std::sync::atomic::Ordering::Relaxed);
        } else {
            dbg_touch(&rec);
        }
        let _ = sam::alignment::RecordBuf::try_from_alignment_record(&header, &rec);
    }
}

impl Driver for SamDriver {
    fn name(&self) -> &'static str {
        if self.bgzipped { "sam.gz" } else if self.lazy { "sam-lazy" } else { "sam" }
    }
    fn family(&self) -> Family {
        Family::Alignment
    }
    fn is_bgzf(&self) -> bool {
        self.bgzipped
    }
    fn doc(&self, _tier: Tier) -> BoxedStrategy<Doc> {
        aln_doc(14).prop_map(Doc::Aln).boxed()
    }
    fn write(&self, doc: &Doc, sink: &mut dyn Write) -> io::Result<()> {
        let d = aln_of(doc)?;
        if self.bgzipped {
            let (header, recs) = parse_sam(&d.sam_text("unsorted"))?;
            let mut w = sam::io::Writer::new(bgzf::io::Writer::new(sink));
            w.write_header(&header)?;
            for (i, r) in recs.iter().enumerate() {
                w.write_alignment_record(&header, r)?;
                if d.flush_every > 0 && (i + 1) % d.flush_every as usize == 0 {
                    w.get_mut().flush()?;
                }
            }
            sam::alignment::io::Write::finish(&mut w, &header)?;
            w.into_inner().finish()?;
            Ok(())
        } else {
            write_sam(d, sam::io::Writer::new(sink)).map(|_| ())
        }
    }
    fn read(&self, data: &Arc<Vec<u8>>, d: &Delivery, _doc: &Doc, opts: &ReadOpts) -> (Transcript, SrcStats) {
        let mut tx = Tx::new(opts);
        if self.bgzipped {
            let (src, st) = open_read(data, d);
            let r = sam::io::Reader::new(bgzf::io::Reader::new(src));
            read_sam_stream(r, &mut tx, &|r| Some(bgzf_vpos(r.get_ref())), self.lazy);
            (tx.t, st)
        } else {
            let (src, st) = open_bufread(data, d);
            if opts.sweep {
                sweep_sam_lazy(data, opts.exclude_known_hangs);
            }
            let r = sam::io::Reader::new(src);
            read_sam_stream(r, &mut tx, &|_| None, self.lazy);
            (tx.t, st)
        }
    }
    fn raw_input(&self, doc: &Doc) -> Option<Vec<u8>> {
        if self.bgzipped { None } else { aln_of(doc).ok().map(|d| d.sam_text("unsorted").into_bytes()) }
    }
    fn has_async(&self) -> (bool, bool) {
        (!self.bgzipped && !self.lazy, !self.bgzipped && !self.lazy)
    }
}

pub struct CramDriver;

pub fn write_cram(d: &AlnDoc, sink: &mut dyn Write, records_per_slice: Option<usize>) -> io::Result<()> {
    let (header, recs) = parse_sam(&d.sam_text("unsorted"))?;
    let mut b = cram::io::writer::Builder::default().set_reference_sequence_repository(repository_of(d));
    if let Some(n) = records_per_slice {
        b = b.verif_set_records_per_slice(n);
    }
    let mut w = b.build_from_writer(sink);
    w.write_header(&header)?;
    for r in &recs {
        w.write_alignment_record(&header, r)?;
    }
    w.try_finish(&header)?;
    Ok(())
}

pub fn cram_records_per_slice(d: &AlnDoc) -> Option<usize> {
    match d.flush_every {
        0 => None,
        n => Some(n as usize + 1),
    }
}

impl Driver for CramDriver {
    fn name(&self) -> &'static str {
        "cram"
    }
    fn family(&self) -> Family {
        Family::Alignment
    }
    fn is_bgzf(&self) -> bool {
        false
    }
    fn doc(&self, _tier: Tier) -> BoxedStrategy<Doc> {
        aln_doc(10).prop_map(Doc::Aln).boxed()
    }
    fn write(&self, doc: &Doc, sink: &mut dyn Write) -> io::Result<()> {
        let d = aln_of(doc)?;
        write_cram(d, sink, cram_records_per_slice(d))
    }
    fn read(&self, data: &Arc<Vec<u8>>, d: &Delivery, doc: &Doc, opts: &ReadOpts) -> (Transcript, SrcStats) {
        let (src, st) = open_read(data, d);
        let mut tx = Tx::new(opts);
        let repo = match doc {
            Doc::Aln(a) => repository_of(a),
            _ => fasta::Repository::default(),
        };
        let mut r = cram::io::reader::Builder::default().set_reference_sequence_repository(repo).build_from_reader(src);
        let header = match r.read_header() {
            Ok(h) => h,
            Err(e) => {
                tx.push(err_ev("header", &e));
                return (tx.t, st);
            }
        };
        tx.push(Ev::Header(sam_header_text(&header)));
        let mut ended = false;
        for rec in r.records(&header) {
            match rec {
                Ok(rec) => {
                    if opts.sweep {
                        sweep_alignment_record(&header, &rec);
                    }
                    if !tx.push(Ev::Record(format!("{rec:?}"))) {
                        ended = true;
                        break;
                    }
                }
                Err(e) => {
                    tx.push(err_ev("record", &e));
                    ended = true;
                    break;
                }
            }
        }
        if !ended {
            tx.push(Ev::Eof);
        }
        (tx.t, st)
    }
    fn has_async(&self) -> (bool, bool) {
        (true, true)
    }
}

// ---------------------------------------------------------------------------------------------
// variant formats

pub fn sweep_variant_record(header: &vcf::Header, rec: &dyn vcf::variant::Record) {
    let _ = rec.reference_sequence_name(header);
    let _ = rec.variant_start();
    for id in rec.ids().iter().take(10_000) {
        let _ = id;
    }
    let _ = rec.reference_bases().len();
    let _ = rec.reference_bases().iter().take(1_000_000).count();
    let alts = rec.alternate_bases();
    let _ = alts.len();
    for a in alts.iter().take(10_000) {
        let _ = a;
    }
    let _ = rec.quality_score();
    let filters = rec.filters();
    let _ = filters.is_pass(header);
    for f in filters.iter(header).take(10_000) {
        let _ = f;
    }
    let info = rec.info();
    for f in info.iter(header).take(10_000) {
        if let Ok((_k, v)) = f {
            dbg_touch(&v);
        }
    }
    if let Ok(samples) = rec.samples() {
        let _ = samples.len();
        let names: Vec<String> = samples.column_names(header).take(1000).map(|s| s.map(|x| x.to_string()).unwrap_or_default()).collect();
        for name in &names {
            let _ = samples.select(header, name);
        }
        for series in samples.series().take(1000) {
            if let Ok(series) = series {
                let _ = series.name(header);
                for v in series.iter(header).take(1000) {
                    if let Ok(Some(v)) = v {
                        dbg_touch(&v);
                    }
                }
            }
        }
        for sample in samples.iter().take(1000) {
            for f in sample.iter(header).take(1000) {
                if let Ok((_k, Some(v))) = f {
                    dbg_touch(&v);
                }
            }
        }
    }
    let _ = rec.variant_span(header);
    let _ = rec.variant_end(header);
}

fn var_record_text(header: &vcf::Header, rec: &dyn vcf::variant::Record, sweep: bool) -> Result<String, io::Error> {
    if sweep {
        sweep_variant_record(header, rec);
    }
    let buf = vcf::variant::RecordBuf::try_from_variant_record(header, rec)?;
    if sweep {
        let mut w = vcf::io::Writer::new(Vec::new());
        let _ = w.write_variant_record(header, &buf);
    }
    Ok(format!("{buf:?}"))
}

pub struct VcfDriver {
    pub bgzipped: bool,
}

fn read_vcf_stream<R: BufRead>(mut r: vcf::io::Reader<R>, tx: &mut Tx, vpos: &dyn Fn(&vcf::io::Reader<R>) -> Option<u64>) {
    let header = match r.read_header() {
        Ok(h) => h,
        Err(e) => {
            tx.push(err_ev("header", &e));
            return;
        }
    };
    tx.push(Ev::Header(vcf_header_text(&header)));
    let mut rec = vcf::Record::default();
    loop {
        match r.read_record(&mut rec) {
            Ok(0) => {
                tx.push(Ev::Eof);
                break;
            }
            Ok(_) => {
                if tx.opts.sweep {
                    dbg_touch(&rec);
                }
                match var_record_text(&header, &rec, tx.opts.sweep) {
                    Ok(s) => {
                        if !tx.push(Ev::Record(s)) {
                            break;
                        }
                    }
                    Err(e) => {
                        if !tx.push(err_ev("decode", &e)) {
                            break;
                        }
                    }
                }
                if tx.opts.vpos {
                    if let Some(v) = vpos(&r) {
                        tx.push(Ev::Vpos(v));
                    }
                }
            }
            Err(e) => {
                tx.push(err_ev("record", &e));
                break;
            }
        }
    }
}

impl Driver for VcfDriver {
    fn name(&self) -> &'static str {
        if self.bgzipped { "vcf.gz" } else { "vcf" }
    }
    fn family(&self) -> Family {
        Family::Variant
    }
    fn is_bgzf(&self) -> bool {
        self.bgzipped
    }
    fn doc(&self, _tier: Tier) -> BoxedStrategy<Doc> {
        var_doc(14).prop_map(Doc::Var).boxed()
    }
    fn write(&self, doc: &Doc, sink: &mut dyn Write) -> io::Result<()> {
        let d = var_of(doc)?;
        let (header, recs) = parse_vcf(&d.vcf_text())?;
        if self.bgzipped {
            let mut w = vcf::io::Writer::new(bgzf::io::Writer::new(sink));
            w.write_header(&header)?;
            for (i, r) in recs.iter().enumerate() {
                w.write_variant_record(&header, r)?;
                if d.flush_every > 0 && (i + 1) % d.flush_every as usize == 0 {
                    w.get_mut().flush()?;
                }
            }
            w.into_inner().finish()?;
        } else {
            let mut w = vcf::io::Writer::new(sink);
            w.write_header(&header)?;
            for r in &recs {
                w.write_variant_record(&header, r)?;
            }
            w.get_mut().flush()?;
        }
        Ok(())
    }
    fn read(&self, data: &Arc<Vec<u8>>, d: &Delivery, _doc: &Doc, opts: &ReadOpts) -> (Transcript, SrcStats) {
        let mut tx = Tx::new(opts);
        if self.bgzipped {
            let (src, st) = open_read(data, d);
            let r = vcf::io::Reader::new(bgzf::io::Reader::new(src));
            read_vcf_stream(r, &mut tx, &|r| Some(bgzf_vpos(r.get_ref())));
            (tx.t, st)
        } else {
            let (src, st) = open_bufread(data, d);
            let r = vcf::io::Reader::new(src);
            read_vcf_stream(r, &mut tx, &|_| None);
            (tx.t, st)
        }
    }
    fn raw_input(&self, doc: &Doc) -> Option<Vec<u8>> {
        if self.bgzipped { None } else { var_of(doc).ok().map(|d| d.vcf_text().into_bytes()) }
    }
    fn has_async(&self) -> (bool, bool) {
        (!self.bgzipped, !self.bgzipped)
    }
}

pub struct BcfDriver {
    /// uncompressed BCF stream (`Writer::from` / `Reader::from`), no BGZF layer
    pub raw: bool,
}

pub fn write_bcf_raw(d: &VarDoc, sink: &mut dyn Write) -> io::Result<()> {
    let (header, recs) = parse_vcf(&d.vcf_text())?;
    let mut w = bcf::io::Writer::from(sink);
    w.write_header(&header)?;
    for r in recs.iter() {
        w.write_variant_record(&header, r)?;
    }
    w.get_mut().flush()?;
    Ok(())
}

pub fn write_bcf(d: &VarDoc, sink: &mut dyn Write) -> io::Result<()> {
    let (header, recs) = parse_vcf(&d.vcf_text())?;
    let mut w = bcf::io::Writer::new(sink);
    w.write_header(&header)?;
    for (i, r) in recs.iter().enumerate() {
        w.write_variant_record(&header, r)?;
        if d.flush_every > 0 && (i + 1) % d.flush_every as usize == 0 {
            w.get_mut().flush()?;
        }
    }
    w.try_finish()?;
    let _ = w.into_inner().into_inner();
    Ok(())
}

impl Driver for BcfDriver {
    fn name(&self) -> &'static str {
        if self.raw { "bcf-raw" } else { "bcf" }
    }
    fn family(&self) -> Family {
        Family::Variant
    }
    fn is_bgzf(&self) -> bool {
        !self.raw
    }
    fn doc(&self, _tier: Tier) -> BoxedStrategy<Doc> {
        var_doc(14).prop_map(Doc::Var).boxed()
    }
    fn write(&self, doc: &Doc, sink: &mut dyn Write) -> io::Result<()> {
        if self.raw { write_bcf_raw(var_of(doc)?, sink) } else { write_bcf(var_of(doc)?, sink) }
    }
    fn read(&self, data: &Arc<Vec<u8>>, d: &Delivery, _doc: &Doc, opts: &ReadOpts) -> (Transcript, SrcStats) {
        if self.raw {
            let (src, st) = open_read(data, d);
            let mut tx = Tx::new(opts);
            read_bcf_stream(bcf::io::Reader::from(src), &mut tx, &|_| None);
            return (tx.t, st);
        }
        let (src, st) = open_read(data, d);
        let mut tx = Tx::new(opts);
        read_bcf_stream(bcf::io::Reader::new(src), &mut tx, &|r| Some(bgzf_vpos(r.get_ref())));
        (tx.t, st)
    }
    fn has_async(&self) -> (bool, bool) {
        (!self.raw, !self.raw)
    }
}

fn read_bcf_stream<R: Read>(mut r: bcf::io::Reader<R>, tx: &mut Tx, vpos: &dyn Fn(&bcf::io::Reader<R>) -> Option<u64>) {
    let opts = tx.opts;
    {
        let header = match r.read_header() {
            Ok(h) => h,
            Err(e) => {
                tx.push(err_ev("header", &e));
                return;
            }
        };
        tx.push(Ev::Header(vcf_header_text(&header)));
        if opts.vpos {
            if let Some(v) = vpos(&r) {
                tx.push(Ev::Vpos(v));
            }
        }
        let mut rec = bcf::Record::default();
        loop {
            match r.read_record(&mut rec) {
                Ok(0) => {
                    tx.push(Ev::Eof);
                    break;
                }
                Ok(_) => {
                    if opts.sweep {
                        dbg_touch(&rec);
                    }
                    match var_record_text(&header, &rec, opts.sweep) {
                        Ok(s) => {
                            if !tx.push(Ev::Record(s)) {
                                break;
                            }
                        }
                        Err(e) => {
                            if !tx.push(err_ev("decode", &e)) {
                                break;
                            }
                        }
                    }
                    if opts.vpos {
                        if let Some(v) = vpos(&r) {
                            tx.push(Ev::Vpos(v));
                        }
                    }
                }
                Err(e) => {
                    tx.push(err_ev("record", &e));
                    break;
                }
            }
        }
    }
}

// ---------------------------------------------------------------------------------------------
// line-oriented text formats

#[derive(Clone, Copy, PartialEq, Eq, Debug)]
pub enum TextKind {
    /// GFF3 read through the owned views (`line_bufs()`), which have their own conversions
    GffBufs,
    Fasta,
    /// FASTA text read by `fasta::io::Indexer` (the events are the `.fai` records it builds)
    FastaIndexer,
    Fastq,
    Gff,
    Gtf,
    Bed3,
    Bed4,
    Bed5,
    Bed6,
}

pub struct TextDriver {
    pub kind: TextKind,
}

fn read_bed<const N: usize, R: BufRead>(
    tx: &mut Tx,
    mut read: impl FnMut(&mut bed::Record<N>) -> io::Result<usize>,
    render: impl Fn(&bed::Record<N>, bool) -> String,
    _r: std::marker::PhantomData<R>,
) where
    bed::Record<N>: Default,
{
    let mut rec = bed::Record::<N>::default();
    loop {
        match read(&mut rec) {
            Ok(0) => {
                tx.push(Ev::Eof);
                break;
            }
            Ok(_) => {
                let s = render(&rec, tx.opts.sweep);
                if !tx.push(Ev::Record(s)) {
                    break;
                }
            }
            Err(e) => {
                tx.push(err_ev("record", &e));
                break;
            }
        }
    }
}

fn others<const N: usize>(rec: &bed::Record<N>) -> String {
    let o = rec.other_fields();
    let v: Vec<String> = o.iter().map(|f| format!("{f:?}")).collect();
    v.join("|")
}

impl TextDriver {
    fn write_records(&self, text: &[u8], sink: &mut dyn Write) -> io::Result<()> {
        match self.kind {
            TextKind::Fasta | TextKind::FastaIndexer => {
                let mut r = fasta::io::Reader::new(text);
                let mut w = fasta::io::Writer::new(sink);
                for rec in r.records() {
                    w.write_record(&rec?)?;
                }
                w.get_mut().flush()
            }
            TextKind::Fastq => {
                let mut r = fastq::io::Reader::new(text);
                let mut w = fastq::io::Writer::new(sink);
                for rec in r.records() {
                    w.write_record(&rec?)?;
                }
                w.get_mut().flush()
            }
            TextKind::Gff | TextKind::GffBufs => {
                let mut r = gff::io::Reader::new(text);
                let mut w = gff::io::Writer::new(sink);
                for line in r.line_bufs() {
                    w.write_line(&line?)?;
                }
                w.get_mut().flush()
            }
            TextKind::Gtf => {
                let mut r = gtf::io::Reader::new(text);
                let mut w = gtf::io::Writer::new(sink);
                let lines: Vec<_> = r.line_bufs().collect();
                for line in lines {
                    w.write_line(&line?)?;
                }
                w.get_mut().flush()
            }
            TextKind::Bed3 => {
                let mut r = bed::io::Reader::<3, _>::new(text);
                let mut w = bed::io::Writer::<3, _>::new(sink);
                let mut rec = bed::Record::<3>::default();
                while r.read_record(&mut rec)? != 0 {
                    w.write_record(&rec)?;
                }
                w.get_mut().flush()
            }
            TextKind::Bed4 => {
                let mut r = bed::io::Reader::<4, _>::new(text);
                let mut w = bed::io::Writer::<4, _>::new(sink);
                let mut rec = bed::Record::<4>::default();
                while r.read_record(&mut rec)? != 0 {
                    w.write_record(&rec)?;
                }
                w.get_mut().flush()
            }
            TextKind::Bed5 => {
                let mut r = bed::io::Reader::<5, _>::new(text);
                let mut w = bed::io::Writer::<5, _>::new(sink);
                let mut rec = bed::Record::<5>::default();
                while r.read_record(&mut rec)? != 0 {
                    w.write_record(&rec)?;
                }
                w.get_mut().flush()
            }
            TextKind::Bed6 => {
                let mut r = bed::io::Reader::<6, _>::new(text);
                let mut w = bed::io::Writer::<6, _>::new(sink);
                let mut rec = bed::Record::<6>::default();
                while r.read_record(&mut rec)? != 0 {
                    w.write_record(&rec)?;
                }
                w.get_mut().flush()
            }
        }
    }
}

impl Driver for TextDriver {
    fn name(&self) -> &'static str {
        match self.kind {
            TextKind::Fasta => "fasta",
            TextKind::FastaIndexer => "fasta-indexer",
            TextKind::Fastq => "fastq",
            TextKind::Gff => "gff",
            TextKind::GffBufs => "gff-bufs",
            TextKind::Gtf => "gtf",
            TextKind::Bed3 => "bed3",
            TextKind::Bed4 => "bed4",
            TextKind::Bed5 => "bed5",
            TextKind::Bed6 => "bed6",
        }
    }
    fn family(&self) -> Family {
        Family::Text
    }
    fn is_bgzf(&self) -> bool {
        false
    }
    fn doc(&self, _tier: Tier) -> BoxedStrategy<Doc> {
        match self.kind {
            TextKind::Fasta | TextKind::FastaIndexer => fasta_doc(),
            TextKind::Fastq => fastq_doc(),
            TextKind::Gff | TextKind::GffBufs => gff_doc(),
            TextKind::Gtf => gtf_doc(),
            TextKind::Bed3 => bed_doc(3),
            TextKind::Bed4 => bed_doc(4),
            TextKind::Bed5 => bed_doc(5),
            TextKind::Bed6 => bed_doc(6),
        }
        .prop_map(Doc::Text)
        .boxed()
    }
    fn write(&self, doc: &Doc, sink: &mut dyn Write) -> io::Result<()> {
        let text = text_of(doc)?.render();
        self.write_records(&text, sink)
    }
    fn read(&self, data: &Arc<Vec<u8>>, d: &Delivery, _doc: &Doc, opts: &ReadOpts) -> (Transcript, SrcStats) {
        let (src, st) = open_bufread(data, d);
        let mut tx = Tx::new(opts);
        match self.kind {
            TextKind::Fasta => {
                let mut r = fasta::io::Reader::new(src);
                let mut ended = false;
                for rec in r.records() {
                    match rec {
                        Ok(rec) => {
                            if !tx.push(Ev::Record(format!("{rec:?}"))) {
                                ended = true;
                                break;
                            }
                        }
                        Err(e) => {
                            tx.push(err_ev("record", &e));
                            ended = true;
                            break;
                        }
                    }
                }
                if !ended {
                    tx.push(Ev::Eof);
                }
            }
            TextKind::FastaIndexer => {
                let mut ix = fasta::io::Indexer::new(src);
                loop {
                    match ix.index_record() {
                        Ok(None) => {
                            tx.push(Ev::Eof);
                            break;
                        }
                        Ok(Some(rec)) => {
                            if !tx.push(Ev::Record(format!("{rec:?}"))) {
                                break;
                            }
                        }
                        Err(e) => {
                            // an I/O error is reported by its kind, like every other driver's
                            match std::error::Error::source(&e).and_then(|s| s.downcast_ref::<io::Error>()) {
                                Some(io_e) => tx.push(err_ev("record", io_e)),
                                None => tx.push(Ev::Err { stage: "record", kind: format!("{e:?}") }),
                            };
                            break;
                        }
                    }
                }
            }
            TextKind::Fastq => {
                let mut r = fastq::io::Reader::new(src);
                let mut rec = fastq::Record::default();
                loop {
                    match r.read_record(&mut rec) {
                        Ok(0) => {
                            tx.push(Ev::Eof);
                            break;
                        }
                        Ok(_) => {
                            if !tx.push(Ev::Record(format!("{rec:?}"))) {
                                break;
                            }
                        }
                        Err(e) => {
                            tx.push(err_ev("record", &e));
                            break;
                        }
                    }
                }
            }
            TextKind::Gff => {
                let mut r = gff::io::Reader::new(src);
                let mut line = gff::Line::default();
                loop {
                    match r.read_line(&mut line) {
                        Ok(0) => {
                            tx.push(Ev::Eof);
                            break;
                        }
                        Ok(_) => {
                            let s = gff_line_text(&line, opts.sweep);
                            if !tx.push(Ev::Record(s)) {
                                break;
                            }
                        }
                        Err(e) => {
                            tx.push(err_ev("record", &e));
                            break;
                        }
                    }
                }
            }
            TextKind::GffBufs => {
                let mut r = gff::io::Reader::new(src);
                let mut ended = false;
                for lb in r.line_bufs() {
                    match lb {
                        Ok(lb) => {
                            if !tx.push(Ev::Record(format!("LB:{lb:?}"))) {
                                ended = true;
                                break;
                            }
                        }
                        Err(e) => {
                            tx.push(err_ev("record", &e));
                            ended = true;
                            break;
                        }
                    }
                }
                if !ended {
                    tx.push(Ev::Eof);
                }
            }
            TextKind::Gtf => {
                let mut r = gtf::io::Reader::new(src);
                let mut line = gtf::Line::default();
                loop {
                    match r.read_line(&mut line) {
                        Ok(0) => {
                            tx.push(Ev::Eof);
                            break;
                        }
                        Ok(_) => {
                            let s = gtf_line_text(&line, opts.sweep);
                            if !tx.push(Ev::Record(s)) {
                                break;
                            }
                        }
                        Err(e) => {
                            tx.push(err_ev("record", &e));
                            break;
                        }
                    }
                }
            }
            TextKind::Bed3 => {
                let mut r = bed::io::Reader::<3, _>::new(src);
                read_bed::<3, Box<dyn BufReadSeek>>(
                    &mut tx,
                    |rec| r.read_record(rec),
                    |rec, _| format!("{:?}|{:?}|{:?}|{}", rec.reference_sequence_name(), rec.feature_start().ok(), rec.feature_end().map(|x| x.ok()), others(rec)),
                    std::marker::PhantomData,
                );
            }
            TextKind::Bed4 => {
                let mut r = bed::io::Reader::<4, _>::new(src);
                read_bed::<4, Box<dyn BufReadSeek>>(
                    &mut tx,
                    |rec| r.read_record(rec),
                    |rec, _| format!("{:?}|{:?}|{:?}|{:?}|{}", rec.reference_sequence_name(), rec.feature_start().ok(), rec.feature_end().map(|x| x.ok()), rec.name(), others(rec)),
                    std::marker::PhantomData,
                );
            }
            TextKind::Bed5 => {
                let mut r = bed::io::Reader::<5, _>::new(src);
                read_bed::<5, Box<dyn BufReadSeek>>(
                    &mut tx,
                    |rec| r.read_record(rec),
                    |rec, _| {
                        format!("{:?}|{:?}|{:?}|{:?}|{:?}|{}", rec.reference_sequence_name(), rec.feature_start().ok(), rec.feature_end().map(|x| x.ok()), rec.name(), rec.score().ok(), others(rec))
                    },
                    std::marker::PhantomData,
                );
            }
            TextKind::Bed6 => {
                let mut r = bed::io::Reader::<6, _>::new(src);
                read_bed::<6, Box<dyn BufReadSeek>>(
                    &mut tx,
                    |rec| r.read_record(rec),
                    |rec, _| {
                        format!(
                            "{:?}|{:?}|{:?}|{:?}|{:?}|{:?}|{}",
                            rec.reference_sequence_name(),
                            rec.feature_start().ok(),
                            rec.feature_end().map(|x| x.ok()),
                            rec.name(),
                            rec.score().ok(),
                            rec.strand().ok(),
                            others(rec)
                        )
                    },
                    std::marker::PhantomData,
                );
            }
        }
        (tx.t, st)
    }
    fn raw_input(&self, doc: &Doc) -> Option<Vec<u8>> {
        text_of(doc).ok().map(|t| t.render())
    }
    fn has_async(&self) -> (bool, bool) {
        match self.kind {
            TextKind::Fasta => (true, false),
            TextKind::Fastq => (true, true),
            TextKind::Gff | TextKind::GffBufs => (true, false),
            _ => (false, false),
        }
    }
}

pub fn gff_line_text(line: &gff::Line, sweep: bool) -> String {
    use gff::feature::Record as _;
    match line.kind() {
        gff::line::Kind::Directive => format!("D:{:?}", line.as_directive().map(|d| (d.key().to_string(), d.value().map(|v| v.to_string())))),
        gff::line::Kind::Comment => format!("C:{:?}", line.as_comment()),
        gff::line::Kind::Record => match line.as_record() {
            Some(Ok(rec)) => {
                if sweep {
                    let _ = rec.reference_sequence_name();
                    let _ = rec.source();
                    let _ = rec.ty();
                    let _ = rec.feature_start();
                    let _ = rec.feature_end();
                    let _ = rec.score();
                    let _ = rec.strand();
                    let _ = rec.phase();
                    let attrs = rec.attributes();
                    for a in attrs.iter().take(10_000) {
                        if let Ok((_k, v)) = a {
                            dbg_touch(&v);
                        }
                    }
                }
                match gff::feature::RecordBuf::try_from_feature_record(&rec) {
                    Ok(buf) => format!("R:{buf:?}"),
                    Err(e) => format!("R:decode-error:{:?}", e.kind()),
                }
            }
            Some(Err(e)) => format!("R:line-error:{:?}", e.kind()),
            None => "R:none".to_string(),
        },
    }
}

pub fn gtf_line_text(line: &gtf::Line, sweep: bool) -> String {
    use gff::feature::Record as _;
    match line.kind() {
        gtf::line::Kind::Comment => format!("C:{:?}", line.as_comment()),
        gtf::line::Kind::Record => match line.as_record() {
            Some(Ok(rec)) => {
                if sweep {
                    let _ = rec.reference_sequence_name();
                    let _ = rec.source();
                    let _ = rec.ty();
                    let _ = rec.feature_start();
                    let _ = rec.feature_end();
                    let _ = rec.score();
                    let _ = rec.strand();
                    let _ = rec.phase();
                    if let Ok(attrs) = rec.attributes() {
                        for a in attrs.iter().take(10_000) {
                            if let Ok((_k, v)) = a {
                                dbg_touch(&v);
                            }
                        }
                        dbg_touch(&attrs);
                    }
                }
                match gff::feature::RecordBuf::try_from_feature_record(&rec) {
                    Ok(buf) => format!("R:{buf:?}"),
                    Err(e) => format!("R:decode-error:{:?}", e.kind()),
                }
            }
            Some(Err(e)) => format!("R:line-error:{:?}", e.kind()),
            None => "R:none".to_string(),
        },
    }
}

// ---------------------------------------------------------------------------------------------
// index formats

#[derive(Clone, Copy, PartialEq, Eq, Debug)]
pub enum IndexKind {
    Bai,
    Csi,
    Tabix,
    Gzi,
    Fai,
    Crai,
}

pub struct IndexDriver {
    pub kind: IndexKind,
}

fn pos(n: u64) -> Position {
    Position::try_from((n.max(1)) as usize).unwrap_or(Position::MIN)
}

pub fn geometry_of(sel: u8) -> (u8, u8) {
    match sel % 4 {
        0 => (14, 5),
        1 => (12, 5),
        2 => (10, 4),
        _ => (14, 6),
    }
}

fn sorted_index_records(d: &BinIndexDoc, max_pos: u64) -> Vec<(usize, u64, u64, bool)> {
    let n = d.n_refs.clamp(1, 4) as usize;
    let mut v: Vec<(usize, u64, u64, bool)> = d
        .recs
        .iter()
        .map(|(r, s, l, m)| {
            let start = (*s as u64 % max_pos) + 1;
            let end = (start + *l as u64 - 1).min(max_pos);
            ((*r as usize) % n, start, end, *m)
        })
        .collect();
    v.sort_by_key(|x| (x.0, x.1));
    v
}

pub fn build_linear_index(d: &BinIndexDoc, tabix_header: bool) -> io::Result<csi::binning_index::Index<csi::binning_index::index::reference_sequence::index::LinearIndex>> {
    use csi::binning_index::index::reference_sequence::bin::Chunk;
    let n = d.n_refs.clamp(1, 4) as usize;
    let mut ix = csi::binning_index::Indexer::<csi::binning_index::index::reference_sequence::index::LinearIndex>::new(14, 5);
    if tabix_header {
        let mut rng = crate::r#gen::payload::XorShift::new(d.name_seed as u64 + 5);
        let names: Vec<bstr::BString> = (0..n).map(|i| bstr::BString::from(format!("chr{}_{}", i, rng.next() % 1000))).collect();
        let header = csi::binning_index::index::header::Builder::vcf().set_reference_sequence_names(names.into_iter().collect()).build();
        ix = ix.set_header(header);
    }
    let mut off: u64 = 1 << 16;
    for (r, s, e, m) in sorted_index_records(d, d.max_pos((1 << 29) - 1)) {
        let start = bgzf::VirtualPosition::from(off);
        off += 37 + (e - s) % 1000;
        let end = bgzf::VirtualPosition::from(off);
        ix.add_record(Some((r, pos(s), pos(e), m)), Chunk::new(start, end))?;
    }
    for _ in 0..unplaced_count(d) {
        ix.add_record(None, Chunk::new(bgzf::VirtualPosition::from(off), bgzf::VirtualPosition::from(off + 1)))?;
    }
    Ok(ix.build(n))
}

/// Number of unplaced unmapped records of an index document. Counts beyond one byte (and beyond two)
/// are included on purpose: the trailing count is an optional 8-byte field, and a reader that takes
/// a partly present field for a whole one is only visible when the missing bytes are not zero.
pub fn unplaced_count(d: &BinIndexDoc) -> u64 {
    match d.unplaced {
        0 => 0,
        1 => 1,
        2 => 258 + (d.name_seed % 200) as u64,
        3 => 3,
        _ => 65_792 + (d.name_seed % 50) as u64,
    }
}

pub fn build_binned_index(d: &BinIndexDoc) -> io::Result<csi::Index> {
    use csi::binning_index::index::reference_sequence::bin::Chunk;
    let n = d.n_refs.clamp(1, 4) as usize;
    let (min_shift, depth) = geometry_of(d.geometry);
    let max_pos: u64 = (1u64 << (min_shift as u32 + 3 * depth as u32)) - 1;
    let mut ix = csi::binning_index::Indexer::<csi::binning_index::index::reference_sequence::index::BinnedIndex>::new(min_shift, depth);
    let mut off: u64 = 1 << 16;
    for (r, s, e, m) in sorted_index_records(d, d.max_pos(max_pos)) {
        let start = bgzf::VirtualPosition::from(off);
        off += 37 + (e - s) % 1000;
        let end = bgzf::VirtualPosition::from(off);
        ix.add_record(Some((r, pos(s), pos(e), m)), Chunk::new(start, end))?;
    }
    for _ in 0..unplaced_count(d) {
        ix.add_record(None, Chunk::new(bgzf::VirtualPosition::from(off), bgzf::VirtualPosition::from(off + 1)))?;
    }
    Ok(ix.build(n))
}

pub fn gzi_of_doc(d: &PairsDoc) -> bgzf::gzi::Index {
    let mut c = 0u64;
    let mut u = 0u64;
    let v: Vec<(u64, u64)> = d
        .pairs
        .iter()
        .map(|(dc, du)| {
            c += *dc as u64;
            u += *du as u64;
            (c, u)
        })
        .collect();
    bgzf::gzi::Index::from(v)
}

pub fn fai_of_doc(d: &FaiDoc) -> fasta::fai::Index {
    let mut off = 0u64;
    let recs: Vec<fasta::fai::Record> = d
        .recs
        .iter()
        .enumerate()
        .map(|(i, (name, len, lb, crlf))| {
            let name = format!("{name}{i}");
            off += name.len() as u64 + 2;
            let line_bases = (*lb as u64).max(1);
            let line_width = line_bases + if *crlf { 2 } else { 1 };
            let rec = fasta::fai::Record::new(name, *len as u64, off, std::num::NonZero::new(line_bases).unwrap(), std::num::NonZero::new(line_width).unwrap());
            off += (*len as u64).div_ceil(line_bases) * line_width;
            rec
        })
        .collect();
    fasta::fai::Index::from(recs)
}

pub fn crai_of_doc(d: &CraiDoc) -> Vec<cram::crai::Record> {
    let mut off = 26u64;
    d.recs
        .iter()
        .map(|(r, s, span, doff, lm, sl)| {
            off += *doff as u64;
            let (rid, start) = if *r == 0 { (None, None) } else { (Some(*r as usize - 1), Position::new(*s as usize)) };
            cram::crai::Record::new(rid, start, *span as usize, off, *lm as u64, *sl as u64)
        })
        .collect()
}

impl Driver for IndexDriver {
    fn name(&self) -> &'static str {
        match self.kind {
            IndexKind::Bai => "bai",
            IndexKind::Csi => "csi",
            IndexKind::Tabix => "tabix",
            IndexKind::Gzi => "gzi",
            IndexKind::Fai => "fai",
            IndexKind::Crai => "crai",
        }
    }
    fn family(&self) -> Family {
        Family::Index
    }
    fn is_bgzf(&self) -> bool {
        matches!(self.kind, IndexKind::Csi | IndexKind::Tabix)
    }
    fn doc(&self, _tier: Tier) -> BoxedStrategy<Doc> {
        match self.kind {
            IndexKind::Bai | IndexKind::Csi | IndexKind::Tabix => bin_index_doc().prop_map(Doc::BinIndex).boxed(),
            IndexKind::Gzi => pairs_doc().prop_map(Doc::Pairs).boxed(),
            IndexKind::Fai => fai_doc().prop_map(Doc::Fai).boxed(),
            IndexKind::Crai => crai_doc().prop_map(Doc::Crai).boxed(),
        }
    }
    fn write(&self, doc: &Doc, sink: &mut dyn Write) -> io::Result<()> {
        match (self.kind, doc) {
            (IndexKind::Bai, Doc::BinIndex(d)) => {
                let ix = build_linear_index(d, false)?;
                let mut w = bam::bai::io::Writer::new(sink);
                w.write_index(&ix)?;
                w.get_mut().flush()
            }
            (IndexKind::Tabix, Doc::BinIndex(d)) => {
                let ix = build_linear_index(d, true)?;
                let mut w = tabix::io::Writer::new(sink);
                w.write_index(&ix)?;
                w.try_finish()?;
                let _ = w.into_inner().into_inner();
                Ok(())
            }
            (IndexKind::Csi, Doc::BinIndex(d)) => {
                let ix = build_binned_index(d)?;
                let mut w = csi::io::Writer::new(sink);
                w.write_index(&ix)?;
                w.into_inner().finish().map(|_| ())
            }
            (IndexKind::Gzi, Doc::Pairs(d)) => {
                let mut w = bgzf::gzi::io::Writer::new(sink);
                w.write_index(&gzi_of_doc(d))?;
                w.get_mut().flush()
            }
            (IndexKind::Fai, Doc::Fai(d)) => {
                let mut w = fasta::fai::io::Writer::new(sink);
                w.write_index(&fai_of_doc(d))?;
                w.get_mut().flush()
            }
            (IndexKind::Crai, Doc::Crai(d)) => {
                let mut w = cram::crai::io::Writer::new(sink);
                w.write_index(&crai_of_doc(d))?;
                w.finish().map(|_| ())
            }
            _ => Err(invalid("wrong doc")),
        }
    }
    fn read(&self, data: &Arc<Vec<u8>>, d: &Delivery, _doc: &Doc, opts: &ReadOpts) -> (Transcript, SrcStats) {
        let mut tx = Tx::new(opts);
        let st;
        // list-like indexes are reported entry by entry; binning indexes as one value with the
        // optional trailing unplaced-unmapped count split off
        let res: io::Result<Vec<Ev>> = match self.kind {
            IndexKind::Bai => {
                let (src, s) = open_read(data, d);
                st = s;
                bam::bai::io::Reader::new(src).read_index().map(|i| binning_index_events(&i))
            }
            IndexKind::Csi => {
                let (src, s) = open_read(data, d);
                st = s;
                csi::io::Reader::new(src).read_index().map(|i| binning_index_events(&i))
            }
            IndexKind::Tabix => {
                let (src, s) = open_read(data, d);
                st = s;
                tabix::io::Reader::new(src).read_index().map(|i| binning_index_events(&i))
            }
            IndexKind::Gzi => {
                let (src, s) = open_read(data, d);
                st = s;
                bgzf::gzi::io::Reader::new(src).read_index().map(|i| i.as_ref().iter().map(|e| Ev::Record(format!("{e:?}"))).collect())
            }
            IndexKind::Fai => {
                let (src, s) = open_bufread(data, d);
                st = s;
                fasta::fai::io::Reader::new(src).read_index().map(|i| i.as_ref().iter().map(|e| Ev::Record(format!("{e:?}"))).collect())
            }
            IndexKind::Crai => {
                let (src, s) = open_read(data, d);
                st = s;
                cram::crai::io::Reader::new(src).read_index().map(|i| i.iter().map(|e| Ev::Record(format!("{e:?}"))).collect())
            }
        };
        match res {
            Ok(evs) => {
                for e in evs {
                    if !tx.push(e) {
                        break;
                    }
                }
                tx.push(Ev::Eof);
            }
            Err(e) => {
                tx.push(err_ev("index", &e));
            }
        }
        (tx.t, st)
    }
    fn has_async(&self) -> (bool, bool) {
        match self.kind {
            IndexKind::Bai | IndexKind::Csi | IndexKind::Tabix => (true, true),
            IndexKind::Fai => (true, false),
            IndexKind::Crai => (true, true),
            IndexKind::Gzi => (true, false),
        }
    }
}

/// A binning index as events: the value without the optional trailing unplaced-unmapped count,
/// then that count as an event of its own (so that "equal up to the documented optional trailing
/// field" is a prefix relation).
pub fn binning_index_events<I>(index: &csi::binning_index::Index<I>) -> Vec<Ev>
where
    I: csi::binning_index::index::reference_sequence::Index + std::fmt::Debug,
{
    use csi::BinningIndex;
    let body = format!("min_shift={} depth={} header={:?} refs={:?}", index.min_shift(), index.depth(), index.header(), index.reference_sequences());
    let mut v = vec![Ev::Index(body)];
    if let Some(n) = index.unplaced_unmapped_record_count() {
        v.push(Ev::Record(format!("unplaced_unmapped_record_count={n}")));
    }
    v
}

pub fn all() -> Vec<Box<dyn Driver>> {
    vec![
        Box::new(BgzfDriver),
        Box::new(BgzfMtDriver),
        Box::new(BamDriver { eager: false, raw: false }),
        Box::new(BamDriver { eager: true, raw: false }),
        Box::new(BamDriver { eager: false, raw: true }),
        Box::new(BamDriver { eager: true, raw: true }),
        Box::new(SamDriver { bgzipped: false, lazy: false }),
        Box::new(SamDriver { bgzipped: false, lazy: true }),
        Box::new(SamDriver { bgzipped: true, lazy: false }),
        Box::new(CramDriver),
        Box::new(VcfDriver { bgzipped: false }),
        Box::new(VcfDriver { bgzipped: true }),
        Box::new(BcfDriver { raw: false }),
        Box::new(BcfDriver { raw: true }),
        Box::new(TextDriver { kind: TextKind::Fasta }),
        Box::new(TextDriver { kind: TextKind::FastaIndexer }),
        Box::new(TextDriver { kind: TextKind::Fastq }),
        Box::new(TextDriver { kind: TextKind::Gff }),
        Box::new(TextDriver { kind: TextKind::GffBufs }),
        Box::new(TextDriver { kind: TextKind::Gtf }),
        Box::new(TextDriver { kind: TextKind::Bed3 }),
        Box::new(TextDriver { kind: TextKind::Bed4 }),
        Box::new(TextDriver { kind: TextKind::Bed5 }),
        Box::new(TextDriver { kind: TextKind::Bed6 }),
        Box::new(IndexDriver { kind: IndexKind::Bai }),
        Box::new(IndexDriver { kind: IndexKind::Csi }),
        Box::new(IndexDriver { kind: IndexKind::Tabix }),
        Box::new(IndexDriver { kind: IndexKind::Gzi }),
        Box::new(IndexDriver { kind: IndexKind::Fai }),
        Box::new(IndexDriver { kind: IndexKind::Crai }),
    ]
}

#[allow(dead_code)]
fn _unused(_: &dyn Read) -> u64 {
    fnv(b"")
}
