//! Simple, always-valid documents for the I/O-behaviour properties (C12–C16, C20). They are
//! generated as plain data, rendered to SAM / VCF / FASTA … text by the harness, and converted to
//! noodles values by parsing that text from a plain slice. The record-model properties (C05–C10,
//! C18) use the richer generators in `gen::*`; here the data only has to be valid and varied enough
//! to give files with several blocks, lines and records.

use crate::r#gen::payload::XorShift;
use proptest::prelude::*;
use serde::{Deserialize, Serialize};

// ---------------------------------------------------------------------------------------------
// alignments

#[derive(Clone, Debug, Serialize, Deserialize, PartialEq)]
pub struct AlnRec {
    pub name: String,
    /// None = unmapped, unplaced
    pub ref_id: Option<u8>,
    /// 0-based offset inside the reference (clamped so that the alignment fits)
    pub off: u32,
    pub reverse: bool,
    pub mapq: u8,
    /// (kind index into "MIDNS=X", length 1..); ignored for unmapped reads
    pub cigar: Vec<(u8, u8)>,
    pub seq_seed: u32,
    /// read length for unmapped reads
    pub unmapped_len: u8,
    pub aux_i: Option<i32>,
    pub aux_z: Option<String>,
    pub aux_b: Option<Vec<u8>>,
    pub rg: bool,
}

#[derive(Clone, Debug, Serialize, Deserialize, PartialEq)]
pub struct AlnDoc {
    /// reference lengths (names are sq0, sq1, …); each ≥ 400
    pub refs: Vec<u16>,
    pub ref_seed: u32,
    pub read_group: bool,
    pub comments: Vec<String>,
    pub records: Vec<AlnRec>,
    /// flush the inner BGZF writer after every k-th record (0 = never): block layout
    pub flush_every: u8,
}

const CIGAR_KINDS: &[u8; 7] = b"MIDNS=X";

pub fn reference_bases(seed: u32, idx: usize, len: usize) -> Vec<u8> {
    let mut r = XorShift::new(seed as u64 * 31 + idx as u64 + 7);
    (0..len).map(|_| b"ACGT"[(r.next() % 4) as usize]).collect()
}

impl AlnRec {
    /// Normalised CIGAR: no adjacent equal kinds, starts and ends with an aligned op, soft clips
    /// only at the ends, at most one leading/trailing S.
    fn norm_cigar(&self) -> Vec<(u8, u32)> {
        let mut ops: Vec<(u8, u32)> = Vec::new();
        for (k, l) in &self.cigar {
            let kind = CIGAR_KINDS[(*k as usize) % CIGAR_KINDS.len()];
            let len = (*l as u32 % 40) + 1;
            ops.push((kind, len));
        }
        // interior S → M; D/N/I not at ends
        let n = ops.len();
        for (i, op) in ops.iter_mut().enumerate() {
            let edge = i == 0 || i + 1 == n;
            if op.0 == b'S' && !edge {
                op.0 = b'M';
            }
            if (op.0 == b'D' || op.0 == b'N' || op.0 == b'I') && edge {
                op.0 = b'M';
            }
        }
        if n >= 2 {
            // the op next to a clip must be aligned
            if ops[0].0 == b'S' && matches!(ops[1].0, b'D' | b'N' | b'I' | b'S') {
                ops[1].0 = b'M';
            }
            if ops[n - 1].0 == b'S' && matches!(ops[n - 2].0, b'D' | b'N' | b'I' | b'S') {
                ops[n - 2].0 = b'M';
            }
        }
        if ops.iter().all(|o| o.0 == b'S') {
            ops = vec![(b'M', 10)];
        }
        let mut merged: Vec<(u8, u32)> = Vec::new();
        for op in ops {
            if let Some(last) = merged.last_mut() {
                if last.0 == op.0 {
                    last.1 += op.1;
                    continue;
                }
            }
            merged.push(op);
        }
        if merged.is_empty() {
            merged.push((b'M', 10));
        }
        merged
    }

    pub fn ref_span(ops: &[(u8, u32)]) -> u32 {
        ops.iter().filter(|o| matches!(o.0, b'M' | b'D' | b'N' | b'=' | b'X')).map(|o| o.1).sum()
    }
    pub fn read_len(ops: &[(u8, u32)]) -> u32 {
        ops.iter().filter(|o| matches!(o.0, b'M' | b'I' | b'S' | b'=' | b'X')).map(|o| o.1).sum()
    }
}

fn clean_token(s: &str, fallback: &str) -> String {
    let t: String = s.chars().filter(|c| c.is_ascii_alphanumeric() || *c == '_' || *c == '.' || *c == ':').take(30).collect();
    if t.is_empty() { fallback.to_string() } else { t }
}

impl AlnDoc {
    pub fn n_refs(&self) -> usize {
        self.refs.len()
    }
    pub fn ref_len(&self, i: usize) -> usize {
        (self.refs[i] as usize).max(400)
    }
    pub fn references(&self) -> Vec<(String, Vec<u8>)> {
        (0..self.refs.len()).map(|i| (format!("sq{i}"), reference_bases(self.ref_seed, i, self.ref_len(i)))).collect()
    }

    /// (ref index or None, 1-based start, span) per record after normalisation, in document order.
    pub fn placements(&self) -> Vec<(Option<usize>, u32, u32)> {
        self.records
            .iter()
            .map(|r| match r.ref_id {
                Some(id) if !self.refs.is_empty() => {
                    let ri = (id as usize) % self.refs.len();
                    let ops = r.norm_cigar();
                    let span = AlnRec::ref_span(&ops).max(1);
                    let max_off = self.ref_len(ri) as u32 - span;
                    let off = r.off % (max_off + 1);
                    (Some(ri), off + 1, span)
                }
                _ => (None, 0, 0),
            })
            .collect()
    }

    /// Records in coordinate order (mapped by (ref, start), unmapped last) — stable.
    pub fn sorted(&self) -> AlnDoc {
        let pl = self.placements();
        let mut idx: Vec<usize> = (0..self.records.len()).collect();
        idx.sort_by_key(|i| match pl[*i] {
            (Some(r), s, _) => (0u8, r, s, *i),
            _ => (1u8, 0, 0, *i),
        });
        let mut d = self.clone();
        d.records = idx.into_iter().map(|i| self.records[i].clone()).collect();
        d
    }

    /// SAM text of the document (header with @HD SO, @SQ, @RG, @CO; one line per record).
    pub fn sam_text(&self, sort_order: &str) -> String {
        let mut s = String::new();
        s.push_str(&format!("@HD\tVN:1.6\tSO:{sort_order}\n"));
        for (i, _) in self.refs.iter().enumerate() {
            s.push_str(&format!("@SQ\tSN:sq{i}\tLN:{}\n", self.ref_len(i)));
        }
        if self.read_group {
            s.push_str("@RG\tID:rg0\tSM:sample0\n");
        }
        for c in &self.comments {
            let t: String = c.chars().filter(|c| (' '..='~').contains(c)).take(40).collect();
            s.push_str(&format!("@CO\t{t}\n"));
        }
        let refs = self.references();
        let pl = self.placements();
        for (k, r) in self.records.iter().enumerate() {
            let name = format!("r{k}_{}", clean_token(&r.name, "n"));
            let mut rng = XorShift::new(r.seq_seed as u64 + 11);
            let mut aux = String::new();
            if let Some(v) = r.aux_i {
                aux.push_str(&format!("\tNM:i:{v}"));
            }
            if let Some(z) = &r.aux_z {
                let t: String = z.chars().filter(|c| (' '..='~').contains(c)).take(30).collect();
                aux.push_str(&format!("\tXZ:Z:{t}"));
            }
            if let Some(b) = &r.aux_b {
                aux.push_str("\tXB:B:C");
                for x in b.iter().take(12) {
                    aux.push_str(&format!(",{x}"));
                }
            }
            if r.rg && self.read_group {
                aux.push_str("\tRG:Z:rg0");
            }
            match pl[k] {
                (Some(ri), start, _) => {
                    let ops = r.norm_cigar();
                    let flag = if r.reverse { 16 } else { 0 };
                    let cigar: String = ops.iter().map(|(k, l)| format!("{l}{}", *k as char)).collect();
                    // bases: follow the reference on M/=, differ on X, random on I/S
                    let rseq = &refs[ri].1;
                    let mut rp = (start - 1) as usize;
                    let mut seq = Vec::new();
                    for (kind, len) in &ops {
                        for _ in 0..*len {
                            match kind {
                                b'M' => {
                                    let b = rseq[rp];
                                    // occasional mismatch
                                    if rng.next() % 11 == 0 { seq.push(b"ACGT"[((b as usize) + 1) % 4]) } else { seq.push(b) }
                                    rp += 1;
                                }
                                b'=' => {
                                    seq.push(rseq[rp]);
                                    rp += 1;
                                }
                                b'X' => {
                                    let b = rseq[rp];
                                    let alt = *b"ACGT".iter().find(|x| **x != b).unwrap();
                                    seq.push(alt);
                                    rp += 1;
                                }
                                b'I' | b'S' => seq.push(b"ACGT"[(rng.next() % 4) as usize]),
                                b'D' | b'N' => rp += 1,
                                _ => {}
                            }
                        }
                    }
                    let qual: String = (0..seq.len()).map(|_| (b'0' + (rng.next() % 40) as u8) as char).collect();
                    s.push_str(&format!(
                        "{name}\t{flag}\tsq{ri}\t{start}\t{}\t{cigar}\t*\t0\t0\t{}\t{qual}{aux}\n",
                        r.mapq % 61,
                        String::from_utf8_lossy(&seq)
                    ));
                }
                _ => {
                    let len = (r.unmapped_len % 60) as usize + 1;
                    let seq: String = (0..len).map(|_| b"ACGTN"[(rng.next() % 5) as usize] as char).collect();
                    let qual: String = (0..len).map(|_| (b'0' + (rng.next() % 40) as u8) as char).collect();
                    s.push_str(&format!("{name}\t4\t*\t0\t0\t*\t*\t0\t0\t{seq}\t{qual}{aux}\n"));
                }
            }
        }
        s
    }
}

pub fn aln_rec() -> BoxedStrategy<AlnRec> {
    (
        ("[A-Za-z0-9_.:]{0,12}", prop_oneof![4 => (0u8..4).prop_map(Some), 1 => Just(None)], any::<u32>(), any::<bool>(), any::<u8>()),
        (proptest::collection::vec((0u8..7, any::<u8>()), 1..6), any::<u32>(), any::<u8>()),
        (proptest::option::of(-1000i32..100000), proptest::option::of("[ -~]{0,16}"), proptest::option::of(proptest::collection::vec(any::<u8>(), 0..8)), any::<bool>()),
    )
        .prop_map(|((name, ref_id, off, reverse, mapq), (cigar, seq_seed, unmapped_len), (aux_i, aux_z, aux_b, rg))| AlnRec {
            name,
            ref_id,
            off,
            reverse,
            mapq,
            cigar,
            seq_seed,
            unmapped_len,
            aux_i,
            aux_z,
            aux_b,
            rg,
        })
        .boxed()
}

pub fn aln_doc(max_records: usize) -> BoxedStrategy<AlnDoc> {
    (
        proptest::collection::vec(400u16..3000, 1..4),
        any::<u32>(),
        any::<bool>(),
        proptest::collection::vec("[ -~]{0,20}", 0..3),
        proptest::collection::vec(aln_rec(), 0..=max_records),
        prop_oneof![Just(0u8), Just(1u8), 2u8..6],
    )
        .prop_map(|(refs, ref_seed, read_group, comments, records, flush_every)| AlnDoc { refs, ref_seed, read_group, comments, records, flush_every })
        .boxed()
}

// ---------------------------------------------------------------------------------------------
// variants

#[derive(Clone, Debug, Serialize, Deserialize, PartialEq)]
pub struct VarRec {
    pub contig: u8,
    pub pos: u32,
    pub id: Option<String>,
    pub ref_len: u8,
    pub n_alts: u8,
    pub qual: Option<u16>,
    /// 0 missing, 1 PASS, 2 q10, 3 q10;s50
    pub filter: u8,
    pub dp: Option<i32>,
    pub db: bool,
    pub end: bool,
    pub seed: u32,
}

#[derive(Clone, Debug, Serialize, Deserialize, PartialEq)]
pub struct VarDoc {
    pub contigs: Vec<u32>,
    pub samples: u8,
    pub records: Vec<VarRec>,
    pub flush_every: u8,
    /// 2..=4 → fileformat VCFv4.x
    pub minor: u8,
}

impl VarDoc {
    pub fn contig_len(&self, i: usize) -> u32 {
        self.contigs[i].max(1000)
    }
    pub fn sorted(&self) -> VarDoc {
        let mut d = self.clone();
        let n = self.contigs.len().max(1);
        let mut idx: Vec<usize> = (0..self.records.len()).collect();
        idx.sort_by_key(|i| ((self.records[*i].contig as usize) % n, self.pos_of(&self.records[*i]), *i));
        d.records = idx.into_iter().map(|i| self.records[i].clone()).collect();
        d
    }
    pub fn pos_of(&self, r: &VarRec) -> u32 {
        let ci = (r.contig as usize) % self.contigs.len().max(1);
        1 + r.pos % (self.contig_len(ci) - 300)
    }
    pub fn vcf_text(&self) -> String {
        let minor = 2 + (self.minor % 3);
        let mut s = format!("##fileformat=VCFv4.{minor}\n");
        s.push_str("##INFO=<ID=DP,Number=1,Type=Integer,Description=\"Total depth\">\n");
        s.push_str("##INFO=<ID=AF,Number=A,Type=Float,Description=\"Allele frequency\">\n");
        s.push_str("##INFO=<ID=DB,Number=0,Type=Flag,Description=\"dbSNP membership\">\n");
        s.push_str("##INFO=<ID=END,Number=1,Type=Integer,Description=\"End position\">\n");
        s.push_str("##INFO=<ID=NOTE,Number=1,Type=String,Description=\"Free text\">\n");
        s.push_str("##FILTER=<ID=PASS,Description=\"All filters passed\">\n");
        s.push_str("##FILTER=<ID=q10,Description=\"Quality below 10\">\n");
        s.push_str("##FILTER=<ID=s50,Description=\"Less than half of samples have data\">\n");
        s.push_str("##FORMAT=<ID=GT,Number=1,Type=String,Description=\"Genotype\">\n");
        s.push_str("##FORMAT=<ID=DP,Number=1,Type=Integer,Description=\"Read depth\">\n");
        for (i, _) in self.contigs.iter().enumerate() {
            s.push_str(&format!("##contig=<ID=sq{i},length={}>\n", self.contig_len(i)));
        }
        s.push_str("#CHROM\tPOS\tID\tREF\tALT\tQUAL\tFILTER\tINFO");
        let ns = (self.samples % 4) as usize;
        if ns > 0 {
            s.push_str("\tFORMAT");
            for i in 0..ns {
                s.push_str(&format!("\tsample{i}"));
            }
        }
        s.push('\n');
        for (k, r) in self.records.iter().enumerate() {
            let mut rng = XorShift::new(r.seed as u64 + 3);
            let ci = (r.contig as usize) % self.contigs.len().max(1);
            let pos = self.pos_of(r);
            let ref_len = (r.ref_len % 12) as usize + 1;
            let refb: String = (0..ref_len).map(|_| b"ACGT"[(rng.next() % 4) as usize] as char).collect();
            let n_alts = (r.n_alts % 3) as usize;
            let alts: Vec<String> = (0..n_alts)
                .map(|_| {
                    let l = 1 + (rng.next() % 3) as usize;
                    (0..l).map(|_| b"ACGT"[(rng.next() % 4) as usize] as char).collect()
                })
                .collect();
            let id = match &r.id {
                Some(t) => format!("v{k}_{}", clean_token(t, "x").replace(':', "_")),
                None => format!("v{k}"),
            };
            let qual = r.qual.map(|q| format!("{}", q % 1000)).unwrap_or_else(|| ".".into());
            let filter = match r.filter % 4 {
                0 => ".",
                1 => "PASS",
                2 => "q10",
                _ => "q10;s50",
            };
            let mut info: Vec<String> = Vec::new();
            if let Some(dp) = r.dp {
                info.push(format!("DP={}", dp.rem_euclid(100000)));
            }
            if n_alts > 0 {
                let afs: Vec<String> = (0..n_alts).map(|_| ["0.5", "0.25", "0.125", "1"][(rng.next() % 4) as usize].to_string()).collect();
                info.push(format!("AF={}", afs.join(",")));
            }
            if r.db {
                info.push("DB".into());
            }
            if r.end {
                info.push(format!("END={}", pos as usize + ref_len - 1 + (rng.next() % 200) as usize));
            }
            // free text, UTF-8 (multi-byte characters are what a chunked source can split)
            if r.seed % 5 == 0 {
                info.push(format!("NOTE={}", ["é", "日本", "x𝄞y", "ßß", "naïve_call"][(r.seed as usize / 5) % 5]));
            }
            let info = if info.is_empty() { ".".to_string() } else { info.join(";") };
            s.push_str(&format!(
                "sq{ci}\t{pos}\t{id}\t{refb}\t{}\t{qual}\t{filter}\t{info}",
                if alts.is_empty() { ".".to_string() } else { alts.join(",") }
            ));
            if ns > 0 {
                s.push_str("\tGT:DP");
                for _ in 0..ns {
                    let a = rng.next() % (n_alts as u64 + 1);
                    let b = rng.next() % (n_alts as u64 + 1);
                    let sep = if rng.next() % 2 == 0 { '/' } else { '|' };
                    s.push_str(&format!("\t{a}{sep}{b}:{}", rng.next() % 200));
                }
            }
            s.push('\n');
        }
        s
    }
}

pub fn var_doc(max_records: usize) -> BoxedStrategy<VarDoc> {
    let rec = (
        (any::<u8>(), any::<u32>(), proptest::option::of("[A-Za-z0-9_]{0,8}"), any::<u8>(), any::<u8>()),
        (proptest::option::of(any::<u16>()), any::<u8>(), proptest::option::of(any::<i32>()), any::<bool>(), any::<bool>(), any::<u32>()),
    )
        .prop_map(|((contig, pos, id, ref_len, n_alts), (qual, filter, dp, db, end, seed))| VarRec { contig, pos, id, ref_len, n_alts, qual, filter, dp, db, end, seed });
    (proptest::collection::vec(1000u32..200_000, 1..4), any::<u8>(), proptest::collection::vec(rec, 0..=max_records), prop_oneof![Just(0u8), Just(1u8), 2u8..6], any::<u8>())
        .prop_map(|(contigs, samples, records, flush_every, minor)| VarDoc { contigs, samples, records, flush_every, minor })
        .boxed()
}

// ---------------------------------------------------------------------------------------------
// line-oriented text documents

#[derive(Clone, Debug, Serialize, Deserialize, PartialEq)]
pub struct TextDoc {
    pub lines: Vec<String>,
    pub crlf: bool,
    pub final_newline: bool,
}

impl TextDoc {
    pub fn render(&self) -> Vec<u8> {
        let nl = if self.crlf { "\r\n" } else { "\n" };
        let mut s = String::new();
        for (i, l) in self.lines.iter().enumerate() {
            s.push_str(l);
            if i + 1 < self.lines.len() || self.final_newline {
                s.push_str(nl);
            }
        }
        s.into_bytes()
    }
}

fn bases(len: std::ops::Range<usize>) -> BoxedStrategy<String> {
    proptest::collection::vec(proptest::sample::select(vec!['A', 'C', 'G', 'T', 'N', 'a', 'c', 'g', 't']), len).prop_map(|v| v.into_iter().collect()).boxed()
}

/// FASTA: records with a fixed line width per record.
pub fn fasta_doc() -> BoxedStrategy<TextDoc> {
    let rec = ("[A-Za-z0-9_.]{1,10}", proptest::option::of("[A-Za-z0-9 _=]{1,16}"), bases(1..160), 1usize..70);
    (proptest::collection::vec(rec, 1..5), any::<bool>())
        .prop_map(|(recs, crlf)| {
            let mut lines = Vec::new();
            for (i, (name, desc, seq, width)) in recs.into_iter().enumerate() {
                let mut d = format!(">{name}{i}");
                if let Some(x) = desc {
                    d.push(' ');
                    d.push_str(x.trim_start());
                }
                lines.push(d);
                let b = seq.as_bytes();
                for chunk in b.chunks(width) {
                    lines.push(String::from_utf8_lossy(chunk).into_owned());
                }
            }
            TextDoc { lines, crlf, final_newline: true }
        })
        .boxed()
}

pub fn fastq_doc() -> BoxedStrategy<TextDoc> {
    let rec = ("[A-Za-z0-9_.:]{1,12}", proptest::option::of("[A-Za-z0-9 _=:]{1,12}"), 1usize..80, any::<u32>());
    (proptest::collection::vec(rec, 0..6), any::<bool>())
        .prop_map(|(recs, crlf)| {
            let mut lines = Vec::new();
            for (name, desc, len, seed) in recs {
                let mut rng = XorShift::new(seed as u64);
                let mut d = format!("@{name}");
                if let Some(x) = desc {
                    d.push(' ');
                    d.push_str(x.trim_start());
                }
                lines.push(d);
                lines.push((0..len).map(|_| b"ACGTN"[(rng.next() % 5) as usize] as char).collect());
                lines.push("+".to_string());
                // qualities over the full printable range, including '@' and '+'
                lines.push((0..len).map(|_| (33 + (rng.next() % 94) as u8) as char).collect());
            }
            TextDoc { lines, crlf, final_newline: true }
        })
        .boxed()
}

pub fn gff_doc() -> BoxedStrategy<TextDoc> {
    let attr = ("[A-Za-z][A-Za-z0-9_]{0,6}", proptest::collection::vec("[A-Za-z0-9_. ]{1,8}", 1..3));
    let rec = (
        ("[A-Za-z0-9_.]{1,8}", "[A-Za-z0-9_.]{1,6}", proptest::sample::select(vec!["gene", "mRNA", "exon", "CDS", "region"]), 1u32..100_000, 0u32..5_000),
        (proptest::option::of(0u16..1000), proptest::sample::select(vec![".", "+", "-", "?"]), 0u8..3, proptest::collection::vec(attr, 0..4)),
    );
    (proptest::collection::vec(rec, 0..8), any::<bool>(), any::<bool>())
        .prop_map(|(recs, crlf, comment)| {
            let mut lines = vec!["##gff-version 3".to_string()];
            if comment {
                lines.push("# a comment line".to_string());
            }
            for ((seqid, source, ty, start, len), (score, strand, phase, attrs)) in recs {
                let score = score.map(|s| format!("{}", s)).unwrap_or_else(|| ".".into());
                let phase = if ty == "CDS" { format!("{phase}") } else { ".".to_string() };
                let mut seen = std::collections::BTreeSet::new();
                let attrs: Vec<String> = attrs
                    .into_iter()
                    .filter(|(k, _)| seen.insert(k.clone()))
                    .map(|(k, vs)| format!("{k}={}", vs.iter().map(|v| v.trim().replace(' ', "%20")).map(|v| if v.is_empty() { "x".to_string() } else { v }).collect::<Vec<_>>().join(",")))
                    .collect();
                let attrs = if attrs.is_empty() { ".".to_string() } else { attrs.join(";") };
                lines.push(format!("{seqid}\t{source}\t{ty}\t{start}\t{}\t{score}\t{strand}\t{phase}\t{attrs}", start + len));
            }
            TextDoc { lines, crlf, final_newline: true }
        })
        .boxed()
}

pub fn gtf_doc() -> BoxedStrategy<TextDoc> {
    let rec = (
        ("[A-Za-z0-9_.]{1,8}", "[A-Za-z0-9_.]{1,6}", proptest::sample::select(vec!["gene", "transcript", "exon", "CDS"]), 1u32..100_000, 0u32..5_000),
        (proptest::option::of(0u16..1000), proptest::sample::select(vec![".", "+", "-"]), 0u8..3, "[A-Za-z0-9_.]{1,8}", "[A-Za-z0-9_. ]{1,8}", proptest::option::of("[A-Za-z0-9_ ]{1,8}")),
    );
    (proptest::collection::vec(rec, 0..8), any::<bool>())
        .prop_map(|(recs, crlf)| {
            let mut lines = Vec::new();
            for ((seqid, source, ty, start, len), (score, strand, frame, gid, tid, extra)) in recs {
                let score = score.map(|s| format!("{}", s)).unwrap_or_else(|| ".".into());
                let frame = if ty == "CDS" { format!("{frame}") } else { ".".to_string() };
                let mut attrs = format!("gene_id \"{gid}\"; transcript_id \"{tid}\";");
                if let Some(x) = extra {
                    attrs.push_str(&format!(" note \"{x}\";"));
                }
                lines.push(format!("{seqid}\t{source}\t{ty}\t{start}\t{}\t{score}\t{strand}\t{frame}\t{attrs}", start + len));
            }
            TextDoc { lines, crlf, final_newline: true }
        })
        .boxed()
}

/// BED with exactly `n` standard columns (3..=6) plus optional extra columns.
pub fn bed_doc(n: usize) -> BoxedStrategy<TextDoc> {
    let rec = ("[A-Za-z0-9_]{1,8}", 0u32..1_000_000, 1u32..10_000, "[A-Za-z0-9_.]{1,8}", 0u16..=1000, proptest::sample::select(vec!["+", "-", "."]), proptest::collection::vec("[A-Za-z0-9_.,]{1,6}", 0..3));
    (proptest::collection::vec(rec, 0..8), any::<bool>(), any::<u32>())
        .prop_map(move |(recs, crlf, cseed)| {
            let mut lines = Vec::new();
            let mut rng = XorShift::new(cseed as u64 + 17);
            for (chrom, start, len, name, score, strand, extra) in recs {
                // comment lines (`#…`, which readers skip) in front of some records
                if rng.next() % 4 == 0 {
                    for _ in 0..1 + rng.next() % 2 {
                        let n = (rng.next() % 40) as usize;
                        lines.push(format!("#{}", "comment text, skipped by readers ".chars().cycle().take(n).collect::<String>()));
                    }
                }
                let mut cols = vec![chrom, format!("{start}"), format!("{}", start + len)];
                if n >= 4 {
                    cols.push(name);
                }
                if n >= 5 {
                    cols.push(format!("{score}"));
                }
                if n >= 6 {
                    cols.push(strand.to_string());
                }
                cols.extend(extra);
                lines.push(cols.join("\t"));
            }
            TextDoc { lines, crlf, final_newline: true }
        })
        .boxed()
}

// ---------------------------------------------------------------------------------------------
// indexes

#[derive(Clone, Debug, Serialize, Deserialize, PartialEq)]
pub struct BinIndexDoc {
    /// number of reference sequences (1..=4)
    pub n_refs: u8,
    /// (ref, start offset, span, mapped) — sorted by the generator's consumer
    pub recs: Vec<(u8, u32, u32, bool)>,
    pub unplaced: u8,
    /// CSI geometry selector (only used for CSI): 0 = (14,5), 1 = (12,5), 2 = (10,4), 3 = (14,6)
    pub geometry: u8,
    /// tabix only: sequence names; (always n_refs entries after normalisation)
    pub name_seed: u32,
    /// coordinate scale: 0 = positions below 2^17 (small linear index), 1 = below 2^23, 2 = full range
    pub scale: u8,
}

impl BinIndexDoc {
    pub fn max_pos(&self, geometry_max: u64) -> u64 {
        match self.scale % 3 {
            0 => geometry_max.min(1 << 17),
            1 => geometry_max.min(1 << 23),
            _ => geometry_max,
        }
    }
}

pub fn bin_index_doc() -> BoxedStrategy<BinIndexDoc> {
    let start = prop_oneof![0u32..100_000, 0u32..200_000_000, proptest::sample::select(vec![0u32, 16383, 16384, 131071, 131072, 1048575, 1048576, 8388607, 8388608, 67108863, 67108864])];
    let span = prop_oneof![1u32..300, 1u32..40_000, 1u32..3_000_000];
    (1u8..=4, proptest::collection::vec((0u8..4, start, span, any::<bool>()), 0..40), 0u8..5, 0u8..4, any::<u32>(), prop_oneof![3 => Just(0u8), 1 => Just(1u8), 1 => Just(2u8)])
        .prop_map(|(n_refs, recs, unplaced, geometry, name_seed, scale)| BinIndexDoc { n_refs, recs, unplaced, geometry, name_seed, scale })
        .boxed()
}

#[derive(Clone, Debug, Serialize, Deserialize, PartialEq)]
pub struct PairsDoc {
    /// gzi: (compressed delta, uncompressed delta) per block
    pub pairs: Vec<(u32, u32)>,
}

pub fn pairs_doc() -> BoxedStrategy<PairsDoc> {
    proptest::collection::vec((28u32..65536, 0u32..=65536), 0..30).prop_map(|pairs| PairsDoc { pairs }).boxed()
}

#[derive(Clone, Debug, Serialize, Deserialize, PartialEq)]
pub struct FaiDoc {
    /// (name, length, line_bases, terminator length 1|2)
    pub recs: Vec<(String, u32, u16, bool)>,
}

pub fn fai_doc() -> BoxedStrategy<FaiDoc> {
    proptest::collection::vec(("[A-Za-z0-9_.]{1,10}", 1u32..1_000_000, 1u16..200, any::<bool>()), 0..8).prop_map(|recs| FaiDoc { recs }).boxed()
}

#[derive(Clone, Debug, Serialize, Deserialize, PartialEq)]
pub struct CraiDoc {
    /// (ref id: 0 → unmapped(None) else Some(id-1), start, span, offset delta, landmark, slice len)
    pub recs: Vec<(u8, u32, u32, u32, u16, u32)>,
}

pub fn crai_doc() -> BoxedStrategy<CraiDoc> {
    proptest::collection::vec((0u8..4, 1u32..1_000_000, 0u32..100_000, 1u32..100_000, any::<u16>(), 1u32..1_000_000), 0..20).prop_map(|recs| CraiDoc { recs }).boxed()
}
