//! C03 — multithreaded BGZF I/O equals single-threaded I/O under every schedule.
//!
//! The completion order of the block tasks is owned by the case: the H1 hook of noodles-bgzf parks
//! every deflate / inflate task at its first statement and `io_adv::gate` releases them in the order
//! the generated schedule dictates. The pool size is process-wide in rayon, so every pool size is
//! its own sub-check whose shard processes are started with `RAYON_NUM_THREADS=n`.
//!
//! Writer oracle: the bytes in the sink after `finish()` are identical to what `bgzf::io::Writer`
//! emits for the same write/flush calls and level; a sink that fails at its k-th `write` makes some
//! later write/flush/finish return `Err` (what the sink accepted before is a prefix of the
//! single-threaded output); everything terminates.
//! Reader oracle: every call returns what the single-threaded `Reader` returns for the same call
//! history (bytes, counts, virtual positions, also after seeks); on a damaged file the calls before
//! the first error agree and the error surfaces from that call or at the latest from `finish()`.

use super::c01::first_diff;
use super::c02::{Len, Op, Target, UTarget, len_strategy, utarget_strategy};
use crate::engine::shard::Recorder;
use crate::engine::*;
use crate::ensure;
use crate::r#gen::layout::{Layout, Model, layout};
use crate::r#gen::payload::{Payload, len_strategy as payload_len};
use crate::io_adv::gate::{Decision, Gate, Pick, Plan, RunPlan, RunReport, ident};
use noodles_bgzf::{self as bgzf, VirtualPosition, gzi};
use proptest::prelude::*;
use serde::{Deserialize, Serialize};
use std::io::{self, BufRead, Cursor, Read, SeekFrom, Write};
use std::sync::atomic::{AtomicUsize, Ordering};
use std::sync::{Arc, Mutex};
use std::time::Duration;

/// No-progress fallback of the gate controller: affects exploration only, never the verdict.
const FALLBACK: Duration = Duration::from_millis(120);
/// The enumeration of schedule windows needs the parked sets to be reproducible: be patient.
const FALLBACK_ENUM: Duration = Duration::from_millis(1500);
const MAX_BUF_SIZE: usize = 65495;

/// Per-case time budget in seconds (`SubOpts::case_budget_s`); the engine re-runs an attributed
/// case alone with ten times this budget.
const CASE_BUDGET_S: u64 = 6;

// ------------------------------------------------------------------------------------------------
// Watchdog. A case that does not return (a genuine `finish()`-never-returns hang of noodles) would
// otherwise hold its shard until the shard's wall-clock limit. In a shard process the watchdog ends
// the process once a case has exceeded its budget; the engine then attributes the death to the
// current case (`isolate`) and re-runs that case alone, in a fresh process without this watchdog,
// with the 10x budget — only a hang reproduced there becomes a violation. The watchdog itself never
// produces a verdict.
// ------------------------------------------------------------------------------------------------

static DEADLINE: Mutex<Option<std::time::Instant>> = Mutex::new(None);
static WATCHDOG: std::sync::Once = std::sync::Once::new();

struct CaseTimer;

impl CaseTimer {
    fn start() -> CaseTimer {
        let in_shard = std::env::args().nth(1).as_deref() == Some("shard");
        if in_shard {
            WATCHDOG.call_once(|| {
                let _ = std::thread::Builder::new().name("c03-watchdog".into()).spawn(|| {
                    loop {
                        std::thread::sleep(Duration::from_millis(200));
                        let expired = match DEADLINE.lock() {
                            Ok(g) => g.map(|d| std::time::Instant::now() >= d).unwrap_or(false),
                            Err(_) => false,
                        };
                        if expired {
                            // SAFETY: plain process termination
                            unsafe { libc::_exit(97) };
                        }
                    }
                });
            });
            if let Ok(mut g) = DEADLINE.lock() {
                *g = Some(std::time::Instant::now() + Duration::from_secs(CASE_BUDGET_S));
            }
        }
        CaseTimer
    }
}

impl Drop for CaseTimer {
    fn drop(&mut self) {
        if let Ok(mut g) = DEADLINE.lock() {
            *g = None;
        }
    }
}

fn f1(sig: impl Into<String>, msg: String) -> Vec<Fail> {
    vec![Fail::new(sig, msg)]
}

fn picks(s: &[(u8, bool)]) -> Vec<Pick> {
    s.iter().map(|(idx, overlap)| Pick { idx: *idx, overlap: *overlap }).collect()
}

fn schedule_strategy(max: usize) -> BoxedStrategy<Vec<(u8, bool)>> {
    let idx = prop_oneof![
        35 => Just(0u8),
        25 => Just(1u8),
        15 => Just(2u8),
        8 => Just(3u8),
        12 => 4u8..=17,
        5 => Just(255u8),
    ];
    proptest::collection::vec((idx, prop_oneof![9 => Just(false), 1 => Just(true)]), 0..=max).boxed()
}

// ================================================================================================
// fault-scripted sink
// ================================================================================================

#[derive(Clone, Copy, Debug, Serialize, Deserialize, PartialEq)]
pub enum FaultKind {
    /// `Err(ErrorKind::Other)`, sticky
    Other,
    /// `Err(ErrorKind::BrokenPipe)`, sticky
    BrokenPipe,
    /// `Ok(0)` for a non-empty buffer, sticky (`write_all` turns it into `WriteZero`)
    Zero,
    /// one `Err(ErrorKind::Interrupted)`; `write_all` must retry, so this is *not* a failure
    InterruptedOnce,
}

#[derive(Clone, Debug, Serialize, Deserialize)]
pub struct Fault {
    /// which `write` call of the sink fails (selector over the calls of the reference run)
    pub at: u16,
    pub kind: FaultKind,
    /// every later call fails as well (false: only that one call fails)
    pub sticky: bool,
}

#[derive(Default)]
struct SinkState {
    bytes: Vec<u8>,
    /// length of every accepted call
    lens: Vec<u32>,
    calls: u64,
    fail_at: Option<(u64, FaultKind, bool)>,
    tripped: bool,
}

#[derive(Clone, Default)]
struct ScriptSink(Arc<Mutex<SinkState>>);

impl ScriptSink {
    fn new(fail_at: Option<(u64, FaultKind, bool)>) -> Self {
        ScriptSink(Arc::new(Mutex::new(SinkState { fail_at, ..Default::default() })))
    }
    fn lock(&self) -> std::sync::MutexGuard<'_, SinkState> {
        match self.0.lock() {
            Ok(g) => g,
            Err(p) => p.into_inner(),
        }
    }
}

impl Write for ScriptSink {
    fn write(&mut self, buf: &[u8]) -> io::Result<usize> {
        let mut g = self.lock();
        let k = g.calls;
        g.calls += 1;
        if let Some((at, kind, sticky)) = g.fail_at {
            let sticky = sticky && kind != FaultKind::InterruptedOnce;
            if k == at || (g.tripped && sticky) {
                g.tripped = true;
                return match kind {
                    FaultKind::Other => Err(io::Error::other("scripted sink failure")),
                    FaultKind::BrokenPipe => Err(io::Error::new(io::ErrorKind::BrokenPipe, "scripted sink failure")),
                    FaultKind::Zero => Ok(0),
                    FaultKind::InterruptedOnce => Err(io::Error::new(io::ErrorKind::Interrupted, "scripted interruption")),
                };
            }
        }
        g.bytes.extend_from_slice(buf);
        g.lens.push(buf.len() as u32);
        Ok(buf.len())
    }
    fn flush(&mut self) -> io::Result<()> {
        Ok(())
    }
}

// ================================================================================================
// writer
// ================================================================================================

#[derive(Clone, Debug, Serialize, Deserialize)]
pub enum WOp {
    /// one raw `write()` offered `n` bytes; the returned count is honoured
    Write(u32),
    WriteAll(u32),
    Flush,
}

#[derive(Clone, Debug, Serialize, Deserialize)]
pub struct WCase {
    pub payload: Payload,
    pub level: Option<u8>,
    pub ops: Vec<WOp>,
    /// completion-order schedule: (index into the parked set, overlap with the next release)
    pub schedule: Vec<(u8, bool)>,
    /// false: no gate at all (free-running pool)
    pub gated: bool,
    pub fault: Option<Fault>,
}

fn wcase_strategy(tier: Tier) -> BoxedStrategy<WCase> {
    // regime A: small payload cut into many small blocks by flushes; regime B: block-size payloads
    let small_ops = proptest::collection::vec(
        prop_oneof![3 => (0u32..=120).prop_map(WOp::Write), 3 => (0u32..=300).prop_map(WOp::WriteAll), 4 => Just(WOp::Flush)],
        0..=tier.pick(36usize, 60),
    );
    let small = ((0u8..6, 0u32..=3000, any::<u32>()).prop_map(|(class, len, seed)| Payload { class, len, seed }), small_ops);
    let big_len = prop_oneof![
        3 => 0u32..200,
        3 => 60_000u32..70_000,
        1 => proptest::sample::select(vec![65494u32, 65495, 65496, 65536, 130990]),
        1 => 0u32..250_000,
    ];
    let big_ops = proptest::collection::vec(prop_oneof![3 => big_len.clone().prop_map(WOp::Write), 3 => big_len.prop_map(WOp::WriteAll), 2 => Just(WOp::Flush)], 0..=10);
    let big = ((0u8..6, payload_len(tier.pick(330_000, 660_000)), any::<u32>()).prop_map(|(class, len, seed)| Payload { class, len, seed }), big_ops);
    let body = prop_oneof![3 => small, 2 => big];
    let fault = prop_oneof![
        5 => Just(None),
        3 => (any::<u16>(), prop_oneof![Just(FaultKind::Other), Just(FaultKind::BrokenPipe), Just(FaultKind::Zero)], any::<bool>()).prop_map(|(at, kind, sticky)| Some(Fault { at, kind, sticky })),
        1 => any::<u16>().prop_map(|at| Some(Fault { at, kind: FaultKind::InterruptedOnce, sticky: false })),
    ];
    (body, prop_oneof![1 => Just(None), 5 => (0u8..=9).prop_map(Some)], schedule_strategy(40), prop_oneof![9 => Just(true), 1 => Just(false)], fault)
        .prop_map(|((payload, ops), level, schedule, gated, fault)| WCase { payload, level, ops, schedule, gated, fault })
        .boxed()
}

/// One primitive call of the history, as the single-threaded reference run resolved it.
#[derive(Clone, Debug)]
enum WPrim {
    Write { start: usize, offered: usize, ret: usize },
    Flush,
}

struct WOutcome {
    verdict: Verdict,
    reports: Vec<RunReport>,
}

fn level_of(l: Option<u8>) -> Result<Option<bgzf::io::writer::CompressionLevel>, Vec<Fail>> {
    match l {
        None => Ok(None),
        Some(l) => bgzf::io::writer::CompressionLevel::new(l).map(Some).ok_or_else(|| f1("c03.level-rejected", format!("level {l} rejected"))),
    }
}

fn run_writer(c: &WCase, fallback: Duration) -> WOutcome {
    let _timer = CaseTimer::start();
    let mut reports = Vec::new();
    let verdict = run_writer_inner(c, fallback, &mut reports);
    WOutcome { verdict, reports }
}

fn run_writer_inner(c: &WCase, fallback: Duration, reports: &mut Vec<RunReport>) -> Verdict {
    let data = c.payload.expand();
    let level = level_of(c.level)?;

    // ---- reference: the single-threaded writer on the same calls --------------------------------
    let ref_sink = ScriptSink::new(None);
    let mut prims: Vec<WPrim> = Vec::new();
    {
        let mut b = bgzf::io::writer::Builder::default();
        if let Some(l) = level {
            b = b.set_compression_level(l);
        }
        let mut w = b.build_from_writer(ref_sink.clone());
        let rerr = |e: io::Error| f1("c03.writer.reference-error", format!("single-threaded Writer returned {e}"));
        let mut off = 0usize;
        let one = |w: &mut bgzf::io::Writer<ScriptSink>, off: &mut usize, end: usize, prims: &mut Vec<WPrim>| -> Result<(), Vec<Fail>> {
            let offered = end - *off;
            let ret = w.write(&data[*off..end]).map_err(rerr)?;
            if ret > offered || (offered > 0 && ret == 0) {
                return Err(f1("c03.writer.reference-count", format!("single-threaded write({offered}) returned {ret}")));
            }
            prims.push(WPrim::Write { start: *off, offered, ret });
            *off += ret;
            Ok(())
        };
        for op in &c.ops {
            match op {
                WOp::Write(n) => {
                    let end = (off + *n as usize).min(data.len());
                    one(&mut w, &mut off, end, &mut prims)?;
                }
                WOp::WriteAll(n) => {
                    let end = (off + *n as usize).min(data.len());
                    while off < end {
                        one(&mut w, &mut off, end, &mut prims)?;
                    }
                }
                WOp::Flush => {
                    w.flush().map_err(rerr)?;
                    prims.push(WPrim::Flush);
                }
            }
        }
        while off < data.len() {
            one(&mut w, &mut off, data.len(), &mut prims)?;
        }
        let _ = w.finish().map_err(rerr)?;
    }
    let (ref_bytes, ref_lens) = {
        let g = ref_sink.lock();
        (g.bytes.clone(), g.lens.clone())
    };
    let ref_model = Model::from_file(&ref_bytes).map_err(|e| f1("c03.writer.reference-malformed", e))?;
    // the blocks the writers cut the payload into, in submission order (the last member is the EOF marker)
    let nblocks = ref_model.table.len().saturating_sub(1);
    let idents: Vec<u64> = ref_model.table[..nblocks].iter().map(|b| ident(&ref_model.flat[b.ustart as usize..(b.ustart + b.len) as usize])).collect();
    let total_calls = ref_lens.len();
    let fault = c.fault.as_ref().map(|f| (pick_idx(f.at, total_calls) as u64, f.kind, f.sticky));
    let real_fault = fault.filter(|(_, k, _)| *k != FaultKind::InterruptedOnce).map(|(k, kind, _)| (k, kind));

    // ---- the multithreaded writer under the schedule --------------------------------------------
    let pool = rayon::current_num_threads();
    let gate = if c.gated { Some(Gate::install(pool, picks(&c.schedule), fallback)) } else { None };
    if let Some(g) = &gate {
        g.begin_run(RunPlan { idents, plan: Plan::Writer { pool }, need: nblocks, sched_offset: Some(0) });
    }
    let sink = ScriptSink::new(fault);
    let mut b = bgzf::io::multithreaded_writer::Builder::default();
    if let Some(l) = level {
        b = b.set_compression_level(l);
    }
    let mut w = b.build_from_writer(sink.clone());
    let mut first_err: Option<(String, io::Error)> = None;
    let mut count_mismatch: Option<String> = None;
    // model of the staging buffer: how many blocks have been handed to the pool so far
    let (mut staged, mut sends) = (0usize, 0usize);
    for (i, p) in prims.iter().enumerate() {
        match p {
            WPrim::Write { start, offered, ret } => match w.write(&data[*start..*start + *offered]) {
                Ok(k) => {
                    if k != *ret {
                        count_mismatch = Some(format!("call {i}: MultithreadedWriter::write({offered}) returned {k}, Writer::write returned {ret}"));
                        break;
                    }
                    staged += k;
                    if staged >= MAX_BUF_SIZE {
                        sends += 1;
                        staged = 0;
                    }
                }
                Err(e) => {
                    first_err = Some((format!("write (call {i})"), e));
                    break;
                }
            },
            WPrim::Flush => match w.flush() {
                Ok(()) => {
                    if staged > 0 {
                        sends += 1;
                        staged = 0;
                    }
                }
                Err(e) => {
                    first_err = Some((format!("flush (call {i})"), e));
                    break;
                }
            },
        }
    }
    let mut finished = false;
    let mut handed_back = true;
    if first_err.is_none() && count_mismatch.is_none() {
        match w.finish() {
            Ok(back) => {
                finished = true;
                sends = nblocks;
                handed_back = Arc::ptr_eq(&back.0, &sink.0);
            }
            Err(e) => {
                first_err = Some(("finish".into(), e));
            }
        }
    }
    // after the first error the writer is only dropped (calling it again panics: "invalid state")
    if let Some(g) = &gate {
        reports.push(g.end_run(sends.min(nblocks)));
    }
    drop(w);
    let stats = gate.map(|g| g.uninstall()).unwrap_or_default();
    let out = sink.lock().bytes.clone();

    // ---- verdict ---------------------------------------------------------------------------------
    if let Some(m) = count_mismatch {
        return fail1("c03.writer.write-count", m);
    }
    let mut surfaced_at = "";
    match (real_fault, &first_err) {
        (None, Some((at, e))) => {
            return fail1("c03.writer.unexpected-error", format!("{at} returned {e} although the sink never failed"));
        }
        (None, None) => {
            if out != ref_bytes {
                let d = first_diff(&out, &ref_bytes);
                // say whether it is a permutation of the reference frames
                let perm = Model::from_file(&out).ok().map(|m| {
                    let mut a: Vec<&[u8]> = m.table.iter().map(|b| &m.file[b.cpos as usize..(b.cpos + b.clen) as usize]).collect();
                    let mut r: Vec<&[u8]> = ref_model.table.iter().map(|b| &ref_model.file[b.cpos as usize..(b.cpos + b.clen) as usize]).collect();
                    a.sort();
                    r.sort();
                    a == r
                });
                return fail1(
                    "c03.writer.bytes-differ",
                    format!(
                        "MultithreadedWriter emitted {} bytes, Writer {} for the same calls (first difference at {:?}; same frames in another order: {:?}); completion order {:?}",
                        out.len(),
                        ref_bytes.len(),
                        d,
                        perm,
                        reports.last().map(|r| r.completion.clone()).unwrap_or_default()
                    ),
                );
            }
            ensure!(finished, "c03.writer.harness", "finish() not reached");
            ensure!(handed_back, "c03.writer.finish-other-sink", "finish() returned Ok with a sink that is not the one the writer was built from");
        }
        (Some((k, kind)), None) => {
            return fail1(
                "c03.writer.fault-swallowed",
                format!("the sink failed ({kind:?}) at its write call {k} of {total_calls}, yet every write/flush and finish() returned Ok ({} bytes in the sink)", out.len()),
            );
        }
        (Some((k, kind)), Some((at, _e))) => {
            surfaced_at = if at.starts_with("finish") {
                "fault-surfaced-at-finish"
            } else if at.starts_with("flush") {
                "fault-surfaced-at-flush"
            } else {
                "fault-surfaced-at-write"
            };
            if !ref_bytes.starts_with(&out) {
                return fail1(
                    "c03.writer.fault-prefix",
                    format!("sink failed ({kind:?}) at call {k}: the {} bytes it accepted before are not a prefix of the single-threaded output (first difference at {:?})", out.len(), first_diff(&out, &ref_bytes)),
                );
            }
        }
    }
    let rep = reports.last().cloned().unwrap_or_default();
    let nontrivial = rep.overtook_in_flight();
    Ok(Pass::new(nontrivial, key_of(c))
        .label_if(!c.gated, "ungated")
        .label_if(nblocks >= 2, "blocks>=2")
        .label_if(nblocks >= 5, "blocks>=5")
        .label_if(nblocks > pool + 1, "blocks>window")
        .label_if(rep.reordered(), "completion-order!=submission-order")
        .label_if(rep.max_in_flight >= 2, "in-flight>=2")
        .label_if(rep.max_in_flight >= 4, "in-flight>=4")
        .label_if(rep.decisions.iter().any(|d| d.fallback) || stats.fallbacks > 0, "gate-fallback")
        .label_if(stats.task_fallbacks > 0, "gate-task-fallback")
        .label_if(rep.unknown > 0, "gate-unknown-task")
        .label_if(rep.drain_timeout || stats.leaked > 0, "gate-drain-timeout")
        .label_if(c.schedule.iter().any(|s| s.1), "overlap-steps")
        .label_if(real_fault.is_some(), "sink-fault")
        .label_if(real_fault.is_some() && matches!(fault, Some((_, _, false))), "sink-fault-one-shot")
        .label_if(matches!(fault, Some((_, FaultKind::InterruptedOnce, _))), "sink-interrupted-once")
        .label_if(!surfaced_at.is_empty(), if surfaced_at.is_empty() { "-" } else { surfaced_at })
        .label_if(c.level == Some(0), "level0")
        .label_if(data.len() > 2 * MAX_BUF_SIZE, "payload>2-blocks"))
}

fn check_writer(c: &WCase) -> Verdict {
    run_writer(c, FALLBACK).verdict
}

// ================================================================================================
// reader
// ================================================================================================

#[derive(Clone, Debug, Serialize, Deserialize)]
pub enum Corrupt {
    /// flip one bit of one byte of member `blk` (any byte but the two BSIZE bytes): header,
    /// CDATA, CRC32 or ISIZE — detected, if at all, when the block is parsed (in the pool task)
    Flip { blk: u16, byte: u16, bit: u8 },
    /// flip one bit of BSIZE of member `blk` (the framing itself is damaged)
    FlipBsize { blk: u16, bit: u8 },
    /// cut the file
    Truncate { at: u16 },
}

#[derive(Clone, Debug, Serialize, Deserialize)]
pub struct RCase {
    pub layout: Layout,
    pub gzi_drop_terminator: bool,
    pub ops: Vec<Op>,
    pub schedule: Vec<(u8, bool)>,
    pub gated: bool,
    pub corrupt: Option<Corrupt>,
    /// after the multithreaded reader reported a clean end where the single-threaded reader
    /// reports an error: seek back to the start before calling finish()
    pub probe_seek_after_eof: bool,
}

fn rtarget_strategy() -> BoxedStrategy<Target> {
    // no FileEnd: (file_len, 0) is the class of the stale-block defects recorded under C02
    prop_oneof![
        40 => (any::<u16>(), any::<u16>()).prop_map(|(blk, u)| Target::InBlock { blk, u }),
        10 => any::<u16>().prop_map(|blk| Target::LastByte { blk }),
        30 => any::<u16>().prop_map(|blk| Target::BlockStart { blk }),
        12 => Just(Target::Current),
    ]
    .boxed()
}

fn rop_strategy() -> BoxedStrategy<Op> {
    prop_oneof![
        36 => len_strategy().prop_map(Op::Read),
        14 => len_strategy().prop_map(Op::ReadExact),
        12 => Just(Op::FillBuf),
        12 => any::<u16>().prop_map(Op::Consume),
        12 => rtarget_strategy().prop_map(Op::Seek),
        6 => utarget_strategy().prop_map(Op::SeekU),
    ]
    .boxed()
}

fn rcase_strategy(tier: Tier) -> BoxedStrategy<RCase> {
    let corrupt = prop_oneof![
        6 => Just(None),
        3 => (any::<u16>(), any::<u16>(), 0u8..8).prop_map(|(blk, byte, bit)| Some(Corrupt::Flip { blk, byte, bit })),
        2 => any::<u16>().prop_map(|at| Some(Corrupt::Truncate { at })),
        1 => (any::<u16>(), 0u8..16).prop_map(|(blk, bit)| Some(Corrupt::FlipBsize { blk, bit })),
    ];
    (
        layout(tier.pick(10usize, 16)),
        any::<bool>(),
        proptest::collection::vec(rop_strategy(), 0..=tier.pick(40usize, 80)),
        schedule_strategy(48),
        prop_oneof![9 => Just(true), 1 => Just(false)],
        corrupt,
        prop_oneof![4 => Just(false), 1 => Just(true)],
    )
        .prop_map(|(layout, gzi_drop_terminator, ops, schedule, gated, corrupt, probe_seek_after_eof)| RCase { layout, gzi_drop_terminator, ops, schedule, gated, corrupt, probe_seek_after_eof })
        .boxed()
}

/// A call of the history with lengths and targets resolved (a function of the case and of what
/// the single-threaded reader did so far).
#[derive(Clone, Debug)]
enum RPrim {
    Read(usize),
    ReadExact(usize),
    FillBuf,
    Consume(usize),
    SeekV(u64, u16),
    SeekU(u64),
}

#[derive(Clone, Debug, PartialEq)]
enum ROut {
    Read(Vec<u8>),
    Exact(Vec<u8>),
    Fill(Vec<u8>),
    Unit,
    SeekV(u64),
    SeekU(u64),
    Err(io::ErrorKind, String),
}

impl ROut {
    fn brief(&self) -> String {
        match self {
            ROut::Read(v) => format!("Ok({} bytes)", v.len()),
            ROut::Exact(v) => format!("Ok(()) [{} bytes]", v.len()),
            ROut::Fill(v) => format!("Ok(&[..{}])", v.len()),
            ROut::Unit => "()".into(),
            ROut::SeekV(v) => format!("Ok(({}, {}))", v >> 16, v & 0xffff),
            ROut::SeekU(v) => format!("Ok({v})"),
            ROut::Err(k, m) => format!("Err({k:?}: {m})"),
        }
    }
    fn is_err(&self) -> bool {
        matches!(self, ROut::Err(..))
    }
}

struct RStep {
    prim: RPrim,
    out: ROut,
    /// virtual position after the call
    vpos: u64,
    /// compressed position (`position()`) after the call
    cpos: u64,
}

trait BgzfRead: Read + BufRead {
    fn vpos_raw(&self) -> u64;
    fn seek_v(&mut self, v: VirtualPosition) -> io::Result<VirtualPosition>;
    fn seek_u(&mut self, index: &gzi::Index, off: u64) -> io::Result<u64>;
}

impl BgzfRead for bgzf::io::Reader<Cursor<Vec<u8>>> {
    fn vpos_raw(&self) -> u64 {
        u64::from(self.virtual_position())
    }
    fn seek_v(&mut self, v: VirtualPosition) -> io::Result<VirtualPosition> {
        self.seek(v)
    }
    fn seek_u(&mut self, index: &gzi::Index, off: u64) -> io::Result<u64> {
        self.seek_by_uncompressed_position(index, off)
    }
}

/// Source of the multithreaded reader that counts the frames its reader thread has read
/// completely (header `read_exact(18)` followed by a successful body `read_exact`): every such
/// frame is handed to the pool as exactly one inflate task.
struct CountingSrc {
    cur: Cursor<Vec<u8>>,
    frames: Arc<AtomicUsize>,
    header_next: bool,
}

impl Read for CountingSrc {
    fn read(&mut self, buf: &mut [u8]) -> io::Result<usize> {
        self.cur.read(buf)
    }
    fn read_exact(&mut self, buf: &mut [u8]) -> io::Result<()> {
        let r = self.cur.read_exact(buf);
        match &r {
            Ok(()) if self.header_next => self.header_next = false,
            Ok(()) => {
                self.frames.fetch_add(1, Ordering::SeqCst);
                self.header_next = true;
            }
            Err(_) => self.header_next = true,
        }
        r
    }
}

impl io::Seek for CountingSrc {
    fn seek(&mut self, pos: SeekFrom) -> io::Result<u64> {
        self.header_next = true;
        self.cur.seek(pos)
    }
}

impl BgzfRead for bgzf::io::MultithreadedReader<CountingSrc> {
    fn vpos_raw(&self) -> u64 {
        u64::from(self.virtual_position())
    }
    fn seek_v(&mut self, v: VirtualPosition) -> io::Result<VirtualPosition> {
        bgzf::io::Seek::seek_to_virtual_position(self, v)
    }
    fn seek_u(&mut self, index: &gzi::Index, off: u64) -> io::Result<u64> {
        bgzf::io::Seek::seek_with_index(self, index, SeekFrom::Start(off))
    }
}

fn exec<R: BgzfRead>(r: &mut R, p: &RPrim, index: &gzi::Index, scratch: &mut Vec<u8>) -> ROut {
    let wrap = |e: io::Error| ROut::Err(e.kind(), e.to_string());
    match p {
        RPrim::Read(n) => {
            scratch.clear();
            scratch.resize(*n, 0);
            match r.read(scratch) {
                Ok(k) => ROut::Read(scratch[..k.min(*n)].to_vec()),
                Err(e) => wrap(e),
            }
        }
        RPrim::ReadExact(n) => {
            scratch.clear();
            scratch.resize(*n, 0);
            match r.read_exact(scratch) {
                Ok(()) => ROut::Exact(scratch.clone()),
                Err(e) => wrap(e),
            }
        }
        RPrim::FillBuf => match r.fill_buf() {
            Ok(s) => ROut::Fill(s.to_vec()),
            Err(e) => wrap(e),
        },
        RPrim::Consume(n) => {
            r.consume(*n);
            ROut::Unit
        }
        RPrim::SeekV(c, u) => match VirtualPosition::try_from((*c, *u)) {
            Ok(v) => match r.seek_v(v) {
                Ok(ret) => ROut::SeekV(u64::from(ret)),
                Err(e) => wrap(e),
            },
            Err(e) => ROut::Err(io::ErrorKind::InvalidInput, e.to_string()),
        },
        RPrim::SeekU(off) => match r.seek_u(index, *off) {
            Ok(ret) => ROut::SeekU(ret),
            Err(e) => wrap(e),
        },
    }
}

/// The damaged file and what the harness can still say about its framing.
struct Damage {
    file: Vec<u8>,
    /// members [0, framed) of the original table are intact as frames (complete, BSIZE untouched);
    /// their content may be damaged
    framed: usize,
    label: &'static str,
}

fn damage(m: &Model, c: &Option<Corrupt>) -> Damage {
    let mut file = m.file.clone();
    let n = m.table.len();
    match c {
        None => Damage { file, framed: n, label: "intact" },
        Some(_) if n == 0 => Damage { file, framed: 0, label: "intact" },
        Some(Corrupt::Flip { blk, byte, bit }) => {
            let b = &m.table[pick_idx(*blk, n)];
            // any byte of the member except BSIZE (offsets 16, 17)
            let mut o = pick_idx(*byte, b.clen as usize - 2);
            if o >= 16 {
                o += 2;
            }
            file[b.cpos as usize + o] ^= 1 << (bit % 8);
            // A damaged deflate stream that still ends properly but produces FEWER bytes than ISIZE
            // is not rejected by noodles as such: the CRC is then taken over the produced bytes plus
            // whatever the block buffer held before, so acceptance depends on the buffer's history
            // (in both readers). That outcome is unspecified; the case gets a CRC32 flip instead.
            let (s0, e0) = (b.cpos as usize, (b.cpos + b.clen) as usize);
            let isize_field = u32::from_le_bytes([file[e0 - 4], file[e0 - 3], file[e0 - 2], file[e0 - 1]]) as usize;
            let short = match crate::oracle::bgzf_walk::inflate_len_lenient(&file[s0 + 18..e0 - 8], 65536) {
                Some(n) => n < isize_field && isize_field <= 65536,
                None => false,
            };
            if short && o >= 18 && (o as u64) < b.clen - 8 {
                file[s0 + o] ^= 1 << (bit % 8);
                file[e0 - 8] ^= 1 << (bit % 8);
                return Damage { file, framed: n, label: "flip-crc(substituted-for-short-inflate)" };
            }
            let label = if o < 16 {
                "flip-header"
            } else if (o as u64) < b.clen - 8 {
                "flip-cdata"
            } else if (o as u64) < b.clen - 4 {
                "flip-crc"
            } else {
                "flip-isize"
            };
            Damage { file, framed: n, label }
        }
        Some(Corrupt::FlipBsize { blk, bit }) => {
            let j = pick_idx(*blk, n);
            let b = &m.table[j];
            let o = b.cpos as usize + 16 + (*bit as usize / 8) % 2;
            file[o] ^= 1 << (bit % 8);
            // the same unspecified outcome (see Flip) arises when the mis-sized frame still holds a
            // complete deflate stream that produces fewer bytes than the ISIZE found at its new end
            let s0 = b.cpos as usize;
            let bs = u16::from_le_bytes([file[s0 + 16], file[s0 + 17]]) as usize + 1;
            if bs >= 26 && s0 + bs <= file.len() {
                let e0 = s0 + bs;
                let isize_field = u32::from_le_bytes([file[e0 - 4], file[e0 - 3], file[e0 - 2], file[e0 - 1]]) as usize;
                let short = match crate::oracle::bgzf_walk::inflate_len_lenient(&file[s0 + 18..e0 - 8], 65536) {
                    Some(k) => k < isize_field && isize_field <= 65536,
                    None => false,
                };
                if short {
                    file[o] ^= 1 << (bit % 8);
                    let e = (b.cpos + b.clen) as usize;
                    file[e - 8] ^= 1 << (bit % 8);
                    return Damage { file, framed: n, label: "flip-crc(substituted-for-short-inflate)" };
                }
            }
            Damage { file, framed: j, label: "flip-bsize" }
        }
        Some(Corrupt::Truncate { at }) => {
            let cut = pick_idx(*at, file.len());
            file.truncate(cut);
            let framed = m.table.iter().take_while(|b| b.cpos + b.clen <= cut as u64).count();
            Damage { file, framed, label: "truncated" }
        }
    }
}

struct ROutcome {
    verdict: Verdict,
    reports: Vec<RunReport>,
}

fn run_reader(c: &RCase, fallback: Duration) -> ROutcome {
    let _timer = CaseTimer::start();
    let mut reports = Vec::new();
    let verdict = run_reader_inner(c, fallback, &mut reports);
    ROutcome { verdict, reports }
}

fn run_reader_inner(c: &RCase, fallback: Duration, reports: &mut Vec<RunReport>) -> Verdict {
    let m = c.layout.build();
    let dmg = damage(&m, &c.corrupt);
    let intact = dmg.file == m.file;
    let eff_len = dmg.file.len() as u64;
    let pairs = m.gzi(c.gzi_drop_terminator);
    let index = gzi::Index::from(pairs.clone());
    let total = m.total();
    // a seek target is used only if a complete block header can be read there: seeking to the very
    // end of the file is the class of the stale-block defects recorded under C02
    let seekable = |cpos: u64| cpos + 18 <= eff_len && m.block_at(cpos).is_some();

    // ---- the single-threaded reader: the reference transcript -----------------------------------
    let mut st = bgzf::io::Reader::new(Cursor::new(dmg.file.clone()));
    let mut steps: Vec<RStep> = Vec::new();
    let mut scratch = Vec::with_capacity(200_000);
    let mut off = 0u64; // model offset of the next byte (for choosing lengths only)
    let mut avail = 0usize;
    let mut skipped = 0usize;
    let tail = [Op::Read(Len::Abs(97))];
    for op in c.ops.iter().chain(tail.iter()) {
        let len_of = |l: &Len| -> usize {
            match l {
                Len::Abs(n) => *n as usize,
                Len::Rest => m.rest_of_block(off) as usize,
                Len::RestPlus(k) => m.rest_of_block(off) as usize + *k as usize,
                Len::Big(n) => (*n as usize).max(65536),
            }
        };
        let prim = match op {
            Op::Read(l) => {
                let mut n = len_of(l);
                // no >=64 KiB buffer when the file has nothing more to give (C02 stale-block defect
                // of the single-threaded reader's direct path)
                if n >= 65536 && st.position() + 18 > eff_len {
                    n = 65535;
                }
                RPrim::Read(n)
            }
            Op::ReadExact(l) => {
                let mut n = len_of(l);
                // keep what is left of the buffer when the stream ends below 64 KiB (same defect)
                let cap = if intact { (total.saturating_sub(off)) as usize + 60_000 } else { 60_000 };
                n = n.min(cap);
                RPrim::ReadExact(n)
            }
            Op::FillBuf => RPrim::FillBuf,
            // a C02-only operation (not generated here)
            Op::CrossSeek { .. } => continue,
            Op::Consume(sel) => RPrim::Consume(pick_idx(*sel, avail + 1).min(avail)),
            Op::Seek(t) => {
                let ne = m.nonempty();
                let target: Option<(u64, u16)> = match t {
                    Target::InBlock { blk, u } if !ne.is_empty() => {
                        let b = &m.table[ne[pick_idx(*blk, ne.len())]];
                        Some((b.cpos, pick_idx(*u, b.len as usize) as u16))
                    }
                    Target::LastByte { blk } if !ne.is_empty() => {
                        let b = &m.table[ne[pick_idx(*blk, ne.len())]];
                        Some((b.cpos, (b.len - 1) as u16))
                    }
                    Target::BlockStart { blk } if !m.table.is_empty() => Some((m.table[pick_idx(*blk, m.table.len())].cpos, 0)),
                    Target::Current => Some(VirtualPosition::from(st.virtual_position()).into()),
                    _ => None,
                };
                match target {
                    Some((cp, up)) if seekable(cp) => RPrim::SeekV(cp, up),
                    _ => {
                        skipped += 1;
                        continue;
                    }
                }
            }
            Op::SeekU(t) => {
                let ne = m.nonempty();
                let o = match t {
                    UTarget::Off(sel) => pick_idx(*sel, total as usize + 1) as u64,
                    UTarget::BlockStart(sel) if !ne.is_empty() => m.table[ne[pick_idx(*sel, ne.len())]].ustart,
                    UTarget::BlockLast(sel) if !ne.is_empty() => {
                        let b = &m.table[ne[pick_idx(*sel, ne.len())]];
                        b.ustart + b.len - 1
                    }
                    _ => total,
                };
                // where the index sends the reader (linear scan, not noodles' query)
                let (bc, bu) = pairs.iter().rev().find(|p| p.1 <= o).copied().unwrap_or((0, 0));
                if o - bu > u16::MAX as u64 || !seekable(bc) {
                    skipped += 1;
                    continue;
                }
                RPrim::SeekU(o)
            }
        };
        let out = exec(&mut st, &prim, &index, &mut scratch);
        match (&prim, &out) {
            (_, ROut::Read(v)) | (_, ROut::Exact(v)) => {
                off += v.len() as u64;
                avail = 0;
            }
            (_, ROut::Fill(v)) => avail = v.len(),
            (RPrim::Consume(n), _) => {
                off += *n as u64;
                avail -= *n;
            }
            (RPrim::SeekV(cp, up), ROut::SeekV(_)) => {
                off = m.resolve(*cp, *up).unwrap_or(off);
                avail = 0;
            }
            (RPrim::SeekU(o), ROut::SeekU(_)) => {
                off = *o;
                avail = 0;
            }
            _ => {}
        }
        let err = out.is_err();
        steps.push(RStep { prim, out, vpos: u64::from(st.virtual_position()), cpos: st.position() });
        if err {
            break;
        }
    }
    drop(st);
    let st_err_at = steps.iter().position(|s| s.out.is_err());
    if intact {
        if let Some(i) = st_err_at {
            // reading past the end with read_exact is the only legitimate error on an intact file
            let ok = matches!((&steps[i].prim, &steps[i].out), (RPrim::ReadExact(_), ROut::Err(io::ErrorKind::UnexpectedEof, _)));
            ensure!(ok, "c03.reader.reference-error", "single-threaded Reader failed on an intact file at call {i} {:?}: {}", steps[i].prim, steps[i].out.brief());
        }
    }

    // ---- runs (between seeks) and what each can spawn ---------------------------------------------
    // frame index of compressed offset p = number of members that start before p
    let frame_idx = |p: u64| m.table.partition_point(|b| b.cpos < p);
    let frame_ident = |j: usize| {
        let b = &m.table[j];
        ident(&dmg.file[b.cpos as usize..(b.cpos + b.clen) as usize])
    };
    let pool = rayon::current_num_threads();
    let buffers = pool + 2;
    struct RunInfo {
        start: usize,
        consume: usize,
    }
    let mut runs: Vec<RunInfo> = vec![RunInfo { start: 0, consume: 0 }];
    for s in &steps {
        match s.prim {
            RPrim::SeekV(cp, _) => runs.push(RunInfo { start: frame_idx(cp), consume: 0 }),
            RPrim::SeekU(o) => {
                let (bc, _) = pairs.iter().rev().find(|p| p.1 <= o).copied().unwrap_or((0, 0));
                runs.push(RunInfo { start: frame_idx(bc), consume: 0 })
            }
            _ => {}
        }
        if s.out.is_err() {
            break;
        }
        if let Some(r) = runs.last_mut() {
            r.consume = frame_idx(s.cpos).saturating_sub(r.start);
        }
    }
    let plan_of = |r: &RunInfo, k: usize| -> RunPlan {
        let end = dmg.framed.max(r.start);
        RunPlan {
            idents: (r.start..end).map(frame_ident).collect(),
            plan: Plan::Reader { buffers, consume: r.consume },
            // on a damaged file the consumer may go one block further than the last good call shows
            need: if intact { r.consume } else { end - r.start },
            sched_offset: Some((k * 11) % c.schedule.len().max(1)),
        }
    };

    // ---- the multithreaded reader under the schedule ---------------------------------------------
    let gate = if c.gated { Some(Gate::install(pool, picks(&c.schedule), fallback)) } else { None };
    let mut run_no = 0usize;
    if let Some(g) = &gate {
        g.begin_run(plan_of(&runs[0], 0));
    }
    let frames = Arc::new(AtomicUsize::new(0));
    let mut mt = bgzf::io::MultithreadedReader::new(CountingSrc { cur: Cursor::new(dmg.file.clone()), frames: frames.clone(), header_next: true });
    // frames read (= tasks spawned) before the current run
    let mut frames_before = 0usize;
    let end_run = |mt: &mut bgzf::io::MultithreadedReader<CountingSrc>, frames_before: &mut usize, reports: &mut Vec<RunReport>| {
        if let Some(g) = &gate {
            // `get_mut` pauses the reader thread (exactly what a seek does first); after that the
            // number of frames it read — hence of tasks it spawned in this run — is final
            let _ = mt.get_mut();
            let now = frames.load(Ordering::SeqCst);
            reports.push(g.end_run(now - *frames_before));
            *frames_before = now;
        }
    };
    let mut failure: Option<Vec<Fail>> = None;
    let mut mt_eof_where_st_err = false;
    let mut mt_err_seen = false;
    for (i, s) in steps.iter().enumerate() {
        if matches!(s.prim, RPrim::SeekV(..) | RPrim::SeekU(_)) {
            end_run(&mut mt, &mut frames_before, reports);
            run_no += 1;
            if let Some(g) = &gate {
                g.begin_run(plan_of(&runs[run_no.min(runs.len() - 1)], run_no));
            }
        }
        let out = exec(&mut mt, &s.prim, &index, &mut scratch);
        if s.out.is_err() {
            // the first error of the single-threaded reader: the multithreaded reader reports an
            // error here as well, or looks like a clean end of file and reports it from finish()
            match (&s.prim, &out) {
                (_, ROut::Err(..)) => mt_err_seen = true,
                (RPrim::Read(_), ROut::Read(v)) if v.is_empty() => mt_eof_where_st_err = true,
                (RPrim::FillBuf, ROut::Fill(v)) if v.is_empty() => mt_eof_where_st_err = true,
                (RPrim::SeekV(..), ROut::SeekV(_)) | (RPrim::SeekU(_), ROut::SeekU(_)) => mt_eof_where_st_err = true,
                _ => {
                    failure = Some(f1(
                        "c03.reader.data-where-reference-fails",
                        format!("call {i} {:?}: single-threaded Reader returns {}, MultithreadedReader returns {}", s.prim, s.out.brief(), out.brief()),
                    ));
                }
            }
            break;
        }
        if out != s.out {
            let sig = match (&out, &s.out) {
                (ROut::Err(..), _) => "c03.reader.unexpected-error",
                (ROut::Read(a), ROut::Read(b)) if a.len() != b.len() => "c03.reader.read-count",
                (ROut::Fill(a), ROut::Fill(b)) if a.len() != b.len() => "c03.reader.fill_buf-length",
                (ROut::SeekV(_), _) | (ROut::SeekU(_), _) => "c03.reader.seek-return",
                _ => "c03.reader.bytes-differ",
            };
            failure = Some(f1(sig, format!("call {i} {:?}: single-threaded Reader returns {}, MultithreadedReader returns {}", s.prim, s.out.brief(), out.brief())));
            break;
        }
        let v = mt.vpos_raw();
        if v != s.vpos {
            let after_seek = matches!(s.prim, RPrim::SeekV(..) | RPrim::SeekU(_));
            failure = Some(f1(
                if after_seek { "c03.reader.vpos-after-seek" } else { "c03.reader.vpos" },
                format!("after call {i} {:?}: single-threaded virtual_position() = ({}, {}), multithreaded = ({}, {})", s.prim, s.vpos >> 16, s.vpos & 0xffff, v >> 16, v & 0xffff),
            ));
            break;
        }
    }
    // the probe: a clean-looking end, then a seek (which pauses the reader thread and discards its result)
    let mut probed = false;
    if failure.is_none() && mt_eof_where_st_err && c.probe_seek_after_eof && seekable(0) {
        end_run(&mut mt, &mut frames_before, reports);
        run_no += 1;
        if let Some(g) = &gate {
            let r = RunInfo { start: 0, consume: 1 };
            g.begin_run(plan_of(&r, run_no));
        }
        let _ = exec(&mut mt, &RPrim::SeekV(0, 0), &index, &mut scratch);
        probed = true;
    }
    // finish(): always terminates; hands the source back unless an error is pending
    let fin = mt.finish();
    if let Some(g) = &gate {
        // finish() has joined the reader thread: the frame count is final
        reports.push(g.end_run(frames.load(Ordering::SeqCst) - frames_before));
    }
    drop(mt);
    let stats = gate.map(|g| g.uninstall()).unwrap_or_default();
    if let Some(f) = failure {
        return Err(f);
    }
    if intact {
        if let Err(e) = &fin {
            return fail1("c03.reader.finish-error-on-intact-file", format!("MultithreadedReader::finish() on an intact file: {e}"));
        }
    }
    if mt_eof_where_st_err && fin.is_ok() {
        let i = st_err_at.unwrap_or(0);
        let sig = if probed { "c03.reader.frame-error-lost-after-seek" } else { "c03.reader.error-dropped" };
        return fail1(
            sig,
            format!(
                "{} file: at call {i} {:?} the single-threaded Reader fails with {}, the MultithreadedReader reports a clean end{} and finish() returns Ok: the damage is never reported",
                dmg.label,
                steps[i].prim,
                steps[i].out.brief(),
                if probed { ", is then sought to (0, 0)" } else { "" }
            ),
        );
    }

    let reordered = reports.iter().any(|r| r.reordered());
    let nontrivial = reports.iter().any(|r| r.overtook_in_flight());
    let seeks = steps.iter().filter(|s| matches!(s.prim, RPrim::SeekV(..) | RPrim::SeekU(_))).count();
    let max_in_flight = reports.iter().map(|r| r.max_in_flight).max().unwrap_or(0);
    Ok(Pass::new(nontrivial, key_of(c))
        .label(dmg.label)
        .label_if(!c.gated, "ungated")
        .label_if(reordered, "completion-order!=submission-order")
        .label_if(max_in_flight >= 2, "in-flight>=2")
        .label_if(max_in_flight >= 4, "in-flight>=4")
        .label_if(m.table.len() >= 5, "frames>=5")
        .label_if(m.table.len() > buffers, "frames>buffers")
        .label_if(m.has_mid_empty(), "empty-block-mid-file")
        .label_if(seeks > 0, "seek")
        .label_if(seeks > 0 && nontrivial, "seek+reordered")
        .label_if(steps.iter().any(|s| matches!(s.prim, RPrim::SeekU(_))), "seek-with-index")
        .label_if(skipped > 0, "seek-skipped(end-of-file class)")
        .label_if(st_err_at.is_some() && !intact, "reference-error")
        .label_if(mt_err_seen, "error-from-call")
        .label_if(mt_eof_where_st_err, "error-only-from-finish")
        .label_if(probed, "probe-seek-after-eof")
        .label_if(!intact && st_err_at.is_none(), "damage-not-reached")
        .label_if(reports.iter().any(|r| r.decisions.iter().any(|d| d.fallback)) || stats.fallbacks > 0, "gate-fallback")
        .label_if(stats.task_fallbacks > 0, "gate-task-fallback")
        .label_if(reports.iter().any(|r| r.unknown > 0), "gate-unknown-task")
        .label_if(reports.iter().any(|r| r.drain_timeout) || stats.leaked > 0, "gate-drain-timeout")
        .label_if(steps.iter().any(|s| matches!(s.prim, RPrim::Read(n) if n >= 65536)), "read>=64KiB"))
}

fn check_reader(c: &RCase) -> Verdict {
    run_reader(c, FALLBACK).verdict
}

// ================================================================================================
// exhaustive schedule windows
// ================================================================================================

#[derive(Clone, Debug, Serialize, Deserialize)]
pub struct Window {
    /// "writer" | "reader" | "reader-seek"
    pub kind: String,
    /// number of data blocks
    pub n: usize,
    pub schedule: Vec<u8>,
}

const SEG: usize = 12;

fn window_run(w: &Window) -> (Verdict, Vec<RunReport>) {
    let sched: Vec<(u8, bool)> = w.schedule.iter().map(|i| (*i, false)).collect();
    // distinct small blocks
    let blocks: Vec<Payload> = (0..w.n).map(|i| Payload { class: 2, len: 9 + i as u32, seed: 100 + i as u32 }).collect();
    match w.kind.as_str() {
        "writer" => {
            let len: u32 = blocks.iter().map(|b| b.len).sum();
            let mut ops = Vec::new();
            for b in &blocks {
                ops.push(WOp::WriteAll(b.len));
                ops.push(WOp::Flush);
            }
            let c = WCase { payload: Payload { class: 2, len, seed: 7 }, level: Some(1), ops, schedule: sched, gated: true, fault: None };
            let o = run_writer(&c, FALLBACK_ENUM);
            (o.verdict, o.reports)
        }
        kind => {
            let mut ops: Vec<Op> = Vec::new();
            if kind == "reader-seek" {
                // read two blocks, go back to the second block, read to the end
                ops.push(Op::Read(Len::Rest));
                ops.push(Op::Read(Len::Rest));
                ops.push(Op::Seek(Target::BlockStart { blk: ((1usize << 16) / (w.n + 1) + 1) as u16 }));
            }
            for _ in 0..w.n + 1 {
                ops.push(Op::Read(Len::Rest));
            }
            let c = RCase { layout: Layout { blocks, eof: true, level: 1 }, gzi_drop_terminator: false, ops, schedule: sched, gated: true, corrupt: None, probe_seek_after_eof: false };
            let o = run_reader(&c, FALLBACK_ENUM);
            (o.verdict, o.reports)
        }
    }
}

/// Observable decisions of a run, with their positions in the schedule.
fn needed_decisions(w: &Window, reports: &[RunReport]) -> (Vec<(usize, Decision)>, bool) {
    let mut v = Vec::new();
    let mut clean = true;
    for (k, r) in reports.iter().enumerate() {
        // run k starts at schedule position (k * 11) % len for readers (see plan_of), 0 for the writer
        let base = if w.kind == "writer" { 0 } else { (k * 11) % w.schedule.len().max(1) };
        for (j, d) in r.decisions.iter().enumerate() {
            if d.needed {
                if d.fallback {
                    clean = false;
                }
                v.push((base + j, d.clone()));
            }
        }
        if r.unknown > 0 || r.drain_timeout {
            clean = false;
        }
    }
    (v, clean)
}

fn window_enumerate(kind: &str, n: usize, rec: &mut Recorder) -> bool {
    // schedule laid out in fixed segments: run k of a reader case uses positions k*11.. (11 < SEG)
    let len = if kind == "reader-seek" { 2 * SEG } else { SEG };
    let mut sched = vec![0u8; len];
    let mut count = 0u64;
    loop {
        let w = Window { kind: kind.to_string(), n, schedule: sched.clone() };
        let mut attempt = 0;
        rec.about_to_run(&|| serde_json::to_value(&w).unwrap_or(serde_json::Value::Null));
        let (verdict, decisions) = loop {
            let (verdict, reports) = window_run(&w);
            let (d, clean) = needed_decisions(&w, &reports);
            if clean || verdict.is_err() || attempt >= 3 {
                assert!(clean || verdict.is_err(), "schedule window {kind}/{n}: the parked sets were not reproducible (gate fallbacks) — machine too loaded to enumerate");
                break (verdict, d);
            }
            attempt += 1;
        };
        let reordered = decisions.iter().any(|(_, d)| d.chosen > 0);
        let verdict = verdict.map(|p| Pass { nontrivial: reordered, key: key_of(&w), labels: p.labels, evals: 1 }.label(if kind == "writer" { "window-writer" } else if kind == "reader" { "window-reader" } else { "window-reader-seek" }));
        count += 1;
        if !rec.record(&|| serde_json::to_value(&w).unwrap_or(serde_json::Value::Null), verdict) {
            return false;
        }
        assert!(count < 20_000, "schedule window {kind}/{n} does not terminate");
        // next schedule in depth-first order: bump the last decision that has an untried option
        let mut bumped = false;
        for (pos, d) in decisions.iter().rev() {
            assert!(*pos < len, "schedule window {kind}/{n}: decision beyond the schedule");
            if d.chosen + 1 < d.options {
                sched[*pos] = (d.chosen + 1) as u8;
                for later in decisions.iter().filter(|(p, _)| p > pos) {
                    sched[later.0] = 0;
                }
                bumped = true;
                break;
            }
        }
        if !bumped {
            return true;
        }
    }
}

fn window_configs(tier: Tier) -> Vec<(&'static str, usize)> {
    let max_n = tier.pick(4usize, 5);
    let mut v = Vec::new();
    for n in 1..=max_n {
        v.push(("writer", n));
        v.push(("reader", n));
    }
    for n in 3..=max_n {
        v.push(("reader-seek", n));
    }
    v
}

fn window_shard(sc: &ShardCtx, rec: &mut Recorder) {
    for (i, (kind, n)) in window_configs(sc.tier).into_iter().enumerate() {
        if i % sc.nshards.max(1) != sc.shard {
            continue;
        }
        if !window_enumerate(kind, n, rec) {
            return;
        }
    }
}

fn window_replay(v: &serde_json::Value) -> Verdict {
    let w: Window = serde_json::from_value(v.clone()).map_err(|e| f1("c03.window.bad-replay", format!("{e}")))?;
    window_run(&w).0
}

// ================================================================================================
// registration
// ================================================================================================

const POOLS: [(usize, &str, &str, &str); 6] =
    [(1, "1", "writer_p1", "reader_p1"), (2, "2", "writer_p2", "reader_p2"), (3, "3", "writer_p3", "reader_p3"), (4, "4", "writer_p4", "reader_p4"), (8, "8", "writer_p8", "reader_p8"), (16, "16", "writer_p16", "reader_p16")];

const WRULE: &str = "MultithreadedWriter vs Writer on the same write/flush calls and level, deflate tasks released in the generated completion order, optional sink fault at the k-th write; non-trivial = from hook events: a task completed before an earlier-submitted task that was in flight at the same time; distinct by hash of the whole case";
const RRULE: &str = "MultithreadedReader vs Reader on the same call history (read/read_exact/fill_buf/consume/seek/seek_with_index) over a G-layout file, inflate tasks released in the generated completion order, optional damage (bit flip in block j / truncation); non-trivial = from hook events: a task completed before an earlier-submitted task that was in flight at the same time; distinct by hash of the whole case";
const ERULE: &str = "every feasible release order (depth-first over the parked sets the gate reports) for 1..=5 (quick: 4) small blocks: writer, sequential reader, reader with one backward seek; non-trivial = some release was not the oldest parked task";

pub fn property() -> Property {
    let mut subs: Vec<Box<dyn DynSub>> = Vec::new();
    for (_, n, wname, rname) in POOLS {
        let opts = move |o: &mut SubOpts| {
            o.env.push(("RAYON_NUM_THREADS".into(), n.to_string()));
            o.isolate = true;
            o.hang_is_violation = true;
            o.timeout_s = (240, 2400);
            o.case_budget_s = CASE_BUDGET_S;
            o.max_shrink_iters = 400;
            // one shard process per pool size: a hang that is reproduced costs the engine a full
            // 10x-budget re-run per dead shard, and the re-runs are sequential
            o.max_shards = 1;
        };
        subs.push(sub(wname, WRULE, wcase_strategy, check_writer, 3_000, 40_000).with(opts).boxed());
        subs.push(sub(rname, RRULE, rcase_strategy, check_reader, 3_000, 40_000).with(opts).boxed());
    }
    for (n, name) in [("1", "window_p1"), ("2", "window_p2"), ("3", "window_p3")] {
        subs.push(
            EnumSub { name, rule: ERULE, run: window_shard, replay: window_replay, shards: (1, 2), opts: SubOpts::default() }
                .with(|o| {
                    o.env.push(("RAYON_NUM_THREADS".into(), n.to_string()));
                    o.isolate = true;
                    o.hang_is_violation = true;
                    o.timeout_s = (300, 2400);
                    o.case_budget_s = CASE_BUDGET_S;
                    o.exhaustive = true;
                })
                .boxed(),
        );
    }
    Property {
        id: "C03",
        level: "exploration",
        rule: "write/flush histories and reader call histories × pool size (RAYON_NUM_THREADS ∈ {1,2,3,4,8,16}) × completion order of the block tasks (gate scheduler on the noodles_verif task hook) × sink fault / damaged block position",
        assumptions: vec![
            "the single-threaded Writer / Reader are the reference (they are checked on their own by C01 / C02)".into(),
            "the task hook is called at the first statement of every block task and after its result was sent; interleavings inside a task and of the channel operations are left to the OS".into(),
            "seeks to the very end of the file and >=64 KiB reads at end of file are kept out of the histories (stale-block defects recorded under C02)".into(),
            "gate fallback timeouts affect only which schedule is explored; genuine hangs are detected by the engine's isolated re-run".into(),
            "frame-level damage (truncation, BSIZE) may surface from finish() only; this is accepted as 'a later call'".into(),
        ],
        subs,
        max_parallel: 16,
    }
}
