//! C08 — CRAM block codecs and integer codings decode exactly what was encoded, per the spec.
//!
//! Sub-checks: `ref_pins` (the reference decoders/codecs are pinned on golden vectors first),
//! `rans4x8`, `rans_nx16`, `aac`, `fqzcomp`, `name_tokenizer`, `general` (gzip/bzip2/lzma), `itf8`,
//! `ltf8`, `uint7`.
//!
//! Known-defect attribution. Several genuine defects of the pinned tree sit in this property. Each
//! has (1) a predicate on the case (or on the stream noodles emitted) that describes the failing
//! class, (2) a *canary*: a fixed tiny input that tells, once per process, whether that defect is
//! still present in the build under test, and (3) its own signature. A failing case is attributed
//! to the first class (in a fixed priority order) whose predicate holds and whose canary still
//! fails; otherwise it gets the generic signature of the failing step, which is never listed in
//! KNOWN_FINDINGS. On a tree where a defect has been repaired its canary passes, the class is no
//! longer used for attribution, and its KNOWN_FINDINGS line can simply be dropped.

use crate::engine::panics::{self, PanicInfo};
use crate::engine::shard::Recorder;
use crate::engine::*;
use crate::oracle::{rans_ref, varint_ref};
use crate::r#gen::payload::XorShift;
use noodles_cram::codecs::{aac, rans_4x8, rans_nx16};
use noodles_cram::verif as nv;
use proptest::prelude::*;
use serde::{Deserialize, Serialize};
use std::io;
use std::sync::OnceLock;

// ================================================================================================
// Running noodles code: result / error / panic

pub enum Out<T> {
    Ok(T),
    Err(io::Error),
    Panic(PanicInfo),
}

/// Run a noodles call; a panic inside the harness itself is re-raised (harness error).
pub fn guard<T>(f: impl FnOnce() -> io::Result<T>) -> Out<T> {
    match panics::catch(f) {
        Ok(Ok(v)) => Out::Ok(v),
        Ok(Err(e)) => Out::Err(e),
        Err(p) => {
            if p.in_harness() {
                panic!("harness panic inside a guarded call: {}", p.describe());
            }
            Out::Panic(p)
        }
    }
}

/// A known-defect class: (predicate holds for this case, signature, canary "defect still present").
pub type Class = (bool, &'static str, fn() -> bool);

fn attribute(classes: &[Class], generic: String) -> String {
    for (applies, sig, present) in classes {
        if *applies && present() {
            return (*sig).to_string();
        }
    }
    generic
}

fn once(cell: &'static OnceLock<bool>, f: fn() -> bool) -> bool {
    *cell.get_or_init(|| panics::catch(f).unwrap_or(true))
}

fn roundtrips<T: PartialEq>(r: Out<T>, expect: &T) -> bool {
    matches!(r, Out::Ok(ref v) if v == expect)
}

// ---- canaries (true = the defect is present in this build) -------------------------------------

fn rt_4x8(order: rans_4x8::Order, x: &[u8]) -> bool {
    let x = x.to_vec();
    roundtrips(guard(|| nv::rans_4x8_encode(order, &x).and_then(|e| nv::rans_4x8_decode(&e))), &x)
}
fn rt_nx16(flags: u8, x: &[u8]) -> bool {
    let x = x.to_vec();
    roundtrips(guard(|| nv::rans_nx16_encode(rans_nx16::Flags::from(flags), &x).and_then(|e| nv::rans_nx16_decode(&e, x.len()))), &x)
}
fn rt_aac(flags: u8, x: &[u8]) -> bool {
    let x = x.to_vec();
    roundtrips(guard(|| nv::aac_encode(aac::Flags::from(flags), &x).and_then(|e| nv::aac_decode(&e, x.len()))), &x)
}
fn rt_tok3(x: &[u8]) -> bool {
    let x = x.to_vec();
    roundtrips(guard(|| nv::name_tokenizer_encode(&x).and_then(|e| nv::name_tokenizer_decode(&e))), &x)
}
fn rt_fqz(lens: &[usize], x: &[u8]) -> bool {
    let x = x.to_vec();
    roundtrips(guard(|| nv::fqzcomp_encode(lens, &x).and_then(|e| nv::fqzcomp_decode(&e))), &x)
}

pub fn d_4x8_first1() -> bool {
    static C: OnceLock<bool> = OnceLock::new();
    once(&C, || !rt_4x8(rans_4x8::Order::Zero, &[1, 1, 1, 2, 3, 1, 5]))
}
pub fn d_4x8_run255() -> bool {
    static C: OnceLock<bool> = OnceLock::new();
    once(&C, || !rt_4x8(rans_4x8::Order::Zero, &[253, 254, 255, 0, 253, 254, 255, 9]))
}
pub fn d_4x8_empty() -> bool {
    static C: OnceLock<bool> = OnceLock::new();
    once(&C, || !rt_4x8(rans_4x8::Order::Zero, &[]))
}
pub fn d_nx16_first1() -> bool {
    static C: OnceLock<bool> = OnceLock::new();
    once(&C, || !rt_nx16(0, &[1, 1, 1, 2, 3, 1, 5]))
}
pub fn d_nx16_order1() -> bool {
    static C: OnceLock<bool> = OnceLock::new();
    once(&C, || {
        let d: Vec<u8> = (0..1000u32).map(|i| ((i.wrapping_mul(2654435761) >> 28) as u8 & 7) + 2).collect();
        !rt_nx16(0x01, &d) || !rt_nx16(0x05, &d)
    })
}
pub fn d_aac_empty() -> bool {
    static C: OnceLock<bool> = OnceLock::new();
    once(&C, || !rt_aac(0, &[]))
}
pub fn d_aac_255() -> bool {
    static C: OnceLock<bool> = OnceLock::new();
    once(&C, || !rt_aac(0, &[1, 2, 255, 3]))
}
pub fn d_tok3_tokens127() -> bool {
    static C: OnceLock<bool> = OnceLock::new();
    once(&C, || {
        let mut s: Vec<u8> = (0..127).map(|i| if i % 2 == 0 { b'a' } else { b'-' }).collect();
        s.push(0);
        !rt_tok3(&s)
    })
}
pub fn d_tok3_delta0() -> bool {
    static C: OnceLock<bool> = OnceLock::new();
    once(&C, || !rt_tok3(b"a:5\0a:06\0"))
}
pub fn d_fqz_zero() -> bool {
    static C: OnceLock<bool> = OnceLock::new();
    once(&C, || !rt_fqz(&[3, 0, 3], &[1, 2, 3, 4, 5, 6]))
}

// ================================================================================================
// Byte-string generator shared by the byte codecs

#[derive(Clone, Debug, Serialize, Deserialize, PartialEq)]
pub enum Data {
    /// literal bytes (short inputs; shrink byte-wise)
    Lit(Vec<u8>),
    /// content class × length × seed; `k` is the class parameter (alphabet size, run scale, …)
    Gen { class: u8, len: u32, seed: u32, k: u16 },
}

pub const DATA_CLASSES: [&str; 11] =
    ["one-symbol", "uniform-k", "skewed-k", "runs", "text", "qualities", "all-symbols", "noise", "markov", "norm-stress", "few-symbols"];

fn alphabet(seed: u64, k: usize) -> Vec<u8> {
    let k = k.clamp(1, 256);
    let mut syms: Vec<u8> = (0..=255u8).collect();
    let mut r = XorShift::new(seed ^ 0x0A1F_ABE7);
    for i in 0..k {
        let j = i + (r.next() as usize) % (256 - i);
        syms.swap(i, j);
    }
    syms.truncate(k);
    syms
}

impl Data {
    pub fn class_name(&self) -> &'static str {
        match self {
            Data::Lit(_) => "literal",
            Data::Gen { class, .. } => DATA_CLASSES[(*class as usize) % DATA_CLASSES.len()],
        }
    }

    pub fn expand(&self) -> Vec<u8> {
        let (class, n, seed, k) = match self {
            Data::Lit(v) => return v.clone(),
            Data::Gen { class, len, seed, k } => ((*class as usize) % DATA_CLASSES.len(), *len as usize, *seed as u64, *k as usize),
        };
        let mut r = XorShift::new(seed + 1);
        let mut v: Vec<u8> = Vec::with_capacity(n);
        match class {
            0 => v.resize(n, (seed & 0xff) as u8),
            1 => {
                let a = alphabet(seed, 2 + k % 255);
                for _ in 0..n {
                    v.push(a[(r.next() >> 11) as usize % a.len()]);
                }
            }
            2 => {
                // geometric over the alphabet, with an occasional uniformly drawn rare symbol
                let a = alphabet(seed, 2 + k % 255);
                for _ in 0..n {
                    let x = r.next() >> 7;
                    let idx = if x & 63 == 0 { (x >> 6) as usize % a.len() } else { ((x >> 6).trailing_ones() as usize).min(a.len() - 1) };
                    v.push(a[idx]);
                }
            }
            3 => {
                let a = alphabet(seed, 1 + (seed as usize >> 3) % 9);
                let base = 1 + k % 600;
                while v.len() < n {
                    let x = r.next() >> 5;
                    let sym = a[x as usize % a.len()];
                    let run = if (x >> 8) & 15 == 0 { base * 40 } else { 1 + (x >> 12) as usize % base };
                    let run = run.min(n - v.len());
                    v.resize(v.len() + run, sym);
                }
            }
            4 => {
                const WORDS: [&[u8]; 8] = [b"chr1\t", b"ACGT", b"noodles ", b"0123", b"\n", b"PASS\t", b"GT:DP ", b"NNNN"];
                while v.len() < n {
                    v.extend_from_slice(WORDS[(r.next() >> 9) as usize % 8]);
                }
                v.truncate(n);
            }
            5 => {
                // quality-like: values 0..nsym decaying along reads of 50..150
                let nsym = 1 + k % 94;
                while v.len() < n {
                    let rl = 50 + (r.next() >> 9) as usize % 101;
                    let top = (r.next() >> 9) as usize % nsym;
                    for p in 0..rl {
                        let noise = (r.next() >> 13) as usize % 4;
                        let q = (top * (rl - p) / rl + noise).min(nsym - 1);
                        v.push(q as u8);
                    }
                }
                v.truncate(n);
            }
            6 => {
                let start = (seed & 0xff) as usize;
                for i in 0..n {
                    if i < 256 || i % 3 == 0 {
                        v.push(((start + i) & 0xff) as u8);
                    } else {
                        v.push((r.next() >> 17) as u8);
                    }
                }
            }
            7 => {
                while v.len() < n {
                    v.extend_from_slice(&r.next().to_le_bytes());
                }
                v.truncate(n);
            }
            8 => {
                let a = alphabet(seed, 2 + k % 40);
                let next: Vec<usize> = (0..a.len()).map(|_| (r.next() >> 9) as usize % a.len()).collect();
                let mut cur = 0usize;
                for _ in 0..n {
                    let x = r.next() >> 9;
                    cur = if x & 7 == 0 { (x >> 3) as usize % a.len() } else { next[cur] };
                    v.push(a[cur]);
                }
            }
            9 => {
                // several equally frequent symbols plus every other symbol once: stresses the
                // "+1 for rare symbols, subtract the excess from the most frequent" normalisation
                if n < 512 {
                    for _ in 0..n {
                        v.push((r.next() >> 17) as u8);
                    }
                } else {
                    let order = alphabet(seed, 256);
                    let bigs = 17 + k % 16;
                    let tiny = 256 - bigs;
                    let each = (n - tiny) / bigs;
                    for s in &order[..bigs] {
                        v.resize(v.len() + each, *s);
                    }
                    for s in &order[bigs..] {
                        v.push(*s);
                    }
                    let last = order[0];
                    v.resize(n, last);
                }
            }
            _ => {
                const KS: [usize; 8] = [1, 2, 3, 4, 5, 15, 16, 17];
                let a = alphabet(seed, KS[k % 8]);
                while v.len() < n {
                    let x = r.next() >> 9;
                    if x & 31 == 0 {
                        let run = (1 + (x >> 5) as usize % 40).min(n - v.len());
                        v.resize(v.len() + run, *a.last().unwrap());
                    } else {
                        v.push(a[(x >> 5) as usize % a.len()]);
                    }
                }
            }
        }
        v
    }
}

/// Lengths dense around 0–5 and around the 4-way / 32-way interleave remainders, plus sizes where
/// run lengths and sizes change their uint7 length, else log-uniform up to `max`.
fn codec_len(max: u32) -> BoxedStrategy<u32> {
    let dense: Vec<u32> = [
        0u32, 1, 2, 3, 4, 5, 6, 7, 8, 9, 15, 16, 17, 30, 31, 32, 33, 34, 35, 36, 63, 64, 65, 66, 67, 95, 96, 97, 127, 128, 129, 130, 131, 159, 160, 161, 255, 256, 257, 258, 259, 1023, 1024, 1025, 1026, 1027, 4095, 4096, 4097, 16383,
        16384, 16385, 16386, 16387, 65535, 65536, 65537,
    ]
    .into_iter()
    .filter(|b| *b <= max)
    .collect();
    let log = (0u32..=20, any::<u32>()).prop_map(move |(bits, x)| (x & ((1u32 << (bits + 1)) - 1)).min(max));
    prop_oneof![
        3 => 0u32..=12,
        3 => proptest::sample::select(dense),
        3 => 0u32..=(max.min(140)),
        2 => 0u32..=(max.min(2100)),
        2 => log,
    ]
    .boxed()
}

fn lit_byte() -> BoxedStrategy<u8> {
    prop_oneof![
        3 => proptest::sample::select(vec![0u8, 1, 2, 3, 65, 66, 67, 252, 253, 254, 255]),
        1 => any::<u8>(),
    ]
    .boxed()
}

/// `max`: largest ordinary length; `huge`: also produce (rarely) the ≥100 KiB normalisation-stress
/// and ≥1 MiB single-symbol-dominant inputs.
fn data_strategy(max: u32, huge: bool) -> BoxedStrategy<Data> {
    let lit = proptest::collection::vec(lit_byte(), 0..=40).prop_map(Data::Lit);
    let generated = (0u8..11, codec_len(max), any::<u32>(), any::<u16>()).prop_map(|(class, len, seed, k)| Data::Gen { class, len, seed, k });
    if huge {
        let stress = (100_000u32..160_000, any::<u32>(), any::<u16>()).prop_map(|(len, seed, k)| Data::Gen { class: 9, len, seed, k });
        let mega = (1_048_570u32..1_100_000, any::<u32>(), 0u8..3, any::<u16>()).prop_map(|(len, seed, c, k)| Data::Gen { class: [0u8, 2, 3][c as usize], len, seed, k });
        prop_oneof![30 => lit, 120 => generated, 2 => stress, 1 => mega].boxed()
    } else {
        prop_oneof![1 => lit, 4 => generated].boxed()
    }
}

fn distinct_symbols(x: &[u8]) -> usize {
    let mut seen = [false; 256];
    for b in x {
        seen[*b as usize] = true;
    }
    seen.iter().filter(|s| **s).count()
}

/// The property's non-triviality rule for byte codecs.
fn nontrivial_bytes(x: &[u8]) -> bool {
    x.len() >= 5 && distinct_symbols(x) >= 2
}

fn len_label(n: usize) -> &'static str {
    match n {
        0 => "len=0",
        1..=3 => "len=1..3",
        4..=5 => "len=4..5",
        6..=31 => "len=6..31",
        32..=255 => "len=32..255",
        256..=4095 => "len=256..4095",
        4096..=65535 => "len=4096..65535",
        _ => "len>=65536",
    }
}

fn first_diff(a: &[u8], b: &[u8]) -> Option<usize> {
    a.iter().zip(b.iter()).position(|(x, y)| x != y).or(if a.len() != b.len() { Some(a.len().min(b.len())) } else { None })
}

fn describe_mismatch(what: &str, got: &[u8], want: &[u8]) -> String {
    let d = first_diff(got, want);
    format!("{what}: got {} bytes, expected {} bytes, first difference at {:?}; got[..]={} expected[..]={}", got.len(), want.len(), d, trunc(&format!("{:02x?}", &got[..got.len().min(24)]), 200), trunc(&format!("{:02x?}", &want[..want.len().min(24)]), 200))
}

// ================================================================================================
// Safety net and the frequency-normalisation classes shared by both rANS codecs

/// Cap the address space of this (shard / replay) process once: a runaway allocation inside a codec
/// (see the zero-frequency class below) must abort this process, not exhaust the machine.
pub static NO_MEMORY_LIMIT: std::sync::atomic::AtomicBool = std::sync::atomic::AtomicBool::new(false);

pub fn limit_memory() {
    // (the libFuzzer tier runs under AddressSanitizer, which needs its huge address-space
    // reservation and has its own -rss_limit_mb / -malloc_limit_mb)
    if NO_MEMORY_LIMIT.load(std::sync::atomic::Ordering::Relaxed) {
        return;
    }
    // Called at the start of every case. The soft limit is set relative to what the process maps
    // *now*, so that the outcome of one huge request depends neither on how much is mapped already
    // nor on how much the shard process has grown since it started (symbolisation caches, the
    // engine's own accounting): with 1.5 GiB of headroom a request of 2 GiB or more (a length field
    // turned into 0x7fffffff.. by a mutant) always fails, and the tens of megabytes a legitimate
    // decode needs always fit. Only the soft limit is touched, so it can be moved again.
    let mapped: u64 = std::fs::read_to_string("/proc/self/statm").ok().and_then(|t| t.split_whitespace().next().and_then(|p| p.parse::<u64>().ok())).map(|pages| pages * 4096).unwrap_or(2 << 30);
    let cap = mapped + (3 << 29);
    let mut lim = libc::rlimit { rlim_cur: 0, rlim_max: 0 };
    // SAFETY: plain syscalls with a valid pointer.
    unsafe {
        if libc::getrlimit(libc::RLIMIT_AS, &mut lim) != 0 {
            return;
        }
        lim.rlim_cur = if lim.rlim_max == libc::RLIM_INFINITY { cap } else { cap.min(lim.rlim_max) };
        libc::setrlimit(libc::RLIMIT_AS, &lim);
    }
}

#[derive(Clone, Copy, Debug, PartialEq, Eq)]
enum Norm {
    Fine,
    /// the excess taken from the most frequent symbol equals its frequency: it becomes 0 and the
    /// encoder's renormalisation loop never ends (unbounded allocation)
    Zero,
    /// the excess is larger: unsigned underflow
    Underflow,
    /// count × scale does not fit 32 bits
    MulOverflow,
}

/// What noodles' `normalize_frequencies` does with this histogram (same arithmetic: floor(f·scale/sum)
/// raised to 1, the difference to `scale` added to / taken from the last symbol with the maximal
/// count). Used only to recognise the inputs of a known defect before they are handed to the encoder.
fn norm_outcome(hist: &[u32; 256], scale: u32) -> Norm {
    let sum: u64 = hist.iter().map(|f| *f as u64).sum();
    if sum == 0 {
        return Norm::Fine;
    }
    let mut max = 0u32;
    let mut max_index = 0usize;
    for (i, f) in hist.iter().enumerate() {
        if *f >= max {
            max = *f;
            max_index = i;
        }
    }
    let mut nsum = 0u64;
    let mut gmax = 0u64;
    for (i, f) in hist.iter().enumerate() {
        if *f == 0 {
            continue;
        }
        let prod = *f as u64 * scale as u64;
        if prod > u32::MAX as u64 || sum > u32::MAX as u64 {
            return Norm::MulOverflow;
        }
        let g = (prod / sum).max(1);
        if i == max_index {
            gmax = g;
        }
        nsum += g;
    }
    if nsum > scale as u64 {
        let excess = nsum - scale as u64;
        if excess == gmax {
            return Norm::Zero;
        }
        if excess > gmax {
            return Norm::Underflow;
        }
    }
    Norm::Fine
}

fn hist_of(x: &[u8]) -> [u32; 256] {
    let mut h = [0u32; 256];
    for b in x {
        h[*b as usize] += 1;
    }
    h
}

/// Worst normalisation outcome over the tables the encoders build for `x`: the order-0 histogram,
/// or (order 1) the successor counts of every context, counted the way both encoders do (all
/// adjacent pairs plus the first byte of each of the `n` chunks under context 0).
fn worst_norm(x: &[u8], order1: bool, n: usize, scale: u32) -> Norm {
    let mut worst = Norm::Fine;
    let mut note = |o: Norm| {
        if o == Norm::Zero || (o != Norm::Fine && worst == Norm::Fine) {
            worst = o;
        }
    };
    if !order1 {
        note(norm_outcome(&hist_of(x), scale));
    } else if x.len() >= 2048 {
        let mut t = vec![[0u32; 256]; 256];
        let q = x.len() / n;
        if q > 0 {
            for j in 0..n {
                t[0][x[j * q] as usize] += 1;
            }
        }
        for w in x.windows(2) {
            t[w[0] as usize][w[1] as usize] += 1;
        }
        for row in &t {
            note(norm_outcome(row, scale));
        }
    }
    worst
}

/// Canary of the normalisation defect (safe to run: with overflow checks the neighbouring
/// "underflow" input panics at once): 20 frequent symbols and 233 symbols seen once.
fn norm_canary_input() -> Vec<u8> {
    let mut d = Vec::new();
    for s in 0..20u8 {
        d.resize(d.len() + 5000, s * 2);
    }
    for s in 0..=252u8 {
        if s >= 40 || s % 2 == 1 {
            d.push(s);
        }
    }
    d
}
pub fn d_4x8_norm() -> bool {
    static C: OnceLock<bool> = OnceLock::new();
    once(&C, || {
        // symbol 1 would also trip the symbol-list defect: move it
        let d: Vec<u8> = norm_canary_input().into_iter().map(|b| if b == 1 { 2 } else { b }).collect();
        !rt_4x8(rans_4x8::Order::Zero, &d)
    })
}
pub fn d_nx16_norm() -> bool {
    static C: OnceLock<bool> = OnceLock::new();
    once(&C, || !rt_nx16(0, &norm_canary_input()))
}

// ================================================================================================
// rANS 4x8

#[derive(Clone, Debug, Serialize, Deserialize)]
pub struct R4x8Case {
    pub data: Data,
    /// 0 or 1
    pub order: u8,
    /// remove the symbols that lead into the known symbol-list defects (1 → 2, 254 → 250)
    pub safe: bool,
}

impl R4x8Case {
    pub fn bytes(&self) -> Vec<u8> {
        let mut v = self.data.expand();
        if self.safe {
            for b in v.iter_mut() {
                if *b == 1 {
                    *b = 2;
                } else if *b == 254 {
                    *b = 250;
                }
            }
        }
        v
    }
}

fn r4x8_strategy(tier: Tier) -> BoxedStrategy<R4x8Case> {
    let max = tier.pick(24_000, 300_000);
    (data_strategy(max, true), 0u8..2, prop_oneof![3 => Just(true), 1 => Just(false)]).prop_map(|(data, order, safe)| R4x8Case { data, order, safe }).boxed()
}

/// Symbol sets of every frequency table the 4x8 encoder serialises for `x`: the order-0 table, or
/// (order 1) the list of contexts and the successor set of each context, counted the way the
/// encoder does (all adjacent pairs, plus the first byte of each quarter under context 0).
fn tables_4x8(x: &[u8], order1: bool) -> Vec<[bool; 256]> {
    if !order1 {
        let mut t = [false; 256];
        for b in x {
            t[*b as usize] = true;
        }
        return vec![t];
    }
    let mut succ = vec![[false; 256]; 256];
    let q = x.len() / 4;
    if q > 0 {
        for j in 0..4 {
            succ[0][x[j * q] as usize] = true;
        }
    }
    for w in x.windows(2) {
        succ[w[0] as usize][w[1] as usize] = true;
    }
    let mut ctxs = [false; 256];
    let mut out = Vec::new();
    for (c, s) in succ.iter().enumerate() {
        if s.iter().any(|b| *b) {
            ctxs[c] = true;
            out.push(*s);
        }
    }
    out.push(ctxs);
    out
}

pub fn check_r4x8(c: &R4x8Case) -> Verdict {
    let x = c.bytes();
    let order1 = c.order != 0;
    let order = if order1 { rans_4x8::Order::One } else { rans_4x8::Order::Zero };
    let tables = tables_4x8(&x, order1);
    let cls_a = tables.iter().any(|t| !t[0] && t[1]);
    let cls_b = tables.iter().any(|t| t[253] && t[254] && t[255]);
    let cls_empty = x.is_empty() && !order1;
    let classes: [Class; 3] = [
        (cls_empty, "c08.rans4x8.empty-input", d_4x8_empty),
        (cls_a, "c08.rans4x8.symlist-first-symbol-1", d_4x8_first1),
        (cls_b, "c08.rans4x8.symlist-run-reaching-255", d_4x8_run255),
    ];
    limit_memory();
    let norm = worst_norm(&x, order1, 4, 4095);
    if norm == Norm::Zero && d_4x8_norm() {
        // not handed to the encoder: it would loop forever appending to its output
        return fail1("c08.rans4x8.normalise-zero-frequency", format!("order {}: normalisation leaves the most frequent symbol of a table with frequency 0 ({} input bytes); the encoder's renormalisation loop does not terminate (not executed)", c.order, x.len()));
    }
    let pass = |nontrivial: bool| {
        Pass::new(nontrivial, key_of(c))
            .label_if(norm == Norm::Underflow, "class:normalise-underflow")
            .label_if(norm == Norm::MulOverflow, "class:normalise-multiply-overflow")
            .label(if order1 { "order1" } else { "order0" })
            .label(len_label(x.len()))
            .label(["len%4=0", "len%4=1", "len%4=2", "len%4=3"][x.len() % 4])
            .label(c.data.class_name())
            .label_if(c.safe, "sanitised")
            .label_if(cls_a, "class:first-symbol-1")
            .label_if(cls_b, "class:run-reaching-255")
            .label_if(distinct_symbols(&x) == 256, "all-256-symbols")
    };

    let enc = match guard(|| nv::rans_4x8_encode(order, &x)) {
        Out::Ok(e) => e,
        Out::Err(e) => {
            // documented: "We do not permit Order-1 encoding of data streams smaller than 4 bytes"
            if order1 && x.len() < 4 && e.kind() == io::ErrorKind::InvalidInput {
                return Ok(pass(false).label("order1-short-input-rejected"));
            }
            return fail1(attribute(&classes, "c08.rans4x8.encode-error".into()), format!("encode({:?}, {} bytes) returned an error: {e}", order, x.len()));
        }
        // (the symbol-list classes concern the table writer, which does not panic: no attribution)
        Out::Panic(p) => return fail1(p.sig(), format!("encode({:?}, {} bytes): {}", order, x.len(), p.describe())),
    };

    let mut fails = Fails::new();
    // (1) own round trip
    match guard(|| nv::rans_4x8_decode(&enc)) {
        Out::Ok(y) => {
            if y != x {
                fails.push(attribute(&classes, "c08.rans4x8.roundtrip".into()), describe_mismatch("decode(encode(x))", &y, &x));
            }
        }
        Out::Err(e) => fails.push(attribute(&classes, "c08.rans4x8.decode-error".into()), format!("decode of noodles' own stream ({} bytes for {} input bytes) failed: {e}", enc.len(), x.len())),
        Out::Panic(p) => fails.push(attribute(&classes, p.sig()), format!("decode of noodles' own stream: {}", p.describe())),
    }
    // (2) independent decoder
    let (r, info) = rans_ref::rans4x8_decode(&enc);
    let mut ref_ambiguous = false;
    match r {
        Ok(y) if y == x => {}
        _ if info.ambiguous => ref_ambiguous = true,
        Ok(y) => fails.push(attribute(&classes, "c08.rans4x8.ref-decoder-output".into()), describe_mismatch("reference decoder on noodles' stream", &y, &x)),
        Err(e) => fails.push(attribute(&classes, format!("c08.rans4x8.ref-decoder-{}", e.stage.name())), format!("reference decoder rejects noodles' stream at {}: {}", e.stage.name(), e.msg)),
    }
    // bytes the reference decoder never reads are not an error by the text: counted only
    let trailing = !ref_ambiguous && info.trailing != 0;
    // dedupe identical attributed signatures (own + reference failing for the same known reason)
    fails.0.dedup_by(|a, b| a.sig == b.sig);
    fails.finish(pass(nontrivial_bytes(&x)).label_if(ref_ambiguous, "ref-ambiguous(empty)").label_if(trailing, "unread-trailing-bytes"))
}

// ================================================================================================
// rANS Nx16

pub const NX_ORDER: u8 = 0x01;
pub const NX_N32: u8 = 0x04;
pub const NX_STRIPE: u8 = 0x08;
pub const NX_NOSZ: u8 = 0x10;
pub const NX_CAT: u8 = 0x20;
pub const NX_RLE: u8 = 0x40;
pub const NX_PACK: u8 = 0x80;

#[derive(Clone, Debug, Serialize, Deserialize)]
pub struct FlagCase {
    pub data: Data,
    /// any subset of the seven defined option bits (the reserved bit 0x02 is never set)
    pub flags: u8,
    /// remove the symbol that leads into the known defect of this codec (Nx16: 1 → 2; AAC: 255 → 254)
    pub safe: bool,
}

fn flag_strategy(max: u32, huge: bool) -> BoxedStrategy<FlagCase> {
    let flags = prop_oneof![
        // every subset
        6 => any::<u8>().prop_map(|f| f & !0x02),
        // single flags and the plain codec get extra weight
        2 => proptest::sample::select(vec![0u8, 0x01, 0x04, 0x05, 0x08, 0x10, 0x20, 0x40, 0x41, 0x80, 0x81, 0xc0, 0xc1, 0x44, 0x84, 0xc5]),
    ];
    (data_strategy(max, huge), flags, prop_oneof![3 => Just(true), 1 => Just(false)]).prop_map(|(data, flags, safe)| FlagCase { data, flags, safe }).boxed()
}

fn nx16_strategy(tier: Tier) -> BoxedStrategy<FlagCase> {
    flag_strategy(tier.pick(24_000, 300_000), true)
}

fn flag_labels(mut p: Pass, flags: u8, names: &[(u8, &'static str)]) -> Pass {
    if flags == 0 {
        p = p.label("flags:none");
    }
    for (bit, name) in names {
        if flags & bit != 0 {
            p = p.label(name);
        }
    }
    p
}

pub fn check_nx16(c: &FlagCase) -> Verdict {
    let mut x = c.data.expand();
    if c.safe {
        for b in x.iter_mut() {
            if *b == 1 {
                *b = 2;
            }
        }
    }
    let flags = c.flags & !0x02;
    let n = if flags & NX_N32 != 0 { 32 } else { 4 };
    let base = |nontrivial: bool| {
        let p = Pass::new(nontrivial, key_of(c)).label(len_label(x.len())).label(c.data.class_name()).label_if(c.safe, "sanitised");
        let p = flag_labels(p, flags, &[(NX_ORDER, "ORDER"), (NX_N32, "N32"), (NX_STRIPE, "STRIPE"), (NX_NOSZ, "NO_SIZE"), (NX_CAT, "CAT"), (NX_RLE, "RLE"), (NX_PACK, "PACK")]);
        p.label_if(x.len() % n != 0, "len%N!=0").label_if(x.len() >= n && x.len() < 2 * n, "N<=len<2N").label_if(x.len() < n, "len<N")
    };

    limit_memory();
    // tables of the untransformed input (exact without PACK/RLE; STRIPE codes the four byte-interleaved
    // sub-streams with order 0)
    let norm = if flags & NX_CAT != 0 && flags & NX_STRIPE == 0 {
        Norm::Fine
    } else if flags & NX_STRIPE != 0 {
        let mut w = Norm::Fine;
        for j in 0..4 {
            let subx: Vec<u8> = x.iter().skip(j).step_by(4).copied().collect();
            let o = worst_norm(&subx, false, 4, 4096);
            if o == Norm::Zero || w == Norm::Fine {
                w = o;
            }
        }
        w
    } else {
        worst_norm(&x, flags & NX_ORDER != 0, n, 4096)
    };
    if norm == Norm::Zero && d_nx16_norm() {
        return fail1("c08.nx16.normalise-zero-frequency", format!("flags {flags:#04x}: normalisation leaves the most frequent symbol of a table with frequency 0 ({} input bytes); the encoder's renormalisation loop does not terminate (not executed)", x.len()));
    }
    let enc = match guard(|| nv::rans_nx16_encode(rans_nx16::Flags::from(flags), &x)) {
        Out::Ok(e) => e,
        Out::Err(e) => return fail1("c08.nx16.encode-error", format!("encode(flags {flags:#04x}, {} bytes) returned an error: {e}", x.len())),
        Out::Panic(p) => return fail1(p.sig(), format!("encode(flags {flags:#04x}, {} bytes): {}", x.len(), p.describe())),
    };
    // the independent walk also tells whether the stream contains a symbol list starting with 1
    let ext = if flags & NX_NOSZ != 0 { Some(x.len()) } else { None };
    let (r, info) = rans_ref::nx16_decode(&enc, ext);
    let eff = enc.first().copied().unwrap_or(0);
    // order-1 entropy coding actually used (the encoder falls back to CAT for inputs shorter than N)
    let cls_o1 = eff & NX_ORDER != 0 && eff & (NX_CAT | NX_STRIPE) == 0;
    let classes: [Class; 2] = [(info.symlist_first_1, "c08.nx16.symlist-first-symbol-1", d_nx16_first1), (cls_o1, "c08.nx16.order1-renormalisation-order", d_nx16_order1)];

    let mut fails = Fails::new();
    // (1) own round trip; the size argument is only meaningful with NO_SIZE (the unit tests pass 0)
    let hint = if flags & NX_NOSZ != 0 { x.len() } else { 0 };
    match guard(|| nv::rans_nx16_decode(&enc, hint)) {
        Out::Ok(y) => {
            if y != x {
                fails.push(attribute(&classes, "c08.nx16.roundtrip".into()), describe_mismatch(&format!("decode(encode(x)) flags {flags:#04x}"), &y, &x));
            }
        }
        Out::Err(e) => fails.push(attribute(&classes, "c08.nx16.decode-error".into()), format!("decode of noodles' own stream (flags {flags:#04x}, {} bytes for {} input bytes) failed: {e}", enc.len(), x.len())),
        Out::Panic(p) => fails.push(attribute(&classes, p.sig()), format!("decode of noodles' own stream (flags {flags:#04x}): {}", p.describe())),
    }
    // (2) independent decoder
    let mut ref_ambiguous = false;
    match r {
        Ok(y) if y == x => {}
        _ if info.ambiguous => ref_ambiguous = true,
        Ok(y) => fails.push(attribute(&classes, "c08.nx16.ref-decoder-output".into()), describe_mismatch(&format!("reference decoder on noodles' stream (flags {flags:#04x})"), &y, &x)),
        Err(e) => fails.push(attribute(&classes, format!("c08.nx16.ref-decoder-{}", e.stage.name())), format!("reference decoder rejects noodles' stream (flags {flags:#04x}) at {}: {}", e.stage.name(), e.msg)),
    }
    fails.0.dedup_by(|a, b| a.sig == b.sig);
    fails.finish(
        base(nontrivial_bytes(&x))
            .label_if(cls_o1, "order1-coded")
            .label_if(ref_ambiguous, "ref-ambiguous")
            .label_if(info.symlist_first_1, "class:first-symbol-1")
            .label_if(eff & NX_CAT != 0 && flags & NX_CAT == 0, "encoder-fell-back-to-CAT")
            .label_if(flags & NX_PACK != 0 && eff & NX_PACK == 0 && flags & NX_STRIPE == 0, "encoder-dropped-PACK")
            .label_if(flags & NX_RLE != 0 && eff & NX_RLE == 0 && flags & NX_STRIPE == 0, "encoder-dropped-RLE")
            .label_if(info.trailing != 0, "unread-trailing-bytes")
            .label_if(info.entropy_streams > 0, "entropy-coded"),
    )
}

// ================================================================================================
// Adaptive arithmetic coder

pub const AAC_ORDER: u8 = 0x01;
pub const AAC_EXT: u8 = 0x04;
pub const AAC_STRIPE: u8 = 0x08;
pub const AAC_NOSZ: u8 = 0x10;
pub const AAC_CAT: u8 = 0x20;
pub const AAC_RLE: u8 = 0x40;
pub const AAC_PACK: u8 = 0x80;

fn aac_strategy(tier: Tier) -> BoxedStrategy<FlagCase> {
    flag_strategy(tier.pick(16_000, 200_000), false)
}

/// Bit packing as the specification defines it (symbols mapped to their rank, least significant
/// bits first); `None` when it does not apply (no symbols or more than 16).
fn pack_by_rank(x: &[u8]) -> Option<Vec<u8>> {
    let mut present = [false; 256];
    for b in x {
        present[*b as usize] = true;
    }
    let mut rank = [0u8; 256];
    let mut nsym = 0usize;
    for s in 0..256 {
        if present[s] {
            rank[s] = nsym as u8;
            nsym += 1;
        }
    }
    let per_byte = match nsym {
        0 => return None,
        1 => return Some(Vec::new()),
        2 => 8,
        3..=4 => 4,
        5..=16 => 2,
        _ => return None,
    };
    let bits = 8 / per_byte;
    let mut out = vec![0u8; x.len().div_ceil(per_byte)];
    for (i, b) in x.iter().enumerate() {
        out[i / per_byte] |= rank[*b as usize] << (bits * (i % per_byte));
    }
    Some(out)
}

/// The byte strings that reach one of the adaptive-model coders (order 0/1, with or without RLE)
/// for this input and flag set; empty when the data is stored (CAT) or handed to bzip2 (EXT).
fn aac_coder_inputs(x: &[u8], flags: u8) -> Vec<Vec<u8>> {
    if flags & AAC_STRIPE != 0 {
        return (0..4).map(|j| x.iter().skip(j).step_by(4).copied().collect()).collect();
    }
    let mut src = x.to_vec();
    if flags & AAC_PACK != 0 {
        if let Some(p) = pack_by_rank(x) {
            src = p;
        }
    }
    if flags & (AAC_CAT | AAC_EXT) != 0 { Vec::new() } else { vec![src] }
}

pub fn check_aac(c: &FlagCase) -> Verdict {
    let mut x = c.data.expand();
    if c.safe {
        for b in x.iter_mut() {
            if *b == 255 {
                *b = 254;
            }
        }
    }
    limit_memory();
    let flags = c.flags & !0x02;
    let inputs = aac_coder_inputs(&x, flags);
    let cls_empty = inputs.iter().any(|i| i.is_empty());
    let cls_255 = inputs.iter().any(|i| i.contains(&255));
    let classes: [Class; 2] = [(cls_empty, "c08.aac.empty-coder-input", d_aac_empty), (cls_255, "c08.aac.symbol-255", d_aac_255)];
    let base = |nontrivial: bool| {
        let p = Pass::new(nontrivial, key_of(c)).label(len_label(x.len())).label(c.data.class_name()).label_if(c.safe, "sanitised");
        let p = flag_labels(p, flags, &[(AAC_ORDER, "ORDER"), (AAC_EXT, "EXT"), (AAC_STRIPE, "STRIPE"), (AAC_NOSZ, "NO_SIZE"), (AAC_CAT, "CAT"), (AAC_RLE, "RLE"), (AAC_PACK, "PACK")]);
        p.label_if(cls_empty, "class:empty-coder-input").label_if(cls_255, "class:symbol-255").label_if(!inputs.is_empty(), "model-coded")
    };
    let enc = match guard(|| nv::aac_encode(aac::Flags::from(flags), &x)) {
        Out::Ok(e) => e,
        Out::Err(e) => return fail1(attribute(&classes, "c08.aac.encode-error".into()), format!("encode(flags {flags:#04x}, {} bytes) returned an error: {e}", x.len())),
        Out::Panic(p) => return fail1(attribute(&classes, p.sig()), format!("encode(flags {flags:#04x}, {} bytes): {}", x.len(), p.describe())),
    };
    let hint = if flags & AAC_NOSZ != 0 { x.len() } else { 0 };
    match guard(|| nv::aac_decode(&enc, hint)) {
        Out::Ok(y) => {
            if y != x {
                return fail1(attribute(&classes, "c08.aac.roundtrip".into()), describe_mismatch(&format!("decode(encode(x)) flags {flags:#04x}"), &y, &x));
            }
        }
        Out::Err(e) => return fail1(attribute(&classes, "c08.aac.decode-error".into()), format!("decode of noodles' own stream (flags {flags:#04x}, {} bytes for {} input bytes) failed: {e}", enc.len(), x.len())),
        Out::Panic(p) => return fail1(attribute(&classes, p.sig()), format!("decode of noodles' own stream (flags {flags:#04x}): {}", p.describe())),
    }
    let eff = enc.first().copied().unwrap_or(0);
    Ok(base(nontrivial_bytes(&x)).label_if(flags & AAC_PACK != 0 && eff & AAC_PACK == 0 && flags & AAC_STRIPE == 0, "encoder-dropped-PACK"))
}

// ================================================================================================
// fqzcomp

#[derive(Clone, Debug, Serialize, Deserialize)]
pub enum Lens {
    /// `n` records of the same length (the encoder then stores the length once)
    Equal { n: u16, len: u16 },
    Var(Vec<u32>),
    /// `n` records of the same length with empty records inserted at the given places (per-mille of
    /// the list; 0 = in front of everything): an empty record is legal (a read without qualities)
    /// and interacts with the "all the same length" shortcut of the format
    EqualWithEmpty { n: u16, len: u16, at: Vec<u16> },
}

#[derive(Clone, Debug, Serialize, Deserialize)]
pub struct FqzCase {
    pub lens: Lens,
    /// 0 constant, 1 decaying along the record, 2 uniform, 3 binned (4 levels)
    pub class: u8,
    /// number of distinct quality values available (0 = 256)
    pub nsym: u8,
    pub seed: u32,
    /// keep zero-length records (a known defect class); otherwise they are turned into length 1
    pub allow_zero: bool,
    /// literal quality bytes (libFuzzer tier); the lengths are then cut / extended to partition them
    #[serde(default)]
    pub lit: Option<Vec<u8>>,
}

impl FqzCase {
    pub fn lens(&self) -> Vec<usize> {
        let mut v: Vec<usize> = match &self.lens {
            Lens::Equal { n, len } => vec![*len as usize; (*n as usize).max(1)],
            Lens::Var(v) => v.iter().map(|l| *l as usize).collect(),
            Lens::EqualWithEmpty { n, len, at } => {
                let mut v = vec![(*len as usize).max(1); (*n as usize).max(1)];
                for a in at {
                    let i = (*a as usize % 1001) * (v.len() + 1) / 1001;
                    v.insert(i.min(v.len()), 0);
                }
                v
            }
        };
        if !self.allow_zero && !matches!(self.lens, Lens::EqualWithEmpty { .. }) {
            for l in v.iter_mut() {
                if *l == 0 {
                    *l = 1;
                }
            }
        }
        if let Some(q) = &self.lit {
            let mut out = Vec::new();
            let mut left = q.len();
            for l in v {
                if left == 0 {
                    break;
                }
                let l = l.min(left);
                out.push(l);
                left -= l;
            }
            if left > 0 || out.is_empty() {
                out.push(left);
            }
            return out;
        }
        // the CRAM writer never passes an empty quality block (empty external blocks are dropped)
        if v.iter().sum::<usize>() == 0 {
            v = vec![1];
        }
        v
    }
    pub fn quals(&self, lens: &[usize]) -> Vec<u8> {
        if let Some(q) = &self.lit {
            return q.clone();
        }
        let nsym = if self.nsym == 0 { 256usize } else { self.nsym as usize };
        let mut r = XorShift::new(self.seed as u64 + 77);
        let mut out = Vec::with_capacity(lens.iter().sum());
        let constant = (r.next() >> 9) as usize % nsym;
        for &rl in lens {
            let top = (r.next() >> 9) as usize % nsym;
            for p in 0..rl {
                let x = (r.next() >> 11) as usize;
                let q = match self.class % 4 {
                    0 => constant,
                    1 => (top * (rl - p) / rl + x % 3).min(nsym - 1),
                    2 => x % nsym,
                    _ => [0usize, nsym / 3, 2 * nsym / 3, nsym - 1][x % 4],
                };
                out.push(q as u8);
            }
        }
        out
    }
}

fn fqz_strategy(_tier: Tier) -> BoxedStrategy<FqzCase> {
    let one_len = prop_oneof![
        2 => Just(0u32),
        12 => 1u32..=6,
        12 => 30u32..=160,
        4 => 126u32..=131,
        1 => 1020u32..=1030,
        1 => 1u32..=3000,
    ];
    let lens = prop_oneof![
        3 => (1u16..=60, proptest::sample::select(vec![1u16, 2, 3, 5, 36, 100, 128, 129, 151, 250])).prop_map(|(n, len)| Lens::Equal { n, len }),
        1 => (1u16..=3, 1000u16..=3000).prop_map(|(n, len)| Lens::Equal { n, len }),
        8 => proptest::collection::vec(one_len, 1..=40).prop_map(Lens::Var),
        2 => (1u16..=12, proptest::sample::select(vec![1u16, 2, 5, 10, 36, 100]), proptest::collection::vec(prop_oneof![2 => Just(0u16), 2 => Just(1000u16), 3 => 0u16..=1000], 1..4)).prop_map(|(n, len, at)| Lens::EqualWithEmpty { n, len, at }),
    ];
    let nsym = prop_oneof![1 => Just(1u8), 6 => 2u8..=94, 1 => proptest::sample::select(vec![95u8, 128, 255, 0])];
    (lens, 0u8..4, nsym, any::<u32>(), prop_oneof![1 => Just(false), 1 => Just(true)]).prop_map(|(lens, class, nsym, seed, allow_zero)| FqzCase { lens, class, nsym, seed, allow_zero, lit: None }).boxed()
}

pub fn check_fqz(c: &FqzCase) -> Verdict {
    limit_memory();
    let lens = c.lens();
    let x = c.quals(&lens);
    let total: usize = lens.iter().sum();
    // a zero-length record that is reached while quality bytes remain
    let mut prefix = 0usize;
    let mut cls_zero = false;
    for l in &lens {
        if *l == 0 && prefix < total {
            cls_zero = true;
        }
        prefix += l;
    }
    let classes: [Class; 1] = [(cls_zero, "c08.fqzcomp.zero-length-record", d_fqz_zero)];
    let enc = match guard(|| nv::fqzcomp_encode(&lens, &x)) {
        Out::Ok(e) => e,
        Out::Err(e) => return fail1(attribute(&classes, "c08.fqzcomp.encode-error".into()), format!("encode({} records, {} bytes) returned an error: {e}", lens.len(), x.len())),
        Out::Panic(p) => return fail1(attribute(&classes, p.sig()), format!("encode({} records, {} bytes): {}", lens.len(), x.len(), p.describe())),
    };
    match guard(|| nv::fqzcomp_decode(&enc)) {
        Out::Ok(y) => {
            if y != x {
                return fail1(attribute(&classes, "c08.fqzcomp.roundtrip".into()), describe_mismatch(&format!("decode(encode(x)) with {} records", lens.len()), &y, &x));
            }
        }
        Out::Err(e) => return fail1(attribute(&classes, "c08.fqzcomp.decode-error".into()), format!("decode of noodles' own stream ({} records, {} bytes) failed: {e}", lens.len(), x.len())),
        Out::Panic(p) => return fail1(attribute(&classes, p.sig()), format!("decode of noodles' own stream: {}", p.describe())),
    }
    let equal = lens.windows(2).all(|w| w[0] == w[1]);
    Ok(Pass::new(nontrivial_bytes(&x), key_of(c))
        .label(len_label(x.len()))
        .label(["constant", "decaying", "uniform", "binned"][(c.class % 4) as usize])
        .label_if(equal && lens.len() > 1, "equal-lengths")
        .label_if(!equal, "varying-lengths")
        .label_if(lens.len() == 1, "single-record")
        .label_if(lens.contains(&0), "has-zero-length-record")
        .label_if(cls_zero, "class:zero-length-record")
        .label_if(lens.iter().any(|l| *l > 1023), "record>1023")
        .label_if(lens[0] > 128, "first-record>128")
        .label_if(lens.iter().any(|l| *l == 1), "record-len-1")
        .label_if(c.nsym == 0 || c.nsym > 94, "symbols>94")
        .label_if(c.nsym == 1, "one-symbol"))
}

// ================================================================================================
// Name tokenizer

#[derive(Clone, Debug, Serialize, Deserialize, PartialEq)]
pub enum Tok {
    /// an alphanumeric word from a fixed pool
    Word(u8),
    /// one letter
    Ch(u8),
    /// decimal number without padding
    Num(u32),
    /// decimal number zero-padded to a width
    ZNum(u32, u8),
    /// separator (some are two characters long)
    Sep(u8),
    /// arbitrary non-NUL bytes
    Raw(Vec<u8>),
}

#[derive(Clone, Debug, Serialize, Deserialize, PartialEq)]
pub enum Edit {
    /// add `d` to the selected numeric token
    Delta { pos: u16, d: i32 },
    SetNum { pos: u16, v: u32 },
    /// change the zero padding of the selected numeric token (0 = none)
    Repad { pos: u16, width: u8 },
    SetWord { pos: u16, w: u8 },
    Push(Tok),
    Pop,
    /// repeat the name emitted `back` names ago
    DupBack(u16),
    /// emit an empty name
    Empty,
    /// emit the current name again
    Same,
    /// emit a name made of `n` one-character tokens
    Many(u16),
    /// emit a name that is one alphabetic token of length `n`
    Long(u16),
}

#[derive(Clone, Debug, Serialize, Deserialize)]
pub struct NamesCase {
    pub base: Vec<Tok>,
    /// each edit emits one more name
    pub edits: Vec<Edit>,
    /// render only token kinds whose byte streams cannot start a symbol list with symbol 1
    /// (single characters and numbers; +1 deltas become +2), so that lists of ≥4 names stay outside
    /// the known Nx16 defect
    pub plain: bool,
    /// literal NUL-terminated name list (libFuzzer tier); `base` and `edits` are then ignored
    #[serde(default)]
    pub lit: Option<Vec<u8>>,
}

const WORDS: [&str; 12] = ["read", "I17", "HWI", "xy", "SRR", "ab", "ERR12a", "qq", "flow", "ZZ", "run", "lane"];
const SEPS: [&str; 10] = [":", "_", "#", "/", ".", "-", " ", "::", "/#", "|"];

impl NamesCase {
    fn render(&self, toks: &[Tok]) -> Vec<u8> {
        let mut out = Vec::new();
        for t in toks {
            match t {
                Tok::Word(w) => {
                    if self.plain {
                        out.push(b'a' + w % 26);
                    } else {
                        out.extend_from_slice(WORDS[*w as usize % WORDS.len()].as_bytes());
                    }
                }
                Tok::Ch(b) => out.push(b'A' + b % 26),
                Tok::Num(v) => out.extend_from_slice(v.to_string().as_bytes()),
                Tok::ZNum(v, w) => {
                    let w = if self.plain { (*w).max(2) } else { *w };
                    out.extend_from_slice(format!("{:0width$}", v, width = w as usize).as_bytes());
                }
                Tok::Sep(i) => {
                    let s = SEPS[*i as usize % SEPS.len()].as_bytes();
                    if self.plain {
                        out.push(s[0]);
                    } else {
                        out.extend_from_slice(s);
                    }
                }
                Tok::Raw(b) => {
                    if !self.plain {
                        out.extend(b.iter().map(|x| if *x == 0 { 0x7f } else { *x }));
                    }
                }
            }
        }
        out
    }

    pub fn names(&self) -> Vec<Vec<u8>> {
        if let Some(raw) = &self.lit {
            let body = raw.strip_suffix(&[0]).unwrap_or(raw);
            return body.split(|b| *b == 0).map(|n| n.to_vec()).collect();
        }
        let mut cur = self.base.clone();
        let mut names = vec![self.render(&cur)];
        for e in &self.edits {
            let numeric: Vec<usize> = cur.iter().enumerate().filter(|(_, t)| matches!(t, Tok::Num(_) | Tok::ZNum(..))).map(|(i, _)| i).collect();
            let words: Vec<usize> = cur.iter().enumerate().filter(|(_, t)| matches!(t, Tok::Word(_))).map(|(i, _)| i).collect();
            let mut emit: Option<Vec<u8>> = None;
            match e {
                Edit::Delta { pos, d } => {
                    if !numeric.is_empty() {
                        let d = if self.plain && *d == 1 { 2 } else { *d };
                        let i = numeric[pick_idx(*pos, numeric.len())];
                        cur[i] = match &cur[i] {
                            Tok::Num(v) => Tok::Num(v.saturating_add_signed(d)),
                            Tok::ZNum(v, w) => Tok::ZNum(v.saturating_add_signed(d), *w),
                            other => other.clone(),
                        };
                    }
                }
                Edit::SetNum { pos, v } => {
                    if !numeric.is_empty() {
                        let i = numeric[pick_idx(*pos, numeric.len())];
                        cur[i] = match &cur[i] {
                            Tok::ZNum(_, w) => Tok::ZNum(*v, *w),
                            _ => Tok::Num(*v),
                        };
                    }
                }
                Edit::Repad { pos, width } => {
                    if !numeric.is_empty() {
                        let i = numeric[pick_idx(*pos, numeric.len())];
                        let v = match &cur[i] {
                            Tok::Num(v) | Tok::ZNum(v, _) => *v,
                            _ => 0,
                        };
                        cur[i] = if *width == 0 { Tok::Num(v) } else { Tok::ZNum(v, *width) };
                    }
                }
                Edit::SetWord { pos, w } => {
                    if !words.is_empty() {
                        let i = words[pick_idx(*pos, words.len())];
                        cur[i] = Tok::Word(*w);
                    }
                }
                Edit::Push(t) => cur.push(t.clone()),
                Edit::Pop => {
                    cur.pop();
                }
                Edit::DupBack(back) => {
                    let b = (*back as usize).clamp(1, names.len());
                    emit = Some(names[names.len() - b].clone());
                }
                Edit::Empty => emit = Some(Vec::new()),
                Edit::Same => {}
                Edit::Many(n) => emit = Some((0..*n as usize).map(|i| if i % 2 == 0 { b'a' + (i / 2 % 26) as u8 } else { b':' }).collect()),
                Edit::Long(n) => {
                    if !self.plain {
                        emit = Some((0..*n as usize).map(|i| b'a' + (i % 23) as u8).collect());
                    }
                }
            }
            let name = emit.unwrap_or_else(|| self.render(&cur));
            names.push(name);
        }
        names
    }
}

fn tok_strategy() -> BoxedStrategy<Tok> {
    prop_oneof![
        3 => (0u8..12).prop_map(Tok::Word),
        1 => any::<u8>().prop_map(Tok::Ch),
        4 => prop_oneof![
            3 => 0u32..2000,
            1 => proptest::sample::select(vec![0u32, 1, 9, 10, 99, 254, 255, 256, 65535, 65536, 16843009, 4294967040, 4294967294, 4294967295]),
            1 => any::<u32>(),
        ].prop_map(Tok::Num),
        3 => (prop_oneof![3 => 0u32..2000, 1 => proptest::sample::select(vec![0u32, 9, 99, 999, 4294967295]), 1 => any::<u32>()], 1u8..=12).prop_map(|(v, w)| Tok::ZNum(v, w)),
        6 => (0u8..10).prop_map(Tok::Sep),
        1 => proptest::collection::vec(prop_oneof![4 => 1u8..=255, 1 => proptest::sample::select(vec![1u8, 0x20, 0x7f, 0x80, 0xff])], 1..4).prop_map(Tok::Raw),
    ]
    .boxed()
}

/// Base names mostly alternate alphanumeric tokens and separators (so that numbers stay tokens of
/// their own); arbitrary sequences are mixed in.
fn base_strategy() -> BoxedStrategy<Vec<Tok>> {
    let alnum = prop_oneof![
        2 => (0u8..12).prop_map(Tok::Word),
        4 => (0u32..3000).prop_map(Tok::Num),
        1 => any::<u32>().prop_map(Tok::Num),
        3 => (0u32..3000, 1u8..=9).prop_map(|(v, w)| Tok::ZNum(v, w)),
        1 => any::<u8>().prop_map(Tok::Ch),
    ];
    let alternating = proptest::collection::vec((alnum, (0u8..10).prop_map(Tok::Sep)), 0..8).prop_map(|pairs| {
        let mut v = Vec::new();
        for (a, s) in pairs {
            v.push(a);
            v.push(s);
        }
        v.pop();
        v
    });
    prop_oneof![4 => alternating, 1 => proptest::collection::vec(tok_strategy(), 0..10)].boxed()
}

fn edit_strategy() -> BoxedStrategy<Edit> {
    let d = proptest::sample::select(vec![0i32, 1, 1, 1, 2, 3, 254, 255, 256, 257, 1000, 65536, -1, -2, -255, -256]);
    prop_oneof![
        10 => (any::<u16>(), d).prop_map(|(pos, d)| Edit::Delta { pos, d }),
        2 => (any::<u16>(), prop_oneof![0u32..3000, any::<u32>()]).prop_map(|(pos, v)| Edit::SetNum { pos, v }),
        2 => (any::<u16>(), 0u8..=6).prop_map(|(pos, width)| Edit::Repad { pos, width }),
        2 => (any::<u16>(), 0u8..12).prop_map(|(pos, w)| Edit::SetWord { pos, w }),
        2 => tok_strategy().prop_map(Edit::Push),
        2 => Just(Edit::Pop),
        3 => (1u16..6).prop_map(Edit::DupBack),
        1 => Just(Edit::Empty),
        3 => Just(Edit::Same),
        1 => prop_oneof![6 => 1u16..40, 2 => 120u16..=130, 1 => 1u16..400].prop_map(Edit::Many),
        1 => prop_oneof![3 => 1u16..300, 1 => 250u16..=260].prop_map(Edit::Long),
    ]
    .boxed()
}

fn names_strategy(tier: Tier) -> BoxedStrategy<NamesCase> {
    let max_edits = tier.pick(40usize, 150);
    let edits = prop_oneof![
        2 => proptest::collection::vec(edit_strategy(), 0..=2),
        2 => proptest::collection::vec(edit_strategy(), 3..=12),
        1 => proptest::collection::vec(edit_strategy(), 3..=max_edits),
    ];
    (base_strategy(), edits, any::<bool>()).prop_map(|(base, edits, plain)| NamesCase { base, edits, plain, lit: None }).boxed()
}

/// Maximal runs of ASCII alphanumerics / of everything else (the token boundaries the
/// specification prescribes).
fn split_tokens(name: &[u8]) -> Vec<&[u8]> {
    let mut out = Vec::new();
    let mut start = 0;
    for i in 1..=name.len() {
        if i == name.len() || name[i].is_ascii_alphanumeric() != name[start].is_ascii_alphanumeric() {
            out.push(&name[start..i]);
            start = i;
        }
    }
    out
}

fn parse_dec_u32(t: &[u8]) -> Option<u32> {
    if t.is_empty() || !t.iter().all(|b| b.is_ascii_digit()) {
        return None;
    }
    let mut v: u64 = 0;
    for b in t {
        v = v * 10 + (*b - b'0') as u64;
        if v > u32::MAX as u64 {
            return None;
        }
    }
    Some(v as u32)
}

/// Walk the tokenizer container: is there an Nx16 sub-stream whose symbol list starts with symbol
/// 1, and do all sub-streams decode identically under noodles' decoder and the reference decoder.
fn tok3_walk(enc: &[u8]) -> (bool, u32, Option<String>) {
    let mut first1 = false;
    let mut n = 0u32;
    if enc.len() < 9 {
        return (false, 0, Some("container shorter than its header".into()));
    }
    if enc[8] != 0 {
        return (false, 0, None); // arithmetic-coded sub-streams: no reference decoder here
    }
    let mut p = 9;
    while p < enc.len() {
        let ttype = enc[p];
        p += 1;
        if ttype & 0x40 != 0 {
            p += 2;
            continue;
        }
        let Ok((clen, used)) = varint_ref::uint7_decode(&enc[p.min(enc.len())..]) else {
            return (first1, n, Some("bad sub-stream length".into()));
        };
        p += used;
        let end = p + clen as usize;
        if end > enc.len() {
            return (first1, n, Some("sub-stream exceeds the container".into()));
        }
        let sub = &enc[p..end];
        p = end;
        n += 1;
        let (r, info) = rans_ref::nx16_decode(sub, None);
        first1 |= info.symlist_first_1;
        let own = guard(|| nv::rans_nx16_decode(sub, 0));
        let agree = match (&r, &own) {
            (Ok(a), Out::Ok(b)) => a == b,
            _ => false,
        };
        if !agree && !info.ambiguous {
            let what = match (&r, &own) {
                (Err(e), _) => format!("reference decoder fails at {}: {}", e.stage.name(), e.msg),
                (_, Out::Err(e)) => format!("noodles' Nx16 decoder fails: {e}"),
                (_, Out::Panic(pi)) => format!("noodles' Nx16 decoder panics: {}", pi.describe()),
                _ => "outputs differ".to_string(),
            };
            return (first1, n, Some(format!("sub-stream {n} (type byte {ttype:#04x}, {} bytes): {what}", sub.len())));
        }
    }
    (first1, n, None)
}

pub fn check_names(c: &NamesCase) -> Verdict {
    limit_memory();
    let names = c.names();
    let mut x = Vec::new();
    for nme in &names {
        x.extend_from_slice(nme);
        x.push(0);
    }
    let toks: Vec<Vec<&[u8]>> = names.iter().map(|n| split_tokens(n)).collect();
    let max_tokens = toks.iter().map(|t| t.len()).max().unwrap_or(0);
    let cls_many = max_tokens >= 127;
    let mut cls_delta0 = false;
    for w in toks.windows(2) {
        for (tp, tc) in w[0].iter().zip(w[1].iter()) {
            if tc.len() >= 2 && tc[0] == b'0' && tp[0] != b'0' && tp != tc {
                if let (Some(a), Some(b)) = (parse_dec_u32(tp), parse_dec_u32(tc)) {
                    if b >= a && b - a <= 255 {
                        cls_delta0 = true;
                    }
                }
            }
        }
    }
    let cls_wide = toks.iter().flatten().any(|t| t.len() > 255 && t[0] == b'0' && parse_dec_u32(t).is_some());
    let dup = names.iter().enumerate().any(|(i, n)| names[..i].contains(n));

    let pass = |nontrivial: bool| {
        Pass::new(nontrivial, key_of(c))
            .label(match names.len() {
                1 => "names=1",
                2..=3 => "names=2..3",
                4..=15 => "names=4..15",
                _ => "names>=16",
            })
            .label_if(c.plain, "plain-tokens")
            .label_if(dup, "has-duplicate-name")
            .label_if(names.iter().any(|n| n.is_empty()), "has-empty-name")
            .label_if(max_tokens >= 40, "name>=40-tokens")
            .label_if(names.iter().any(|n| n.len() > 254), "name>254-bytes")
            .label_if(toks.windows(2).any(|w| w[0].len() != w[1].len()), "token-count-changes")
            .label_if(toks.iter().flatten().any(|t| t.len() >= 2 && t[0] == b'0' && t.iter().all(|b| b.is_ascii_digit())), "zero-padded-digits")
            .label_if(names.iter().any(|n| n.iter().any(|b| *b >= 0x80)), "non-ascii")
            .label_if(cls_many, "class:>=127-tokens")
            .label_if(cls_delta0, "class:delta-onto-zero-padded")
    };

    let enc = match guard(|| nv::name_tokenizer_encode(&x)) {
        Out::Ok(e) => e,
        Out::Err(e) => {
            // the encoder validates the width of a zero-padded number (u8) and says so
            if cls_wide && e.kind() == io::ErrorKind::InvalidInput {
                return Ok(pass(false).label("rejected:zero-padded-number-wider-than-255"));
            }
            return fail1("c08.tok3.encode-error", format!("encode({} names, {} bytes) returned an error: {e}", names.len(), x.len()));
        }
        Out::Panic(p) => return fail1(p.sig(), format!("encode({} names): {}", names.len(), p.describe())),
    };
    let (first1, nsub, walk_err) = tok3_walk(&enc);
    let classes: [Class; 3] = [
        (first1, "c08.tok3.nx16-symlist-first-symbol-1", d_nx16_first1),
        (cls_many, "c08.tok3.name-with-127-or-more-tokens", d_tok3_tokens127),
        (cls_delta0, "c08.tok3.delta-onto-zero-padded-number", d_tok3_delta0),
    ];
    let mut fails = Fails::new();
    if let Some(e) = walk_err {
        fails.push(attribute(&classes[..1], "c08.tok3.substream-ref-disagrees".into()), e);
    }
    match guard(|| nv::name_tokenizer_decode(&enc)) {
        Out::Ok(y) => {
            if y != x {
                fails.push(attribute(&classes, "c08.tok3.roundtrip".into()), describe_mismatch(&format!("decode(encode(x)) with {} names", names.len()), &y, &x));
            }
        }
        Out::Err(e) => fails.push(attribute(&classes, "c08.tok3.decode-error".into()), format!("decode of noodles' own stream ({} names, {} bytes) failed: {e}", names.len(), x.len())),
        Out::Panic(p) => fails.push(attribute(&classes, p.sig()), format!("decode of noodles' own stream ({} names): {}", names.len(), p.describe())),
    }
    fails.0.dedup_by(|a, b| a.sig == b.sig);
    let ulen = enc.get(..4).map(|b| u32::from_le_bytes([b[0], b[1], b[2], b[3]]) as usize).unwrap_or(usize::MAX - 1);
    fails.finish(
        pass(names.len() >= 2 && nontrivial_bytes(&x))
            .label_if(first1, "class:nx16-first-symbol-1")
            .label_if(nsub >= 8, "substreams>=8")
            // the header's `ulen` field is one short of the buffer length (the final NUL is stripped
            // before it is measured); noodles' decoder uses it only as a capacity hint. Not asserted.
            .label_if(ulen + 1 == x.len(), "observed:header-ulen=len-1")
            .label_if(ulen == x.len(), "observed:header-ulen=len"),
    )
}

// ================================================================================================
// gzip / bzip2 / lzma

#[derive(Clone, Debug, Serialize, Deserialize)]
pub struct GeneralCase {
    /// 0 gzip, 1 bzip2, 2 lzma (xz container)
    pub codec: u8,
    pub level: u8,
    pub data: Data,
}

fn general_strategy(tier: Tier) -> BoxedStrategy<GeneralCase> {
    let max = tier.pick(40_000, 400_000);
    // xz presets above 6 allocate hundreds of MiB per call: rare, thorough only
    let xz_max = tier.pick(6u8, 9);
    let codec_level = prop_oneof![
        16 => (0u8..=9).prop_map(|l| (0u8, l)),
        16 => (1u8..=9).prop_map(|l| (1u8, l)),
        15 => (0u8..=6).prop_map(|l| (2u8, l)),
        1 => (6u8..=xz_max).prop_map(|l| (2u8, l)),
    ];
    (codec_level, data_strategy(max, false)).prop_map(|((codec, level), data)| GeneralCase { codec, level, data }).boxed()
}

/// Independent gzip reader: RFC 1952 member header by hand, DEFLATE by miniz_oxide, CRC by
/// crc32fast (noodles uses flate2 with zlib-rs).
fn gunzip_independent(src: &[u8]) -> Result<Vec<u8>, String> {
    if src.len() < 18 || src[0] != 0x1f || src[1] != 0x8b || src[2] != 8 {
        return Err("not a gzip member".into());
    }
    let flg = src[3];
    let mut p = 10usize;
    if flg & 4 != 0 {
        let xlen = u16::from_le_bytes([*src.get(p).ok_or("eof")?, *src.get(p + 1).ok_or("eof")?]) as usize;
        p += 2 + xlen;
    }
    for bit in [8u8, 16] {
        if flg & bit != 0 {
            while *src.get(p).ok_or("eof in header string")? != 0 {
                p += 1;
            }
            p += 1;
        }
    }
    if flg & 2 != 0 {
        p += 2;
    }
    if p + 8 > src.len() {
        return Err("truncated".into());
    }
    let body = &src[p..src.len() - 8];
    let out = miniz_oxide::inflate::decompress_to_vec(body).map_err(|e| format!("inflate: {e:?}"))?;
    let crc = u32::from_le_bytes(src[src.len() - 8..src.len() - 4].try_into().unwrap());
    let isize = u32::from_le_bytes(src[src.len() - 4..].try_into().unwrap());
    if crc != crc32fast::hash(&out) {
        return Err("CRC32 mismatch".into());
    }
    if isize != out.len() as u32 {
        return Err("ISIZE mismatch".into());
    }
    Ok(out)
}

mod py {
    //! bz2 / lzma of CPython in a persistent subprocess (thorough tier only).
    use std::io::{BufRead, BufReader, Write};
    use std::process::{Child, ChildStdin, ChildStdout, Command, Stdio};
    use std::sync::Mutex;

    const SCRIPT: &str = r#"
import sys, bz2, lzma, struct, zlib
inp = sys.stdin.buffer
while True:
    h = inp.read(9)
    if len(h) < 9:
        break
    kind = h[0]
    n = struct.unpack('<Q', h[1:])[0]
    data = inp.read(n)
    try:
        out = bz2.decompress(data) if kind == 1 else lzma.decompress(data, format=lzma.FORMAT_XZ)
        sys.stdout.write('ok %d %d\n' % (len(out), zlib.crc32(out) & 0xffffffff))
    except Exception as e:
        sys.stdout.write('err %s\n' % (str(e).replace('\n', ' '),))
    sys.stdout.flush()
"#;

    struct Proc {
        _child: Child,
        stdin: ChildStdin,
        stdout: BufReader<ChildStdout>,
    }
    static PROC: Mutex<Option<Option<Proc>>> = Mutex::new(None);

    /// `Ok((len, crc32))`, `Err("unavailable…")` when python cannot be used, other `Err` = rejected.
    pub fn decompress_summary(kind: u8, data: &[u8]) -> Result<(u64, u32), String> {
        let mut g = PROC.lock().map_err(|_| "unavailable: poisoned".to_string())?;
        if g.is_none() {
            let spawned = Command::new("python3").arg("-c").arg(SCRIPT).stdin(Stdio::piped()).stdout(Stdio::piped()).stderr(Stdio::null()).spawn().ok().and_then(|mut c| {
                let stdin = c.stdin.take()?;
                let stdout = BufReader::new(c.stdout.take()?);
                Some(Proc { _child: c, stdin, stdout })
            });
            *g = Some(spawned);
        }
        let Some(Some(p)) = g.as_mut() else { return Err("unavailable: python3 did not start".into()) };
        let mut hdr = vec![kind];
        hdr.extend_from_slice(&(data.len() as u64).to_le_bytes());
        if p.stdin.write_all(&hdr).and_then(|_| p.stdin.write_all(data)).and_then(|_| p.stdin.flush()).is_err() {
            *g = Some(None);
            return Err("unavailable: write to python failed".into());
        }
        let mut line = String::new();
        if p.stdout.read_line(&mut line).unwrap_or(0) == 0 {
            *g = Some(None);
            return Err("unavailable: python closed".into());
        }
        let line = line.trim();
        if let Some(rest) = line.strip_prefix("ok ") {
            let mut it = rest.split(' ');
            let len = it.next().and_then(|s| s.parse().ok()).ok_or("unavailable: bad reply")?;
            let crc = it.next().and_then(|s| s.parse().ok()).ok_or("unavailable: bad reply")?;
            Ok((len, crc))
        } else {
            Err(line.to_string())
        }
    }
}

pub fn check_general(c: &GeneralCase) -> Verdict {
    limit_memory();
    let x = c.data.expand();
    let codec = c.codec % 3;
    let name = ["gzip", "bzip2", "lzma"][codec as usize];
    let level = match codec {
        0 => c.level.min(9),
        1 => c.level.clamp(1, 9),
        _ => c.level.min(9),
    };
    let enc = match guard(|| match codec {
        0 => nv::gzip_encode(flate2::Compression::new(level as u32), &x),
        1 => nv::bzip2_encode(bzip2::Compression::new(level as u32), &x),
        _ => nv::lzma_encode(level as u32, &x),
    }) {
        Out::Ok(e) => e,
        Out::Err(e) => return fail1(format!("c08.{name}.encode-error"), format!("{name} level {level}, {} bytes: {e}", x.len())),
        Out::Panic(p) => return fail1(p.sig(), format!("{name} encode level {level}: {}", p.describe())),
    };
    let mut y = vec![0xa5u8; x.len()];
    match guard(|| match codec {
        0 => nv::gzip_decode(&enc, &mut y),
        1 => nv::bzip2_decode(&enc, &mut y),
        _ => nv::lzma_decode(&enc, &mut y),
    }) {
        Out::Ok(()) => {}
        Out::Err(e) => return fail1(format!("c08.{name}.decode-error"), format!("{name} level {level}: decode of noodles' own stream ({} → {} bytes) failed: {e}", x.len(), enc.len())),
        Out::Panic(p) => return fail1(p.sig(), format!("{name} decode: {}", p.describe())),
    }
    if y != x {
        return fail1(format!("c08.{name}.roundtrip"), describe_mismatch(&format!("{name} level {level} decode(encode(x))"), &y, &x));
    }
    let mut independent = false;
    if codec == 0 {
        match gunzip_independent(&enc) {
            Ok(z) => {
                if z != x {
                    return fail1("c08.gzip.independent-inflate", describe_mismatch("independent gunzip of noodles' stream", &z, &x));
                }
                independent = true;
            }
            Err(e) => return fail1("c08.gzip.independent-inflate", format!("independent gunzip rejects noodles' stream: {e}")),
        }
    } else if env().tier == Tier::Thorough {
        match py::decompress_summary(codec, &enc) {
            Ok((len, crc)) => {
                if len != x.len() as u64 || crc != crc32fast::hash(&x) {
                    return fail1(format!("c08.{name}.python"), format!("CPython decompresses noodles' {name} stream to {len} bytes crc {crc:08x}, expected {} bytes crc {:08x}", x.len(), crc32fast::hash(&x)));
                }
                independent = true;
            }
            Err(e) if e.starts_with("unavailable") => {}
            Err(e) => return fail1(format!("c08.{name}.python"), format!("CPython rejects noodles' {name} stream: {e}")),
        }
    }
    Ok(Pass::new(nontrivial_bytes(&x), key_of(c))
        .label(name)
        .label(len_label(x.len()))
        .label(c.data.class_name())
        .label_if(level == 0, "level0")
        .label_if(level >= 7, "level>=7")
        .label_if(independent, "second-implementation-checked"))
}

// ================================================================================================
// ITF8 / LTF8 / uint7

fn int_fail(sig: &str, msg: String) -> Vec<Fail> {
    vec![Fail::new(sig, msg)]
}

/// One ITF8 value: bytes equal to the specification's, and read back (followed by a sentinel byte
/// that must stay unread) as the same value.
pub fn itf8_one(v: i32, buf: &mut Vec<u8>) -> Result<(), Vec<Fail>> {
    buf.clear();
    if let Err(e) = nv::write_itf8(buf, v) {
        return Err(int_fail("c08.itf8.write-error", format!("write_itf8({v}) failed: {e}")));
    }
    let (want, n) = varint_ref::itf8_bytes(v);
    if buf[..] != want[..n] {
        return Err(int_fail("c08.itf8.bytes", format!("write_itf8({v}) = {:02x?}, the specification gives {:02x?}", buf, &want[..n])));
    }
    buf.push(0xa5);
    let mut src = &buf[..];
    match nv::read_itf8(&mut src) {
        Ok(back) if back == v && src.len() == 1 => Ok(()),
        Ok(back) => Err(int_fail("c08.itf8.roundtrip", format!("read_itf8(write_itf8({v})) = {back}, {} bytes left unread (1 expected)", src.len()))),
        Err(e) => Err(int_fail("c08.itf8.read-error", format!("read_itf8 of {:02x?} failed: {e}", buf))),
    }
}

pub fn uint7_one(v: u32, buf: &mut Vec<u8>) -> Result<(), Vec<Fail>> {
    buf.clear();
    if let Err(e) = nv::write_uint7(buf, v) {
        return Err(int_fail("c08.uint7.write-error", format!("write_uint7({v}) failed: {e}")));
    }
    let (want, n) = varint_ref::uint7_bytes(v);
    if buf[..] != want[..n] {
        return Err(int_fail("c08.uint7.bytes", format!("write_uint7({v}) = {:02x?}, the specification gives {:02x?}", buf, &want[..n])));
    }
    buf.push(0xa5);
    let mut src = &buf[..];
    match nv::read_uint7(&mut src) {
        Ok(back) if back == v && src.len() == 1 => Ok(()),
        Ok(back) => Err(int_fail("c08.uint7.roundtrip", format!("read_uint7(write_uint7({v})) = {back}, {} bytes left unread (1 expected)", src.len()))),
        Err(e) => Err(int_fail("c08.uint7.read-error", format!("read_uint7 of {:02x?} failed: {e}", buf))),
    }
}

pub fn ltf8_one(v: i64, buf: &mut Vec<u8>) -> Result<(), Vec<Fail>> {
    buf.clear();
    if let Err(e) = nv::write_ltf8(buf, v) {
        return Err(int_fail("c08.ltf8.write-error", format!("write_ltf8({v}) failed: {e}")));
    }
    let (want, n) = varint_ref::ltf8_bytes(v);
    if buf[..] != want[..n] {
        return Err(int_fail("c08.ltf8.bytes", format!("write_ltf8({v}) = {:02x?}, the specification gives {:02x?}", buf, &want[..n])));
    }
    buf.push(0xa5);
    let mut src = &buf[..];
    match nv::read_ltf8(&mut src) {
        Ok(back) if back == v && src.len() == 1 => Ok(()),
        Ok(back) => Err(int_fail("c08.ltf8.roundtrip", format!("read_ltf8(write_ltf8({v})) = {back}, {} bytes left unread (1 expected)", src.len()))),
        Err(e) => Err(int_fail("c08.ltf8.read-error", format!("read_ltf8 of {:02x?} failed: {e}", buf))),
    }
}

const U32_BOUNDARIES: [u32; 7] = [0, 0x80, 0x4000, 0x20_0000, 0x1000_0000, 0x8000_0000, 0xffff_ffff];

/// Sweep `count` consecutive 32-bit patterns starting at `from` (wrapping) through `one`; records
/// one pass for the whole range or the first failing value.
fn sweep_u32(rec: &mut Recorder, kind: &'static str, label: &'static str, from: u32, count: u64, one: &dyn Fn(u32, &mut Vec<u8>) -> Result<(), Vec<Fail>>) -> bool {
    let mut buf = Vec::with_capacity(16);
    let mut v = from;
    for _ in 0..count {
        if let Err(f) = one(v, &mut buf) {
            let val = v;
            return rec.record(&|| serde_json::json!({"kind": kind, "value": val}), Err(f));
        }
        v = v.wrapping_add(1);
    }
    rec.record(&|| serde_json::json!({"kind": kind, "from": from, "count": count}), Ok(Pass::new(true, mix(fnv(kind.as_bytes()), ((from as u64) << 32) ^ count)).evals(count).label(label)))
}

fn run_u32_space(sc: &ShardCtx, rec: &mut Recorder, kind: &'static str, one: &dyn Fn(u32, &mut Vec<u8>) -> Result<(), Vec<Fail>>) {
    let (s, n) = (sc.shard as u64, sc.nshards.max(1) as u64);
    if sc.tier == Tier::Thorough {
        // the whole space in 1024 chunks of 2^22 patterns
        for chunk in (0..1024u64).filter(|c| c % n == s) {
            if !sweep_u32(rec, kind, "exhaustive-chunk", (chunk << 22) as u32, 1 << 22, one) {
                return;
            }
        }
        return;
    }
    // quick: ±2^16 around every length-class boundary and the sign boundary …
    for (i, b) in U32_BOUNDARIES.iter().enumerate() {
        if i as u64 % n == s && !sweep_u32(rec, kind, "boundary-window", b.wrapping_sub(1 << 16), 1 << 17, one) {
            return;
        }
    }
    // … every ±2^k ± {0,1,2} …
    if s == 0 {
        let mut buf = Vec::new();
        let mut cnt = 0u64;
        for k in 0..32u32 {
            for sign in [1i64, -1] {
                for d in -2i64..=2 {
                    let v = (sign * (1i64 << k) + d) as u32;
                    cnt += 1;
                    if let Err(f) = one(v, &mut buf) {
                        rec.record(&|| serde_json::json!({"kind": kind, "value": v}), Err(f));
                        return;
                    }
                }
            }
        }
        if !rec.record(&|| serde_json::json!({"kind": kind, "set": "±2^k±{0,1,2}"}), Ok(Pass::new(true, mix(fnv(kind.as_bytes()), 0x2222)).evals(cnt).label("powers-of-two±2"))) {
            return;
        }
    }
    // … and a stratified sample: 8 patterns in each of the 2^20 blocks of 4096 (offsets from the seed)
    let mut r = XorShift::new(sc.seed ^ 0x17f8);
    for block0 in (0..(1u64 << 20)).step_by(1 << 12).filter(|b| (b >> 12) % n == s) {
        let mut buf = Vec::new();
        let mut cnt = 0u64;
        for block in block0..block0 + (1 << 12) {
            let x = r.next();
            for j in 0..8 {
                let v = ((block << 12) | ((x >> (12 * j % 52)) & 0xfff)) as u32;
                cnt += 1;
                if let Err(f) = one(v, &mut buf) {
                    rec.record(&|| serde_json::json!({"kind": kind, "value": v}), Err(f));
                    return;
                }
            }
        }
        if !rec.record(&|| serde_json::json!({"kind": kind, "stratified_blocks_from": block0, "seed": sc.seed}), Ok(Pass::new(true, mix(fnv(kind.as_bytes()), block0 ^ sc.seed)).evals(cnt).label("stratified-sample"))) {
            return;
        }
    }
}

fn run_itf8(sc: &ShardCtx, rec: &mut Recorder) {
    run_u32_space(sc, rec, "itf8", &|v, buf| itf8_one(v as i32, buf));
}

fn run_uint7(sc: &ShardCtx, rec: &mut Recorder) {
    run_u32_space(sc, rec, "uint7", &|v, buf| uint7_one(v, buf));
}

fn run_ltf8(sc: &ShardCtx, rec: &mut Recorder) {
    let (s, n) = (sc.shard as u64, sc.nshards.max(1) as u64);
    let mut buf = Vec::new();
    macro_rules! one {
        ($v:expr) => {{
            let v: i64 = $v;
            if let Err(f) = ltf8_one(v, &mut buf) {
                rec.record(&|| serde_json::json!({"kind": "ltf8", "value": v}), Err(f));
                return;
            }
        }};
    }
    if s == 0 {
        let mut cnt = 0u64;
        for k in 0..64u32 {
            for sign in [1i128, -1] {
                for d in -2i128..=2 {
                    one!((sign * (1i128 << k) + d) as i64);
                    cnt += 1;
                }
            }
        }
        if !rec.record(&|| serde_json::json!({"kind": "ltf8", "set": "±2^k±{0,1,2}"}), Ok(Pass::new(true, 0x17f8_0001).evals(cnt).label("powers-of-two±2"))) {
            return;
        }
    }
    // ±2^12 around every length-class boundary 2^(7k) (k = 1..8), around 0 and around the sign flip
    let mut boundaries: Vec<u64> = (1..=8u32).map(|k| 1u64 << (7 * k)).collect();
    boundaries.push(0);
    boundaries.push(1u64 << 63);
    for (i, b) in boundaries.iter().enumerate() {
        if i as u64 % n != s {
            continue;
        }
        let mut cnt = 0u64;
        for off in 0..(1u64 << 13) {
            one!(b.wrapping_sub(1 << 12).wrapping_add(off) as i64);
            cnt += 1;
        }
        let b = *b;
        if !rec.record(&|| serde_json::json!({"kind": "ltf8", "window_around": b}), Ok(Pass::new(true, mix(0x17f8_0002, b)).evals(cnt).label("boundary-window"))) {
            return;
        }
    }
    // random: bit length uniform in 1..=64, both signs; quick 2·10^6, thorough 10^7 in total
    let total = sc.tier.pick(2_000_000u64, 10_000_000);
    let mine = total / n;
    let mut r = XorShift::new(sc.seed ^ 0x17f8_0003);
    let mut done = 0u64;
    while done < mine {
        let batch = (mine - done).min(1 << 18);
        for _ in 0..batch {
            let bits = 1 + (r.next() >> 20) % 64;
            let x = r.next();
            let m = if bits == 64 { x } else { x & ((1u64 << bits) - 1) };
            let v = if r.next() & 0x100 != 0 { m as i64 } else { (m as i64).wrapping_neg() };
            one!(v);
        }
        done += batch;
        let (seed, d) = (sc.seed, done);
        if !rec.record(&|| serde_json::json!({"kind": "ltf8", "random_upto": d, "seed": seed, "shard": s}), Ok(Pass::new(true, mix(mix(0x17f8_0004, seed), (s << 40) ^ d)).evals(batch).label("random"))) {
            return;
        }
    }
}

fn replay_int(case: &serde_json::Value) -> Verdict {
    let kind = case.get("kind").and_then(|k| k.as_str()).unwrap_or("");
    let mut buf = Vec::new();
    let pass = Ok(Pass::new(true, key_of(case)));
    let Some(value) = case.get("value") else {
        // a range / set record of a passing run: re-run ranges, accept the rest
        if let (Some(from), Some(count)) = (case.get("from").and_then(|v| v.as_u64()), case.get("count").and_then(|v| v.as_u64())) {
            let mut v = from as u32;
            for _ in 0..count {
                match kind {
                    "itf8" => itf8_one(v as i32, &mut buf)?,
                    "uint7" => uint7_one(v, &mut buf)?,
                    _ => {}
                }
                v = v.wrapping_add(1);
            }
        }
        return pass;
    };
    match kind {
        "itf8" => itf8_one(value.as_i64().or(value.as_u64().map(|u| u as i64)).unwrap_or(0) as u32 as i32, &mut buf)?,
        "uint7" => uint7_one(value.as_u64().unwrap_or(0) as u32, &mut buf)?,
        "ltf8" => ltf8_one(value.as_i64().unwrap_or(0), &mut buf)?,
        other => return fail1("c08.int.replay", format!("unknown integer kind {other:?}")),
    }
    pass
}

// ================================================================================================
// Reference pins

fn run_pins(_sc: &ShardCtx, rec: &mut Recorder) {
    // a reference that does not reproduce the golden vectors must not judge anything: harness error
    if let Err(e) = varint_ref::self_test() {
        panic!("varint_ref self test failed: {e}");
    }
    if let Err(e) = rans_ref::self_test() {
        panic!("rans_ref self test failed: {e}");
    }
    // noodles' decoders on the same transcribed vectors are covered by its own unit tests; here only
    // the canaries are evaluated once so that the evidence shows which known defects are present
    let canaries: [(&'static str, fn() -> bool); 12] = [
        ("defect-present:rans4x8.normalise-excess", d_4x8_norm),
        ("defect-present:nx16.normalise-excess", d_nx16_norm),
        ("defect-present:nx16.order1-renormalisation-order", d_nx16_order1),
        ("defect-present:rans4x8.symlist-first-symbol-1", d_4x8_first1),
        ("defect-present:rans4x8.symlist-run-reaching-255", d_4x8_run255),
        ("defect-present:rans4x8.empty-input", d_4x8_empty),
        ("defect-present:nx16.symlist-first-symbol-1", d_nx16_first1),
        ("defect-present:aac.empty-coder-input", d_aac_empty),
        ("defect-present:aac.symbol-255", d_aac_255),
        ("defect-present:tok3.name-with-127-or-more-tokens", d_tok3_tokens127),
        ("defect-present:tok3.delta-onto-zero-padded-number", d_tok3_delta0),
        ("defect-present:fqzcomp.zero-length-record", d_fqz_zero),
    ];
    let mut p = Pass::new(true, 0xC08).label("reference-pins-ok");
    for (label, f) in canaries {
        if f() {
            p = p.label(label);
        }
    }
    rec.record(&|| serde_json::json!({"pins": "varint_ref + rans_ref golden vectors"}), Ok(p));
}

fn replay_pins(_case: &serde_json::Value) -> Verdict {
    varint_ref::self_test().map_err(|e| vec![Fail::new("c08.pins", e)])?;
    rans_ref::self_test().map_err(|e| vec![Fail::new("c08.pins", e)])?;
    Ok(Pass::new(true, 0xC08))
}

// ================================================================================================
// Decoder entry point shared with C15

/// Block compression method ids of the CRAM specification (1 gzip, 2 bzip2, 3 lzma, 4 rANS 4x8,
/// 5 rANS Nx16, 6 adaptive arithmetic coder, 7 fqzcomp, 8 name tokenizer), plus 16 ITF8, 17 LTF8,
/// 18 uint7. Calls the corresponding noodles decoder on arbitrary bytes; `size_hint` is the
/// uncompressed size a container would announce (output buffer size for gzip/bzip2/lzma, external
/// size for Nx16 / AAC streams with NO_SIZE). Panics are NOT caught here.
pub fn decode_arbitrary(codec_id: u8, bytes: &[u8], size_hint: usize) -> Result<Vec<u8>, String> {
    let size_hint = size_hint.min(1 << 24);
    let r: io::Result<Vec<u8>> = match codec_id {
        1 => {
            let mut dst = vec![0u8; size_hint];
            nv::gzip_decode(bytes, &mut dst).map(|_| dst)
        }
        2 => {
            let mut dst = vec![0u8; size_hint];
            nv::bzip2_decode(bytes, &mut dst).map(|_| dst)
        }
        3 => {
            let mut dst = vec![0u8; size_hint];
            nv::lzma_decode(bytes, &mut dst).map(|_| dst)
        }
        4 => nv::rans_4x8_decode(bytes),
        5 => nv::rans_nx16_decode(bytes, size_hint),
        6 => nv::aac_decode(bytes, size_hint),
        7 => nv::fqzcomp_decode(bytes),
        8 => nv::name_tokenizer_decode(bytes),
        16 => nv::read_itf8(&mut &bytes[..]).map(|v| v.to_le_bytes().to_vec()),
        17 => nv::read_ltf8(&mut &bytes[..]).map(|v| v.to_le_bytes().to_vec()),
        18 => nv::read_uint7(&mut &bytes[..]).map(|v| v.to_le_bytes().to_vec()),
        other => return Err(format!("unknown codec id {other}")),
    };
    r.map_err(|e| e.to_string())
}

/// The codec ids `decode_arbitrary` understands.
pub const DECODE_ARBITRARY_IDS: [u8; 11] = [1, 2, 3, 4, 5, 6, 7, 8, 16, 17, 18];

/// Uncompressed size a stream announces for itself at the top level, where the format has one
/// (lets a caller skip "decompression bomb" inputs before handing them to `decode_arbitrary`).
pub fn declared_size(codec_id: u8, bytes: &[u8]) -> Option<u64> {
    match codec_id {
        4 => bytes.get(5..9).map(|b| u32::from_le_bytes([b[0], b[1], b[2], b[3]]) as u64),
        5 | 6 => {
            let flags = *bytes.first()?;
            if flags & 0x10 != 0 { None } else { varint_ref::uint7_decode(&bytes[1..]).ok().map(|(v, _)| v as u64) }
        }
        7 => varint_ref::uint7_decode(bytes).ok().map(|(v, _)| v as u64),
        8 => bytes.get(0..8).map(|b| (u32::from_le_bytes([b[0], b[1], b[2], b[3]]) as u64).max(u32::from_le_bytes([b[4], b[5], b[6], b[7]]) as u64)),
        _ => None,
    }
}

// ================================================================================================

pub fn property() -> Property {
    let thorough = std::env::args().any(|a| a == "thorough");
    Property {
        id: "C08",
        level: "exploration",
        rule: "per codec: byte strings (11 content classes × lengths dense at 0–12, the 4-/32-way interleave remainders and uint7 size steps, literal short inputs) × order / every flag subset; fqzcomp: quality strings × record-length partitions; name tokenizer: NUL-terminated name lists from a token grammar with edits; gzip/bzip2/lzma × level; ITF8/uint7 over the 32-bit space, LTF8 boundary-dense",
        assumptions: vec![
            "the harness reference decoders (oracle/rans_ref.rs) and integer codecs (oracle/varint_ref.rs) are correct; they are pinned on the literal vectors of noodles' unit tests at the start of every run (sub-check ref_pins; a mismatch is a harness error)".into(),
            "AAC, fqzcomp and the name tokenizer are judged by noodles' own decoder only (no independent decoder); the tokenizer's Nx16 sub-streams are additionally compared between noodles' Nx16 decoder and the reference".into(),
            "miniz_oxide + crc32fast (gzip, both tiers) and CPython bz2/lzma (thorough) as second implementations".into(),
            "decode-side canonicity of the integer codings is not asserted".into(),
        ],
        subs: vec![
            EnumSub { name: "ref_pins", rule: "golden vectors transcribed from noodles' unit tests decode correctly under the reference implementations; records which known-defect canaries still fail", run: run_pins, replay: replay_pins, shards: (1, 1), opts: SubOpts::default() }.boxed(),
            sub("rans4x8", "non-trivial = input ≥5 bytes with ≥2 distinct symbols; distinct by hash of the case; oracle = own round trip + independent decoder", r4x8_strategy, check_r4x8, 24_000, 400_000).with(|o| o.isolate = true).boxed(),
            sub("rans_nx16", "non-trivial = input ≥5 bytes with ≥2 distinct symbols; all 128 subsets of the 7 flags; oracle = own round trip + independent decoder", nx16_strategy, check_nx16, 48_000, 800_000).with(|o| o.isolate = true).boxed(),
            sub("aac", "non-trivial = input ≥5 bytes with ≥2 distinct symbols; all 128 subsets of the 7 flags; oracle = own round trip", aac_strategy, check_aac, 30_000, 500_000).with(|o| o.isolate = true).boxed(),
            sub("fqzcomp", "non-trivial = ≥5 quality bytes with ≥2 distinct values; oracle = own round trip", fqz_strategy, check_fqz, 3_000, 50_000).with(|o| o.isolate = true).boxed(),
            sub("name_tokenizer", "non-trivial = ≥2 names, ≥5 bytes; oracle = own round trip + reference/own agreement on every Nx16 sub-stream", names_strategy, check_names, 24_000, 300_000).with(|o| o.isolate = true).boxed(),
            sub("general", "gzip/bzip2/lzma; non-trivial = input ≥5 bytes with ≥2 distinct symbols; oracle = own round trip + second implementation", general_strategy, check_general, 3_200, 30_000).boxed(),
            EnumSub {
                name: "itf8",
                rule: "every evaluation is one 32-bit pattern written, compared byte-for-byte with the specification and read back; quick = ±2^16 windows at all length-class boundaries, ±2^k±{0,1,2}, 8 patterns in each block of 4096; thorough = all 2^32 patterns (distinct counts chunks, not values)",
                run: run_itf8,
                replay: replay_int,
                shards: (8, 16),
                opts: SubOpts { exhaustive: thorough, ..SubOpts::default() },
            }
            .boxed(),
            EnumSub {
                name: "uint7",
                rule: "as itf8, over all u32 values (thorough = all 2^32)",
                run: run_uint7,
                replay: replay_int,
                shards: (8, 16),
                opts: SubOpts { exhaustive: thorough, ..SubOpts::default() },
            }
            .boxed(),
            EnumSub { name: "ltf8", rule: "±2^k±{0,1,2} for k<64, ±2^12 windows at all length-class boundaries and the sign flip, random values with uniform bit length (2·10^6 quick, 10^7 thorough)", run: run_ltf8, replay: replay_int, shards: (8, 16), opts: SubOpts::default() }.boxed(),
        ],
        max_parallel: 16,
    }
}
