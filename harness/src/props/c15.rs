//! C15 — corrupt or hostile input is reported as an error, never a panic.
//!
//! One case = one generated valid file of a *target* plus a deterministic family of mutants of it
//! (every position for small inputs): single-byte substitutions, 2/4-byte little-endian words set to
//! boundary values (as if every offset were a length or count field), truncations, and a few
//! random byte strings behind the valid magic. Mutation happens where it reaches the decoders:
//! BAM/BCF as uncompressed streams, BGZF-wrapped text/index payloads in the decompressed domain
//! (re-framed with correct CRC32/ISIZE), CRAM with block and container-header CRC32s re-sealed.
//! Every mutant is read with the accessor sweep on; index mutants that still read `Ok` are used to
//! query a valid data file. Oracle: no panic (caught per mutant; signature = panic site), no abort,
//! stack overflow or hang (isolated shard process + per-case watchdog), no runaway reader.

use crate::drivers::{self, Delivery, Doc, Ev, ReadOpts};
use crate::engine::shard::ClosureSub;
use crate::engine::*;
use crate::r#gen::payload::XorShift;
use crate::oracle::{bgzf_walk, framing};
use noodles_bam as bam;
use noodles_bgzf as bgzf;
use noodles_core::Region;
use noodles_cram as cram;
use noodles_csi as csi;
use noodles_fasta as fasta;
use noodles_tabix as tabix;
use proptest::prelude::*;
use serde::{Deserialize, Serialize};
use std::io::{Cursor, Read};
use std::sync::Arc;

#[derive(Clone, Debug, Serialize, Deserialize)]
pub struct Case {
    pub doc: Doc,
    /// data file for the index-query battery
    pub data_doc: Option<Doc>,
    pub seed: u32,
    /// run only this mutant index (hand-written / attributed replays); None = the whole family
    pub only: Option<u32>,
}

#[derive(Clone, Copy, Debug, PartialEq, Eq)]
pub enum Domain {
    /// mutate the file bytes as they are
    Raw,
    /// mutate the decompressed BGZF payload and re-frame it
    BgzfInner,
    /// mutate the file and re-seal CRAM checksums
    CramSealed,
    /// mutate the gunzipped text and gzip it again (crai)
    GzipInner,
}

pub struct Target {
    pub name: &'static str,
    /// driver that writes the valid file and reads the mutants
    pub driver: &'static str,
    pub domain: Domain,
    /// also run the eager BAM reader etc.
    pub extra_driver: Option<&'static str>,
}

pub const TARGETS: &[Target] = &[
    Target { name: "bgzf", driver: "bgzf", domain: Domain::Raw, extra_driver: Some("bgzf-mt") },
    Target { name: "bam-stream", driver: "bam-raw", domain: Domain::Raw, extra_driver: Some("bam-raw-eager") },
    Target { name: "bam-file", driver: "bam", domain: Domain::Raw, extra_driver: None },
    Target { name: "bcf-stream", driver: "bcf-raw", domain: Domain::Raw, extra_driver: None },
    Target { name: "bcf-file", driver: "bcf", domain: Domain::Raw, extra_driver: None },
    Target { name: "sam", driver: "sam", domain: Domain::Raw, extra_driver: None },
    Target { name: "sam.gz-payload", driver: "sam.gz", domain: Domain::BgzfInner, extra_driver: None },
    Target { name: "vcf", driver: "vcf", domain: Domain::Raw, extra_driver: None },
    Target { name: "vcf.gz-payload", driver: "vcf.gz", domain: Domain::BgzfInner, extra_driver: None },
    Target { name: "cram-sealed", driver: "cram", domain: Domain::CramSealed, extra_driver: None },
    Target { name: "cram-file", driver: "cram", domain: Domain::Raw, extra_driver: None },
    Target { name: "fasta", driver: "fasta", domain: Domain::Raw, extra_driver: None },
    Target { name: "fastq", driver: "fastq", domain: Domain::Raw, extra_driver: None },
    Target { name: "gff", driver: "gff", domain: Domain::Raw, extra_driver: None },
    Target { name: "gtf", driver: "gtf", domain: Domain::Raw, extra_driver: None },
    Target { name: "bed3", driver: "bed3", domain: Domain::Raw, extra_driver: None },
    Target { name: "bed6", driver: "bed6", domain: Domain::Raw, extra_driver: Some("bed4") },
    Target { name: "bai", driver: "bai", domain: Domain::Raw, extra_driver: None },
    Target { name: "csi-payload", driver: "csi", domain: Domain::BgzfInner, extra_driver: None },
    Target { name: "tabix-payload", driver: "tabix", domain: Domain::BgzfInner, extra_driver: None },
    Target { name: "gzi", driver: "gzi", domain: Domain::Raw, extra_driver: None },
    Target { name: "fai", driver: "fai", domain: Domain::Raw, extra_driver: None },
    Target { name: "crai-payload", driver: "crai", domain: Domain::GzipInner, extra_driver: None },
];

const ALL_POSITIONS_LIMIT: usize = 3000;
const SAMPLED_POSITIONS: usize = 1200;
const BYTE_VALUES: usize = 6;
const WORD_VALUES: [u32; 12] = [0, 1, 0x7f, 0x80, 0xff, 0xffff, 0x8000, 0x00ff_ffff, 0x7fff_ffff, 0x8000_0000, 0xffff_ffff, 0xffff_fffe];

#[derive(Clone, Debug)]
enum Mutation {
    Byte { pos: usize, sel: u8 },
    Word { pos: usize, width: u8, val: u32 },
    Truncate(usize),
    Noise { keep: usize, len: usize, seed: u64 },
    DeleteByte(usize),
    DupByte(usize),
}

fn apply(base: &[u8], m: &Mutation) -> Vec<u8> {
    let mut v = base.to_vec();
    match m {
        Mutation::Byte { pos, sel } => {
            let b = v[*pos];
            v[*pos] = match sel % BYTE_VALUES as u8 {
                0 => 0x00,
                1 => 0xff,
                2 => b ^ 0x01,
                3 => b ^ 0x80,
                4 => b.wrapping_add(1),
                _ => b.wrapping_sub(1),
            };
        }
        Mutation::Word { pos, width, val } => {
            let le = val.to_le_bytes();
            for i in 0..(*width as usize) {
                if pos + i < v.len() {
                    v[pos + i] = le[i];
                }
            }
        }
        Mutation::Truncate(k) => v.truncate(*k),
        Mutation::Noise { keep, len, seed } => {
            v.truncate(*keep);
            let mut r = XorShift::new(*seed);
            for _ in 0..*len {
                v.push((r.next() & 0xff) as u8);
            }
        }
        Mutation::DeleteByte(p) => {
            v.remove(*p);
        }
        Mutation::DupByte(p) => {
            let b = v[*p];
            v.insert(*p, b);
        }
    }
    v
}

/// Start offsets of the 4-byte little-endian record length fields of an uncompressed BAM / BCF
/// stream (from the harness's own framing).
fn length_fields(t: &Target, base: &[u8]) -> Vec<usize> {
    match t.driver {
        "bam-raw" => framing::bam(base).map(|f| f.boundaries[..f.boundaries.len().saturating_sub(1)].to_vec()).unwrap_or_default(),
        "bcf-raw" => framing::bcf(base).map(|f| f.boundaries[..f.boundaries.len().saturating_sub(1)].iter().flat_map(|b| [*b, *b + 4]).collect()).unwrap_or_default(),
        _ => Vec::new(),
    }
}

/// A mutant that turns a record length field into ≥ 16 MiB makes the reader allocate and zero that
/// much before it meets the end of input — legitimate resource use that costs seconds per mutant.
/// Such mutants are kept only as a small sample (about 1 in 24), the rest are dropped and counted.
fn inflates_length_field(base: &[u8], fields: &[usize], m: &Mutation, x: u64) -> bool {
    let (pos, width) = match m {
        Mutation::Byte { pos, .. } => (*pos, 1usize),
        Mutation::Word { pos, width, .. } => (*pos, *width as usize),
        _ => return false,
    };
    for f in fields {
        if pos + width > *f && pos < *f + 4 && *f + 4 <= base.len() {
            let v = apply(base, m);
            let val = u32::from_le_bytes([v[*f], v[*f + 1], v[*f + 2], v[*f + 3]]);
            if val >= (1 << 24) && x % 24 != 0 {
                return true;
            }
        }
    }
    false
}

/// The deterministic mutant family of a base byte string.
fn family(base_len: usize, seed: u32) -> Vec<Mutation> {
    let mut out = Vec::new();
    if base_len == 0 {
        return out;
    }
    let mut r = XorShift::new(seed as u64 + 1234567);
    let positions: Vec<usize> = if base_len <= ALL_POSITIONS_LIMIT {
        (0..base_len).collect()
    } else {
        // the first 600 bytes (headers) densely, then a stratified sample
        let mut v: Vec<usize> = (0..600).collect();
        let stride = (base_len - 600) / (SAMPLED_POSITIONS - 600);
        let mut x = 600;
        while x < base_len {
            v.push((x + (r.next() as usize % stride.max(1))).min(base_len - 1));
            x += stride.max(1);
        }
        v.sort_unstable();
        v.dedup();
        v
    };
    for pos in &positions {
        let x = r.next();
        out.push(Mutation::Byte { pos: *pos, sel: ((x % BYTE_VALUES as u64) as u8) });
        // words: boundary values as if this offset began a length/count field; the three values that
        // make a 32-bit length ≥ 2 GiB are drawn rarely (a reader may legitimately allocate that much
        // before it hits the end of input, which is slow but not one of the listed failures)
        if (x >> 8) % 2 == 0 {
            let huge = (x >> 16) % 300 == 0;
            let vi = if huge { 8 + ((x >> 24) % 4) as usize } else { ((x >> 24) % 8) as usize };
            let width = if (x >> 32) % 3 == 0 { 2 } else { 4 };
            out.push(Mutation::Word { pos: *pos, width, val: WORD_VALUES[vi] });
        }
        if (x >> 40) % 16 == 0 {
            out.push(Mutation::DeleteByte(*pos));
        }
        if (x >> 44) % 16 == 0 {
            out.push(Mutation::DupByte(*pos));
        }
    }
    for _ in 0..6 {
        out.push(Mutation::Truncate(r.next() as usize % base_len));
    }
    for _ in 0..4 {
        let keep = [0usize, 4, 8, 26][(r.next() % 4) as usize].min(base_len);
        out.push(Mutation::Noise { keep, len: (r.next() % 200) as usize, seed: r.next() });
    }
    out
}

fn gunzip_all(b: &[u8]) -> Option<Vec<u8>> {
    let mut d = flate2::read::MultiGzDecoder::new(b);
    let mut v = Vec::new();
    d.read_to_end(&mut v).ok()?;
    Some(v)
}

fn gzip(b: &[u8]) -> Vec<u8> {
    use std::io::Write as _;
    let mut e = flate2::write::GzEncoder::new(Vec::new(), flate2::Compression::fast());
    let _ = e.write_all(b);
    e.finish().unwrap_or_default()
}

/// Split a BGZF payload into blocks of the original sizes (so the block layout is kept) and
/// re-frame.
fn reframe(payload: &[u8], sizes: &[usize]) -> Vec<u8> {
    let mut blocks: Vec<Vec<u8>> = Vec::new();
    let mut off = 0;
    for s in sizes {
        let end = (off + s).min(payload.len());
        blocks.push(payload[off..end].to_vec());
        off = end;
    }
    while off < payload.len() {
        let end = (off + 60000).min(payload.len());
        blocks.push(payload[off..end].to_vec());
        off = end;
    }
    bgzf_walk::build_file(&blocks, 1, true)
}

struct Prepared {
    /// the bytes that get mutated
    base: Vec<u8>,
    /// block sizes of the original file (BgzfInner)
    sizes: Vec<usize>,
}

fn prepare(t: &Target, file: &[u8]) -> Result<Prepared, String> {
    match t.domain {
        Domain::Raw | Domain::CramSealed => Ok(Prepared { base: file.to_vec(), sizes: vec![] }),
        Domain::BgzfInner => {
            let members = bgzf_walk::walk(file)?;
            Ok(Prepared { base: bgzf_walk::concat(&members), sizes: members.iter().map(|m| m.data.len()).collect() })
        }
        Domain::GzipInner => Ok(Prepared { base: gunzip_all(file).ok_or("cannot gunzip")?, sizes: vec![] }),
    }
}

fn finalize(t: &Target, p: &Prepared, mutated: Vec<u8>) -> Vec<u8> {
    match t.domain {
        Domain::Raw => mutated,
        Domain::CramSealed => {
            let mut m = mutated;
            framing::cram_reseal(&mut m);
            m
        }
        Domain::BgzfInner => reframe(&mutated, &p.sizes),
        Domain::GzipInner => gzip(&mutated),
    }
}

/// Query battery for an index that read `Ok` (its contents are arbitrary): results are ignored,
/// only panics, hangs and runaways matter.
fn query_battery(kind: &str, index_bytes: &[u8], data: &DataFile, fails: &mut Fails, what: &str) {
    const MAX_RESULTS: usize = 3000;
    let regions: Vec<Region> = ["sq0", "sq0:1-100", "sq0:50-51", "sq1", "sq1:1-1000000", "sq2:100-200", "sq0:16384-16385", "sq0:1-536870911"].iter().filter_map(|s| s.parse().ok()).collect();
    let r = panics::catch(|| match kind {
        "bai" | "csi" | "tabix" => {
            // alignments through BAM
            macro_rules! run_bam {
                ($index:expr) => {{
                    let index = $index;
                    let mut rd = bam::io::Reader::new(Cursor::new(&data.bam[..]));
                    if let Ok(header) = rd.read_header() {
                        for region in &regions {
                            if let Ok(q) = rd.query(&header, &index, region) {
                                for (i, rec) in q.records().enumerate() {
                                    if rec.is_err() || i > MAX_RESULTS {
                                        break;
                                    }
                                }
                            }
                        }
                        if let Ok(q) = rd.query_unmapped(&index) {
                            for (i, rec) in q.enumerate() {
                                if rec.is_err() || i > MAX_RESULTS {
                                    break;
                                }
                            }
                        }
                    }
                    // and through the bgzipped VCF reader (tabix-style name resolution)
                    let mut vr = noodles_vcf::io::Reader::new(bgzf::io::Reader::new(Cursor::new(&data.vcf_gz[..])));
                    if let Ok(vh) = vr.read_header() {
                        for region in &regions {
                            if let Ok(q) = vr.query(&vh, &index, region) {
                                for (i, rec) in q.records().enumerate() {
                                    if rec.is_err() || i > MAX_RESULTS {
                                        break;
                                    }
                                }
                            }
                        }
                    }
                    use csi::BinningIndex;
                    use csi::binning_index::ReferenceSequence as _;
                    let _ = index.header();
                    let _ = index.unplaced_unmapped_record_count();
                    let _ = index.last_first_record_start_position();
                    for rs in index.reference_sequences() {
                        let _ = format!("{:?}", rs.metadata());
                    }
                }};
            }
            match kind {
                "bai" => {
                    if let Ok(ix) = bam::bai::io::Reader::new(index_bytes).read_index() {
                        run_bam!(ix)
                    }
                }
                "csi" => {
                    if let Ok(ix) = csi::io::Reader::new(index_bytes).read_index() {
                        run_bam!(ix)
                    }
                }
                _ => {
                    if let Ok(ix) = tabix::io::Reader::new(index_bytes).read_index() {
                        run_bam!(ix)
                    }
                }
            }
        }
        "gzi" => {
            if let Ok(ix) = bgzf::gzi::io::Reader::new(index_bytes).read_index() {
                let mut rd = bgzf::io::Reader::new(Cursor::new(&data.bam[..]));
                let mut buf = [0u8; 64];
                for p in [0u64, 1, 100, 65535, 65536, 1 << 20, u32::MAX as u64, u64::MAX / 2, u64::MAX] {
                    let _ = ix.query(p);
                    if rd.seek_by_uncompressed_position(&ix, p).is_ok() {
                        let _ = rd.read(&mut buf);
                    }
                }
                if let Ok(mut ir) = std::panic::catch_unwind(|| 0).map(|_| bgzf::io::IndexedReader::new(Cursor::new(&data.bam[..]), ix.clone())) {
                    use std::io::{Seek, SeekFrom};
                    for p in [0u64, 7, 70000, u64::MAX] {
                        if ir.seek(SeekFrom::Start(p)).is_ok() {
                            let _ = ir.read(&mut buf);
                        }
                    }
                }
            }
        }
        "fai" => {
            if let Ok(ix) = fasta::fai::io::Reader::new(index_bytes).read_index() {
                let names: Vec<String> = ix.as_ref().iter().map(|r| String::from_utf8_lossy(r.name().as_ref()).into_owned()).take(6).collect();
                let mut ir = fasta::io::IndexedReader::new(Cursor::new(&data.fasta[..]), ix);
                for n in names.iter().map(|s| s.as_str()).chain(["sq0", "sq1"]) {
                    for suffix in ["", ":1-10", ":5", ":100000-100010"] {
                        if let Ok(region) = format!("{n}{suffix}").parse::<Region>() {
                            let _ = ir.query(&region);
                        }
                    }
                }
            }
        }
        "crai" => {
            if let Ok(ix) = cram::crai::io::Reader::new(index_bytes).read_index() {
                let mut rd = cram::io::reader::Builder::default().set_reference_sequence_repository(data.repo.clone()).build_from_reader(Cursor::new(&data.cram[..]));
                if let Ok(header) = rd.read_header() {
                    for region in &regions {
                        if let Ok(q) = rd.query(&header, &ix, region) {
                            for (i, rec) in q.records().enumerate() {
                                if rec.is_err() || i > MAX_RESULTS {
                                    break;
                                }
                            }
                        }
                    }
                    if let Ok(q) = rd.query_unmapped(&header, &ix) {
                        for (i, rec) in q.enumerate() {
                            if rec.is_err() || i > MAX_RESULTS {
                                break;
                            }
                        }
                    }
                }
            }
        }
        _ => {}
    });
    if let Err(info) = r {
        if info.in_harness() {
            fails.push(shard::HARNESS_PANIC, info.describe());
        } else {
            fails.push(info.sig(), format!("{} while querying with a corrupted {kind} index ({what})", info.describe()));
        }
    }
}

struct DataFile {
    bam: Vec<u8>,
    vcf_gz: Vec<u8>,
    fasta: Vec<u8>,
    cram: Vec<u8>,
    repo: fasta::Repository,
}

fn data_file(doc: &Option<Doc>) -> DataFile {
    // a fixed small sorted document when none is given
    let aln = match doc {
        Some(Doc::Aln(a)) => a.sorted(),
        _ => drivers::AlnDoc { refs: vec![900, 500], ref_seed: 5, read_group: false, comments: vec![], records: vec![], flush_every: 2 },
    };
    let mut bam = Vec::new();
    let _ = drivers::sync::write_bam(&aln, &mut bam);
    let mut cram = Vec::new();
    let _ = drivers::sync::write_cram(&aln, &mut cram, Some(3));
    let var = drivers::VarDoc { contigs: vec![5000, 3000], samples: 1, records: vec![], flush_every: 0, minor: 2 };
    let mut vcf_gz = Vec::new();
    let _ = drivers::by_name("vcf.gz").unwrap().write(&Doc::Var(var), &mut vcf_gz);
    let mut fasta = Vec::new();
    for (name, seq) in aln.references() {
        fasta.extend_from_slice(format!(">{name}\n").as_bytes());
        for ch in seq.chunks(60) {
            fasta.extend_from_slice(ch);
            fasta.push(b'\n');
        }
    }
    DataFile { bam, vcf_gz, fasta, cram, repo: drivers::sync::repository_of(&aln) }
}

fn check(t: &Target, c: &Case) -> Verdict {
    let drv = drivers::by_name(t.driver).ok_or_else(|| vec![Fail::new(shard::HARNESS_PANIC, format!("no driver {}", t.driver))])?;
    let extra = t.extra_driver.and_then(drivers::by_name);
    let file = match drivers::write_to_vec(drv.as_ref(), &c.doc) {
        Ok(b) => b,
        Err(e) => return fail1(format!("c15.baseline-write-error:{}", t.name), format!("writing the generated document failed: {e}")),
    };
    let prep = match prepare(t, &file) {
        Ok(p) => p,
        Err(e) => return fail1(format!("c15.baseline-prepare:{}", t.name), e),
    };
    let is_index = matches!(t.driver, "bai" | "csi" | "tabix" | "gzi" | "fai" | "crai");
    let data = if is_index { Some(data_file(&c.data_doc)) } else { None };
    let fields = length_fields(t, &prep.base);
    let mut dropped_inflating = 0u64;
    let muts: Vec<Mutation> = family(prep.base.len(), c.seed)
        .into_iter()
        .enumerate()
        .filter(|(i, m)| {
            let drop = inflates_length_field(&prep.base, &fields, m, crate::engine::mix(c.seed as u64, *i as u64));
            if drop {
                dropped_inflating += 1;
            }
            !drop
        })
        .map(|(_, m)| m)
        .collect();
    let opts = ReadOpts { sweep: true, vpos: false, max_events: 20_000, ..ReadOpts::default() };
    let mut fails = Fails::new();
    let mut past_validation = 0u64;
    let mut n = 0u64;
    for (i, m) in muts.iter().enumerate() {
        if let Some(only) = c.only {
            if only as usize != i {
                continue;
            }
        }
        if c.only.is_none() {
            if let Some(h) = inner_skip() {
                if i as u64 <= h {
                    continue;
                }
            }
        }
        n += 1;
        set_case_hint(i as u64);
        if std::env::var_os("NV_TRACE_MUTANT").is_some() {
            eprintln!("mutant #{i} {m:?}");
        }
        let bytes = Arc::new(finalize(t, &prep, apply(&prep.base, m)));
        let what = format!("mutant #{i} {m:?} of a {}-byte input", prep.base.len());
        for d in std::iter::once(&drv).chain(extra.iter()) {
            let r = panics::catch(|| d.read(&bytes, &Delivery::Plain, &c.doc, &opts));
            match r {
                Ok((tr, _)) => {
                    if tr.iter().any(|e| matches!(e, Ev::Header(_) | Ev::Record(_) | Ev::Index(_))) {
                        past_validation += 1;
                    }
                    if tr.iter().any(|e| matches!(e, Ev::Runaway)) {
                        fails.push(format!("c15.runaway:{}", d.name()), format!("reader keeps producing events on {what}"));
                    }
                }
                Err(info) => {
                    if info.in_harness() {
                        fails.push(shard::HARNESS_PANIC, info.describe());
                    } else {
                        fails.push(info.sig(), format!("{} — reader {} on {what}", info.describe(), d.name()));
                    }
                }
            }
        }
        if let Some(df) = &data {
            query_battery(t.driver, &bytes, df, &mut fails, &what);
        }
        if fails.0.len() >= 16 {
            break;
        }
    }
    fails.finish(
        Pass::new(past_validation > 0, key_of(&c.doc))
            .evals(n.max(1))
            .label_if(past_validation > 0, "mutants-past-first-validation")
            .label_if(past_validation * 2 > n, "majority-past-first-validation")
            .label_if(prep.base.len() <= ALL_POSITIONS_LIMIT, "every-position")
            .label_if(prep.base.len() > ALL_POSITIONS_LIMIT, "sampled-positions")
            .label_if(dropped_inflating > 0, "length-inflating-mutants-sampled"),
    )
}

/// Arbitrary index *values* (not files): unsorted gzi entries, crai records and fai records with
/// arbitrary numbers, used to query valid data.
#[derive(Clone, Debug, Serialize, Deserialize)]
pub struct ArbIndexCase {
    pub gzi: Vec<(u64, u64)>,
    pub crai: Vec<(Option<u32>, u32, u32, u64, u64, u64)>,
    pub fai: Vec<(u64, u64, u32, u32)>,
    pub positions: Vec<u64>,
}

fn arb_u64() -> BoxedStrategy<u64> {
    prop_oneof![0u64..70000, any::<u64>(), proptest::sample::select(vec![0u64, 1, 65535, 65536, 65537, u32::MAX as u64, u64::MAX, u64::MAX - 1, 1 << 48, (1 << 48) - 1])].boxed()
}

fn check_arb_index(c: &ArbIndexCase) -> Verdict {
    let df = data_file(&None);
    let mut fails = Fails::new();
    let r = panics::catch(|| {
        // gzi
        let ix = bgzf::gzi::Index::from(c.gzi.clone());
        let mut rd = bgzf::io::Reader::new(Cursor::new(&df.bam[..]));
        let mut buf = [0u8; 32];
        for p in &c.positions {
            let _ = ix.query(*p);
            if rd.seek_by_uncompressed_position(&ix, *p).is_ok() {
                let _ = rd.read(&mut buf);
            }
        }
        // crai
        let recs: Vec<cram::crai::Record> = c
            .crai
            .iter()
            .map(|(r, s, span, off, lm, sl)| cram::crai::Record::new(r.map(|x| x as usize), noodles_core::Position::new(*s as usize), *span as usize, *off, *lm, *sl))
            .collect();
        let mut cr = cram::io::reader::Builder::default().set_reference_sequence_repository(df.repo.clone()).build_from_reader(Cursor::new(&df.cram[..]));
        if let Ok(header) = cr.read_header() {
            for region in ["sq0", "sq0:1-50", "sq1:10-20"] {
                let region: Region = region.parse().unwrap();
                if let Ok(q) = cr.query(&header, &recs, &region) {
                    for (i, rec) in q.records().enumerate() {
                        if rec.is_err() || i > 2000 {
                            break;
                        }
                    }
                }
            }
            if let Ok(q) = cr.query_unmapped(&header, &recs) {
                for (i, rec) in q.enumerate() {
                    if rec.is_err() || i > 2000 {
                        break;
                    }
                }
            }
        }
        // fai
        let frecs: Vec<fasta::fai::Record> = c
            .fai
            .iter()
            .enumerate()
            .map(|(i, (len, off, lb, lw))| {
                fasta::fai::Record::new(format!("sq{i}"), *len, *off, std::num::NonZero::new((*lb as u64).max(1)).unwrap(), std::num::NonZero::new((*lw as u64).max(1)).unwrap())
            })
            .collect();
        let mut ir = fasta::io::IndexedReader::new(Cursor::new(&df.fasta[..]), fasta::fai::Index::from(frecs));
        for region in ["sq0", "sq0:1-10", "sq1:5", "sq0:400-500", "sq1"] {
            let region: Region = region.parse().unwrap();
            let _ = ir.query(&region);
        }
    });
    if let Err(info) = r {
        if info.in_harness() {
            fails.push(shard::HARNESS_PANIC, info.describe());
        } else {
            fails.push(info.sig(), format!("{} while querying valid data with an arbitrary index value", info.describe()));
        }
    }
    fails.finish(Pass::new(!c.gzi.is_empty() || !c.crai.is_empty() || !c.fai.is_empty(), key_of(c)))
}

pub fn property() -> Property {
    let mut subs: Vec<Box<dyn DynSub>> = Vec::new();
    for t in TARGETS {
        let (q, th) = match t.name {
            "cram-sealed" | "cram-file" => (6, 200),
            "bgzf" => (8, 240),
            n if n.ends_with("-payload") => (10, 300),
            _ => (12, 400),
        };
        subs.push(
            ClosureSub::<Case> {
                name: t.name.to_string(),
                rule: "one case = one valid file and its deterministic mutant family (one byte substitution per position, boundary words at about half of the positions, byte deletions/duplications, truncations, noise behind the magic; every position for inputs ≤3000 bytes); evaluations counts mutants; non-trivial = at least one mutant got past the first validation layer (a header, record or index was returned); distinct by hash of the document".into(),
                strategy: Box::new(move |tier| {
                    let d = drivers::by_name(t.driver).unwrap();
                    let doc = if t.name == "bgzf" {
                        use crate::r#gen::payload::payload;
                        (payload(2500), proptest::collection::vec(0u16..=1000, 0..4), proptest::option::of(0u8..=9)).prop_map(|(payload, flushes, level)| Doc::Bytes { payload, flushes, level }).boxed()
                    } else {
                        d.doc(tier)
                    };
                    (doc, proptest::option::of(drivers::aln_doc(8).prop_map(Doc::Aln)), any::<u32>()).prop_map(|(doc, data_doc, seed)| Case { doc, data_doc, seed, only: None }).boxed()
                }),
                check: Box::new(move |c| check(t, c)),
                quick: q,
                thorough: th,
                opts: SubOpts { max_shards: 4, isolate: true, hang_is_violation: true, case_budget_s: 60, max_shrink_iters: 40, timeout_s: (1500, 10800), ..SubOpts::default() },
            }
            .boxed(),
        );
    }
    subs.push(
        sub(
            "arbitrary-index-values",
            "arbitrary gzi entries (unsorted, huge), crai records and fai records used to seek/query valid BAM/CRAM/FASTA data; non-trivial = at least one index non-empty",
            |_| {
                (
                    proptest::collection::vec((arb_u64(), arb_u64()), 0..8),
                    proptest::collection::vec((proptest::option::of(0u32..4), any::<u32>(), any::<u32>(), arb_u64(), arb_u64(), arb_u64()), 0..6),
                    proptest::collection::vec((arb_u64(), arb_u64(), any::<u32>(), any::<u32>()), 0..3),
                    proptest::collection::vec(arb_u64(), 1..6),
                )
                    .prop_map(|(gzi, crai, fai, positions)| ArbIndexCase { gzi, crai, fai, positions })
                    .boxed()
            },
            check_arb_index,
            1500,
            40_000,
        )
        .with(|o| {
            o.isolate = true;
            o.hang_is_violation = true;
            o.case_budget_s = 20;
        })
        .boxed(),
    );
    Property {
        id: "C15",
        level: "exploration",
        rule: "valid files / indexes per target × mutation family (byte substitutions at every position, boundary words, deletions, truncations, noise) applied where it reaches the decoders (uncompressed BAM/BCF, re-framed BGZF payloads, re-sealed CRAM) with the accessor sweep on; index mutants that read Ok query valid data",
        assumptions: vec![
            "a panic is attributed to noodles when its location is outside the harness sources (dependencies called by noodles included)".into(),
            "successful large allocations are not failures; watchdog expiry counts only when reproduced alone with the 10× budget".into(),
            "CRAM codec decoders on arbitrary bytes are covered by the codec sub-checks once the C08 module is integrated".into(),
        ],
        subs,
        max_parallel: 8,
    }
}
