//! C15 — corrupt or hostile input is reported as an error, never a panic.
//!
//! One case = one generated valid file of a *target* plus a deterministic family of mutants of it
//! (every position for small inputs): single-byte substitutions, 2/4-byte little-endian words set to
//! boundary values (as if every offset were a length or count field), truncations, and a few
//! random byte strings behind the valid magic. Mutation happens where it reaches the decoders:
//! BAM/BCF as uncompressed streams, BGZF-wrapped text/index payloads in the decompressed domain
//! (re-framed with correct CRC32/ISIZE), CRAM with block and container-header CRC32s re-sealed.
//! Every mutant is read with the accessor sweep on; index mutants that still read `Ok` are used to
//! query a valid data file. Oracle: no panic (caught per mutant; signature = panic site), no abort,
//! stack overflow or hang (isolated shard process + per-case watchdog), no runaway reader.

use crate::drivers::{self, Delivery, Doc, Ev, ReadOpts};
use crate::engine::shard::ClosureSub;
use crate::engine::*;
use crate::engine::orchestrate;
use crate::r#gen::payload::XorShift;
use crate::oracle::{bgzf_walk, framing};
use noodles_bam as bam;
use noodles_bgzf as bgzf;
use noodles_core::Region;
use noodles_cram as cram;
use noodles_csi as csi;
use noodles_fasta as fasta;
use noodles_tabix as tabix;
use proptest::prelude::*;
use serde::{Deserialize, Serialize};
use std::io::{Cursor, Read};
use std::sync::Arc;

#[derive(Clone, Debug, Serialize, Deserialize)]
pub struct Case {
    pub doc: Doc,
    /// data file for the index-query battery
    pub data_doc: Option<Doc>,
    pub seed: u32,
    /// run only this mutant index (hand-written / attributed replays); None = the whole family
    pub only: Option<u32>,
    /// hex of the bytes that were mutated, recorded with a failure when the writer is not a
    /// deterministic function of the document (CRAM); used instead of writing the document
    #[serde(default)]
    pub base_hex: Option<String>,
}

fn hex(b: &[u8]) -> String {
    let mut s = String::with_capacity(b.len() * 2);
    for x in b {
        s.push_str(&format!("{x:02x}"));
    }
    s
}

fn unhex(s: &str) -> Option<Vec<u8>> {
    if s.len() % 2 != 0 {
        return None;
    }
    (0..s.len() / 2).map(|i| u8::from_str_radix(&s[2 * i..2 * i + 2], 16).ok()).collect()
}

#[derive(Clone, Copy, Debug, PartialEq, Eq)]
pub enum Domain {
    /// mutate the file bytes as they are
    Raw,
    /// mutate the decompressed BGZF payload and re-frame it
    BgzfInner,
    /// mutate the file and re-seal CRAM checksums
    CramSealed,
    /// mutate the gunzipped text and gzip it again (crai)
    GzipInner,
}

pub struct Target {
    pub name: &'static str,
    /// driver that writes the valid file and reads the mutants
    pub driver: &'static str,
    pub domain: Domain,
    /// also run the eager BAM reader etc.
    pub extra_driver: Option<&'static str>,
}

pub const TARGETS: &[Target] = &[
    Target { name: "bgzf", driver: "bgzf", domain: Domain::Raw, extra_driver: Some("bgzf-mt") },
    Target { name: "bam-stream", driver: "bam-raw", domain: Domain::Raw, extra_driver: Some("bam-raw-eager") },
    Target { name: "bam-file", driver: "bam", domain: Domain::Raw, extra_driver: None },
    Target { name: "bcf-stream", driver: "bcf-raw", domain: Domain::Raw, extra_driver: None },
    Target { name: "bcf-file", driver: "bcf", domain: Domain::Raw, extra_driver: None },
    Target { name: "sam", driver: "sam", domain: Domain::Raw, extra_driver: None },
    Target { name: "sam.gz-payload", driver: "sam.gz", domain: Domain::BgzfInner, extra_driver: None },
    Target { name: "vcf", driver: "vcf", domain: Domain::Raw, extra_driver: None },
    Target { name: "vcf.gz-payload", driver: "vcf.gz", domain: Domain::BgzfInner, extra_driver: None },
    Target { name: "cram-sealed", driver: "cram", domain: Domain::CramSealed, extra_driver: None },
    Target { name: "cram-file", driver: "cram", domain: Domain::Raw, extra_driver: None },
    Target { name: "fasta", driver: "fasta", domain: Domain::Raw, extra_driver: Some("fasta-indexer") },
    Target { name: "fastq", driver: "fastq", domain: Domain::Raw, extra_driver: None },
    Target { name: "gff", driver: "gff", domain: Domain::Raw, extra_driver: None },
    Target { name: "gtf", driver: "gtf", domain: Domain::Raw, extra_driver: None },
    Target { name: "bed3", driver: "bed3", domain: Domain::Raw, extra_driver: None },
    Target { name: "bed6", driver: "bed6", domain: Domain::Raw, extra_driver: Some("bed4") },
    Target { name: "bai", driver: "bai", domain: Domain::Raw, extra_driver: None },
    Target { name: "csi-payload", driver: "csi", domain: Domain::BgzfInner, extra_driver: None },
    Target { name: "tabix-payload", driver: "tabix", domain: Domain::BgzfInner, extra_driver: None },
    Target { name: "gzi", driver: "gzi", domain: Domain::Raw, extra_driver: None },
    Target { name: "fai", driver: "fai", domain: Domain::Raw, extra_driver: None },
    Target { name: "crai-payload", driver: "crai", domain: Domain::GzipInner, extra_driver: None },
];

const SKIPPED: &str = "c15.internal.skipped";
const ALL_POSITIONS_LIMIT: usize = 3000;
const SAMPLED_POSITIONS: usize = 1200;
const BYTE_VALUES: usize = 6;
const WORD_VALUES: [u32; 12] = [0, 1, 0x7f, 0x80, 0xff, 0xffff, 0x8000, 0x00ff_ffff, 0x7fff_ffff, 0x8000_0000, 0xffff_ffff, 0xffff_fffe];

#[derive(Clone, Debug)]
enum Mutation {
    Byte { pos: usize, sel: u8 },
    Word { pos: usize, width: u8, val: u32 },
    Truncate(usize),
    Noise { keep: usize, len: usize, seed: u64 },
    DeleteByte(usize),
    DupByte(usize),
}

fn apply(base: &[u8], m: &Mutation) -> Vec<u8> {
    let mut v = base.to_vec();
    match m {
        Mutation::Byte { pos, sel } => {
            let b = v[*pos];
            v[*pos] = match sel % BYTE_VALUES as u8 {
                0 => 0x00,
                1 => 0xff,
                2 => b ^ 0x01,
                3 => b ^ 0x80,
                4 => b.wrapping_add(1),
                _ => b.wrapping_sub(1),
            };
        }
        Mutation::Word { pos, width, val } => {
            let le = val.to_le_bytes();
            for i in 0..(*width as usize) {
                if pos + i < v.len() {
                    v[pos + i] = le[i];
                }
            }
        }
        Mutation::Truncate(k) => v.truncate(*k),
        Mutation::Noise { keep, len, seed } => {
            v.truncate(*keep);
            let mut r = XorShift::new(*seed);
            for _ in 0..*len {
                v.push((r.next() & 0xff) as u8);
            }
        }
        Mutation::DeleteByte(p) => {
            v.remove(*p);
        }
        Mutation::DupByte(p) => {
            let b = v[*p];
            v.insert(*p, b);
        }
    }
    v
}

/// Start offsets of the 4-byte little-endian record length fields of an uncompressed BAM / BCF
/// stream (from the harness's own framing).
fn length_fields(t: &Target, base: &[u8]) -> Vec<usize> {
    fn u32_at(b: &[u8], off: usize) -> Option<usize> {
        b.get(off..off + 4).map(|s| u32::from_le_bytes([s[0], s[1], s[2], s[3]]) as usize)
    }
    // per reference of a BAI-style body: n_bin, then per bin id (+ loffset for CSI) + n_chunk + chunks,
    // then (BAI/tabix) n_intv + offsets
    fn refs(b: &[u8], mut off: usize, n_ref: usize, csi: bool, out: &mut Vec<usize>) -> Option<()> {
        for _ in 0..n_ref.min(64) {
            out.push(off);
            let n_bin = u32_at(b, off)?;
            off += 4;
            for _ in 0..n_bin.min(100_000) {
                off += if csi { 12 } else { 4 };
                out.push(off);
                let n_chunk = u32_at(b, off)?;
                off += 4 + 16 * n_chunk;
            }
            if !csi {
                out.push(off);
                let n_intv = u32_at(b, off)?;
                off += 4 + 8 * n_intv;
            }
        }
        Some(())
    }
    let mut out = Vec::new();
    match t.driver {
        "bam-raw" | "bam-raw-eager" => {
            if let Some(f) = framing::bam(base) {
                out.extend_from_slice(&f.boundaries[..f.boundaries.len().saturating_sub(1)]);
            }
            // header: l_text, n_ref, l_name…
            out.push(4);
            if let Some(l_text) = u32_at(base, 4) {
                let mut off = 8 + l_text;
                out.push(off);
                if let Some(n_ref) = u32_at(base, off) {
                    off += 4;
                    for _ in 0..n_ref.min(64) {
                        out.push(off);
                        let Some(l_name) = u32_at(base, off) else { break };
                        off += 4 + l_name + 4;
                    }
                }
            }
        }
        "bcf-raw" => {
            if let Some(f) = framing::bcf(base) {
                out.extend(f.boundaries[..f.boundaries.len().saturating_sub(1)].iter().flat_map(|b| [*b, *b + 4]));
            }
            out.push(5);
        }
        "bai" => {
            out.push(4);
            if let Some(n_ref) = u32_at(base, 4) {
                let _ = refs(base, 8, n_ref, false, &mut out);
            }
        }
        "tabix" => {
            out.push(4);
            out.push(32);
            if let (Some(n_ref), Some(l_nm)) = (u32_at(base, 4), u32_at(base, 32)) {
                let _ = refs(base, 36 + l_nm, n_ref, false, &mut out);
            }
        }
        "csi" => {
            out.push(12);
            if let Some(l_aux) = u32_at(base, 12) {
                let off = 16 + l_aux;
                out.push(off);
                if let Some(n_ref) = u32_at(base, off) {
                    let _ = refs(base, off + 4, n_ref, true, &mut out);
                }
            }
        }
        _ => {}
    }
    out.retain(|o| *o + 4 <= base.len());
    out.sort_unstable();
    out.dedup();
    out
}

/// A mutant that turns a length or count field (located by the harness's own walkers) into ≥ 2^20
/// makes the reader allocate, and often initialise, memory in proportion before it meets the end of
/// input — seconds per mutant (and, when the request is refused, the listed abort findings). Such
/// mutants are kept only as a sample (about 1 in 24); the rest are dropped and counted.
fn inflates_length_field(t: &Target, base: &[u8], fields: &[usize], m: &Mutation, x: u64) -> bool {
    // uncompressed BAM/BCF: walk the mutated stream the way the record reader will and look at the
    // first record length it cannot satisfy (covers byte deletions/duplications that shift the
    // whole stream, not only mutations inside a length field)
    if matches!(t.driver, "bam-raw" | "bam-raw-eager" | "bcf-raw") {
        let v = apply(base, m);
        let stop = if t.driver == "bcf-raw" { framing::bcf(&v).map(|f| *f.boundaries.last().unwrap_or(&0)) } else { framing::bam(&v).map(|f| *f.boundaries.last().unwrap_or(&0)) };
        if let Some(off) = stop {
            let n_fields = if t.driver == "bcf-raw" { 2 } else { 1 };
            for k in 0..n_fields {
                if let Some(b) = v.get(off + 4 * k..off + 4 * k + 4) {
                    if u32::from_le_bytes([b[0], b[1], b[2], b[3]]) >= (1 << 24) && x % 24 != 0 {
                        return true;
                    }
                }
            }
        }
    }
    let (pos, width) = match m {
        Mutation::Byte { pos, .. } => (*pos, 1usize),
        Mutation::Word { pos, width, .. } => (*pos, *width as usize),
        _ => return false,
    };
    for f in fields {
        if pos + width > *f && pos < *f + 4 && *f + 4 <= base.len() {
            let v = apply(base, m);
            let val = u32::from_le_bytes([v[*f], v[*f + 1], v[*f + 2], v[*f + 3]]);
            if val >= (1 << 20) && x % 24 != 0 {
                return true;
            }
        }
    }
    false
}

/// The deterministic mutant family of a base byte string.
fn family(base_len: usize, seed: u32) -> Vec<Mutation> {
    let mut out = Vec::new();
    if base_len == 0 {
        return out;
    }
    let mut r = XorShift::new(seed as u64 + 1234567);
    let positions: Vec<usize> = if base_len <= ALL_POSITIONS_LIMIT {
        (0..base_len).collect()
    } else {
        // the first 600 bytes (headers) densely, then a stratified sample
        let mut v: Vec<usize> = (0..600).collect();
        let stride = (base_len - 600) / (SAMPLED_POSITIONS - 600);
        let mut x = 600;
        while x < base_len {
            v.push((x + (r.next() as usize % stride.max(1))).min(base_len - 1));
            x += stride.max(1);
        }
        v.sort_unstable();
        v.dedup();
        v
    };
    for pos in &positions {
        let x = r.next();
        out.push(Mutation::Byte { pos: *pos, sel: ((x % BYTE_VALUES as u64) as u8) });
        // words: boundary values as if this offset began a length/count field; the three values that
        // make a 32-bit length ≥ 2 GiB are drawn rarely (a reader may legitimately allocate that much
        // before it hits the end of input, which is slow but not one of the listed failures)
        if (x >> 8) % 2 == 0 {
            let huge = (x >> 16) % 300 == 0;
            let vi = if huge { 8 + ((x >> 24) % 4) as usize } else { ((x >> 24) % 8) as usize };
            let width = if (x >> 32) % 3 == 0 { 2 } else { 4 };
            out.push(Mutation::Word { pos: *pos, width, val: WORD_VALUES[vi] });
        }
        if (x >> 40) % 16 == 0 {
            out.push(Mutation::DeleteByte(*pos));
        }
        if (x >> 44) % 16 == 0 {
            out.push(Mutation::DupByte(*pos));
        }
    }
    for _ in 0..6 {
        out.push(Mutation::Truncate(r.next() as usize % base_len));
    }
    for _ in 0..4 {
        let keep = [0usize, 4, 8, 26][(r.next() % 4) as usize].min(base_len);
        out.push(Mutation::Noise { keep, len: (r.next() % 200) as usize, seed: r.next() });
    }
    out
}

/// Target-specific field values whose effect comes from a sum or a shift: the CSI geometry
/// (`min_shift + 3·depth` against the word size: every min_shift 0..=70 and depth 0..=22 with the
/// other field as generated).
fn arithmetic_mutants(t: &Target, base: &[u8]) -> Vec<Mutation> {
    let mut v = Vec::new();
    if t.driver == "csi" && base.len() >= 16 && &base[..4] == b"CSI\x01" {
        for ms in 0u32..=70 {
            v.push(Mutation::Word { pos: 4, width: 4, val: ms });
        }
        for d in 0u32..=22 {
            v.push(Mutation::Word { pos: 8, width: 4, val: d });
        }
    }
    v
}

fn gunzip_all(b: &[u8]) -> Option<Vec<u8>> {
    let mut d = flate2::read::MultiGzDecoder::new(b);
    let mut v = Vec::new();
    d.read_to_end(&mut v).ok()?;
    Some(v)
}

fn gzip(b: &[u8]) -> Vec<u8> {
    use std::io::Write as _;
    let mut e = flate2::write::GzEncoder::new(Vec::new(), flate2::Compression::fast());
    let _ = e.write_all(b);
    e.finish().unwrap_or_default()
}

/// Split a BGZF payload into blocks of the original sizes (so the block layout is kept) and
/// re-frame.
fn reframe(payload: &[u8], sizes: &[usize]) -> Vec<u8> {
    let mut blocks: Vec<Vec<u8>> = Vec::new();
    let mut off = 0;
    for s in sizes {
        let end = (off + s).min(payload.len());
        blocks.push(payload[off..end].to_vec());
        off = end;
    }
    while off < payload.len() {
        let end = (off + 60000).min(payload.len());
        blocks.push(payload[off..end].to_vec());
        off = end;
    }
    bgzf_walk::build_file(&blocks, 1, true)
}

struct Prepared {
    /// the bytes that get mutated
    base: Vec<u8>,
    /// block sizes of the original file (BgzfInner)
    sizes: Vec<usize>,
}

fn prepare(t: &Target, file: &[u8]) -> Result<Prepared, String> {
    match t.domain {
        Domain::Raw | Domain::CramSealed => Ok(Prepared { base: file.to_vec(), sizes: vec![] }),
        Domain::BgzfInner => {
            let members = bgzf_walk::walk(file)?;
            Ok(Prepared { base: bgzf_walk::concat(&members), sizes: members.iter().map(|m| m.data.len()).collect() })
        }
        Domain::GzipInner => Ok(Prepared { base: gunzip_all(file).ok_or("cannot gunzip")?, sizes: vec![] }),
    }
}

fn finalize(t: &Target, p: &Prepared, mutated: Vec<u8>) -> Vec<u8> {
    match t.domain {
        Domain::Raw => mutated,
        Domain::CramSealed => {
            let mut m = mutated;
            framing::cram_reseal(&mut m);
            m
        }
        Domain::BgzfInner => reframe(&mutated, &p.sizes),
        Domain::GzipInner => gzip(&mutated),
    }
}

/// Query battery for an index that read `Ok` (its contents are arbitrary): results are ignored,
/// only panics, hangs and runaways matter.
fn query_battery(kind: &str, index_bytes: &[u8], data: &DataFile, fails: &mut Fails, what: &str) {
    const MAX_RESULTS: usize = 3000;
    let regions: Vec<Region> = ["sq0", "sq0:1-100", "sq0:50-51", "sq1", "sq1:1-1000000", "sq2:100-200", "sq0:16384-16385", "sq0:1-536870911"].iter().filter_map(|s| s.parse().ok()).collect();
    let r = panics::catch(|| match kind {
        "bai" | "csi" | "tabix" => {
            // alignments through BAM
            macro_rules! run_bam {
                ($index:expr) => {{
                    let index = $index;
                    let mut rd = bam::io::Reader::new(Cursor::new(&data.bam[..]));
                    if let Ok(header) = rd.read_header() {
                        for region in &regions {
                            if let Ok(q) = rd.query(&header, &index, region) {
                                for (i, rec) in q.records().enumerate() {
                                    if rec.is_err() || i > MAX_RESULTS {
                                        break;
                                    }
                                }
                            }
                        }
                        if let Ok(q) = rd.query_unmapped(&index) {
                            for (i, rec) in q.enumerate() {
                                if rec.is_err() || i > MAX_RESULTS {
                                    break;
                                }
                            }
                        }
                    }
                    // and through the bgzipped VCF reader (tabix-style name resolution)
                    let mut vr = noodles_vcf::io::Reader::new(bgzf::io::Reader::new(Cursor::new(&data.vcf_gz[..])));
                    if let Ok(vh) = vr.read_header() {
                        for region in &regions {
                            if let Ok(q) = vr.query(&vh, &index, region) {
                                for (i, rec) in q.records().enumerate() {
                                    if rec.is_err() || i > MAX_RESULTS {
                                        break;
                                    }
                                }
                            }
                        }
                    }
                    use csi::BinningIndex;
                    use csi::binning_index::ReferenceSequence as _;
                    let _ = index.header();
                    let _ = index.unplaced_unmapped_record_count();
                    let _ = index.last_first_record_start_position();
                    for rs in index.reference_sequences() {
                        let _ = format!("{:?}", rs.metadata());
                    }
                }};
            }
            match kind {
                "bai" => {
                    if let Ok(ix) = bam::bai::io::Reader::new(index_bytes).read_index() {
                        run_bam!(ix)
                    }
                }
                "csi" => {
                    if let Ok(ix) = csi::io::Reader::new(index_bytes).read_index() {
                        run_bam!(ix)
                    }
                }
                _ => {
                    if let Ok(ix) = tabix::io::Reader::new(index_bytes).read_index() {
                        run_bam!(ix)
                    }
                }
            }
        }
        "gzi" => {
            if let Ok(ix) = bgzf::gzi::io::Reader::new(index_bytes).read_index() {
                let mut rd = bgzf::io::Reader::new(Cursor::new(&data.bam[..]));
                let mut buf = [0u8; 64];
                for p in [0u64, 1, 100, 65535, 65536, 1 << 20, u32::MAX as u64, u64::MAX / 2, u64::MAX] {
                    let _ = ix.query(p);
                    if rd.seek_by_uncompressed_position(&ix, p).is_ok() {
                        let _ = rd.read(&mut buf);
                    }
                }
                if let Ok(mut ir) = std::panic::catch_unwind(|| 0).map(|_| bgzf::io::IndexedReader::new(Cursor::new(&data.bam[..]), ix.clone())) {
                    use std::io::{Seek, SeekFrom};
                    for p in [0u64, 7, 70000, u64::MAX] {
                        if ir.seek(SeekFrom::Start(p)).is_ok() {
                            let _ = ir.read(&mut buf);
                        }
                    }
                }
            }
        }
        "fai" => {
            if let Ok(ix) = fasta::fai::io::Reader::new(index_bytes).read_index() {
                let names: Vec<String> = ix.as_ref().iter().map(|r| String::from_utf8_lossy(r.name().as_ref()).into_owned()).take(6).collect();
                let mut ir = fasta::io::IndexedReader::new(Cursor::new(&data.fasta[..]), ix);
                for n in names.iter().map(|s| s.as_str()).chain(["sq0", "sq1"]) {
                    for suffix in ["", ":1-10", ":5", ":100000-100010"] {
                        if let Ok(region) = format!("{n}{suffix}").parse::<Region>() {
                            let _ = ir.query(&region);
                        }
                    }
                }
            }
        }
        "crai" => {
            if let Ok(ix) = cram::crai::io::Reader::new(index_bytes).read_index() {
                let mut rd = cram::io::reader::Builder::default().set_reference_sequence_repository(data.repo.clone()).build_from_reader(Cursor::new(&data.cram[..]));
                if let Ok(header) = rd.read_header() {
                    for region in &regions {
                        if let Ok(q) = rd.query(&header, &ix, region) {
                            for (i, rec) in q.records().enumerate() {
                                if rec.is_err() || i > MAX_RESULTS {
                                    break;
                                }
                            }
                        }
                    }
                    if let Ok(q) = rd.query_unmapped(&header, &ix) {
                        for (i, rec) in q.enumerate() {
                            if rec.is_err() || i > MAX_RESULTS {
                                break;
                            }
                        }
                    }
                }
            }
        }
        _ => {}
    });
    if let Err(info) = r {
        if info.in_harness() {
            fails.push(shard::HARNESS_PANIC, info.describe());
        } else {
            fails.push(info.sig(), format!("{} while querying with a corrupted {kind} index ({what})", info.describe()));
        }
    }
}

struct DataFile {
    bam: Vec<u8>,
    vcf_gz: Vec<u8>,
    fasta: Vec<u8>,
    cram: Vec<u8>,
    repo: fasta::Repository,
}

fn data_file(doc: &Option<Doc>) -> DataFile {
    // a fixed small sorted document when none is given
    let aln = match doc {
        Some(Doc::Aln(a)) => a.sorted(),
        _ => drivers::AlnDoc { refs: vec![900, 500], ref_seed: 5, read_group: false, comments: vec![], records: vec![], flush_every: 2 },
    };
    let mut bam = Vec::new();
    let _ = drivers::sync::write_bam(&aln, &mut bam);
    let mut cram = Vec::new();
    let _ = drivers::sync::write_cram(&aln, &mut cram, Some(3));
    let var = drivers::VarDoc { contigs: vec![5000, 3000], samples: 1, records: vec![], flush_every: 0, minor: 2 };
    let mut vcf_gz = Vec::new();
    let _ = drivers::by_name("vcf.gz").unwrap().write(&Doc::Var(var), &mut vcf_gz);
    let mut fasta = Vec::new();
    for (name, seq) in aln.references() {
        fasta.extend_from_slice(format!(">{name}\n").as_bytes());
        for ch in seq.chunks(60) {
            fasta.extend_from_slice(ch);
            fasta.push(b'\n');
        }
    }
    DataFile { bam, vcf_gz, fasta, cram, repo: drivers::sync::repository_of(&aln) }
}

fn check(t: &Target, c: &Case) -> Verdict {
    let drv = drivers::by_name(t.driver).ok_or_else(|| vec![Fail::new(shard::HARNESS_PANIC, format!("no driver {}", t.driver))])?;
    let extra = t.extra_driver.and_then(drivers::by_name);
    let file = match drivers::write_to_vec(drv.as_ref(), &c.doc) {
        Ok(b) => b,
        Err(e) => return fail1(format!("c15.baseline-write-error:{}", t.name), format!("writing the generated document failed: {e}")),
    };
    let mut prep = match prepare(t, &file) {
        Ok(p) => p,
        Err(e) => return fail1(format!("c15.baseline-prepare:{}", t.name), e),
    };
    if let Some(b) = c.base_hex.as_deref().and_then(unhex) {
        prep.base = b;
    }
    let pin_base = t.driver == "cram";
    let patch_for = |i: usize| -> serde_json::Value {
        if pin_base { serde_json::json!({"only": i, "base_hex": hex(&prep.base)}) } else { serde_json::json!({"only": i}) }
    };
    let is_index = matches!(t.driver, "bai" | "csi" | "tabix" | "gzi" | "fai" | "crai");
    let data = if is_index { Some(data_file(&c.data_doc)) } else { None };
    let fields = length_fields(t, &prep.base);
    // indices into the unfiltered family are what replay files pin (`only`), so they stay valid when
    // the sampling of length-inflating mutants changes
    let mut muts: Vec<Mutation> = family(prep.base.len(), c.seed);
    // appended (so that the indices of the generic family, which replay files pin, stay valid):
    // values that matter through arithmetic rather than as raw boundary words
    muts.extend(arithmetic_mutants(t, &prep.base));
    let dropped: Vec<bool> = muts.iter().enumerate().map(|(i, m)| inflates_length_field(t, &prep.base, &fields, m, crate::engine::mix(c.seed as u64, i as u64))).collect();
    let dropped_inflating = dropped.iter().filter(|d| **d).count() as u64;
    let opts = ReadOpts { sweep: true, vpos: false, max_events: 20_000, exclude_known_hangs: c.only.is_none(), ..ReadOpts::default() };
    let mut fails = Fails::new();
    let mut past_validation = 0u64;
    let mut n = 0u64;
    let mut unattributed_deaths = 0u64;
    // one mutant: read with every driver of the target (+ query battery); panics are caught per call
    let run_one = |i: usize| -> (bool, Vec<Fail>) {
        let m = &muts[i];
        let mut f = Fails::new();
        let mut past = false;
        let bytes = Arc::new(finalize(t, &prep, apply(&prep.base, m)));
        let what = format!("mutant #{i} {m:?} of a {}-byte input", prep.base.len());
        for d in std::iter::once(&drv).chain(extra.iter()) {
            let r = panics::catch(|| d.read(&bytes, &Delivery::Plain, &c.doc, &opts));
            match r {
                Ok((tr, _)) => {
                    if tr.iter().any(|e| matches!(e, Ev::Header(_) | Ev::Record(_) | Ev::Index(_))) {
                        past = true;
                    }
                    if tr.iter().any(|e| matches!(e, Ev::Runaway)) {
                        f.push(format!("c15.runaway:{}", d.name()), format!("reader keeps producing events on {what}"));
                    }
                }
                Err(info) => {
                    if info.in_harness() {
                        f.push(shard::HARNESS_PANIC, info.describe());
                    } else {
                        f.push(info.sig(), format!("{} — reader {} on {what}", info.describe(), d.name()));
                    }
                }
            }
        }
        if let Some(df) = &data {
            query_battery(t.driver, &bytes, df, &mut f, &what);
        }
        (past, f.0)
    };
    if let Some(only) = c.only {
        // a single mutant (replay files): in this process, so that the engine's isolated replay
        // attributes an abort or hang with a backtrace
        if (only as usize) < muts.len() {
            n = 1;
            // the same cap as in the forked batches of the search, so that a replay sees what it saw
            forked::cap_address_space();
            if std::env::var_os("NV_TRACE_MUTANT").is_some() {
                eprintln!("mutant #{only} {:?}", muts[only as usize]);
            }
            let (past, fs) = run_one(only as usize);
            past_validation += past as u64;
            for f in fs {
                fails.push_fail(f.with_patch(patch_for(only as usize)));
            }
        }
    } else {
        // the whole family: in forked batches, so that an abort (refused allocation, stack
        // overflow) or a hang costs one mutant, is attributed to it, and the family goes on
        let stderr_path = env().tmp_dir.join(format!("c15-{}-stderr.txt", std::process::id()));
        let mut start = inner_skip().map(|h| h as usize + 1).unwrap_or(0);
        let mut attributed = 0u32;
        // dropped (sampled-out) mutants are skipped inside the batch and reported as not run
        let run_kept = |i: usize| -> (bool, Vec<Fail>) { if dropped[i] { (false, vec![Fail::new(SKIPPED, "")]) } else { run_one(i) } };
        while start < muts.len() && fails.0.len() < 16 {
            let (outs, end) = forked::run_batch(start, muts.len(), &run_kept, &stderr_path, 8_000);
            for o in outs {
                if o.fails.iter().any(|f| f.sig == SKIPPED) {
                    continue;
                }
                n += 1;
                past_validation += o.past as u64;
                for f in o.fails {
                    fails.push_fail(f.with_patch(patch_for(o.idx)));
                }
            }
            match end {
                forked::BatchEnd::Done => break,
                forked::BatchEnd::Died { at, signal } => {
                    n += 1;
                    if std::env::var_os("NV_C15_DEBUG").is_some() {
                        eprintln!("[c15] death at mutant #{at} {:?}", muts[at]);
                    }
                    let signame = orchestrate::signal_name(signal);
                    // Attribution needs a symbolised backtrace from a re-run of that one mutant, which
                    // costs seconds; the same few sites abort again and again within a case (every
                    // mutant that makes one count field huge), so only the first three deaths of a
                    // case are attributed and the later ones are counted as unattributed.
                    // The dying child leaves a raw (unsymbolised) backtrace; forked children share
                    // the parent's address space layout, so equal raw backtraces mean the same site.
                    // Only the first death per distinct raw backtrace is re-run alone with a
                    // symbolised backtrace (seconds); the others reuse its attribution.
                    let err0 = std::fs::read_to_string(&stderr_path).unwrap_or_default();
                    let raw = forked::raw_backtrace(&err0);
                    let cached = raw.as_ref().and_then(|k| forked::SITES.lock().ok().and_then(|m| m.get(k).cloned()));
                    // a refused allocation says so on stderr: the class needs no re-run (and inside a
                    // batch the headroom left depends on what earlier mutants left mapped, so a re-run
                    // alone may well be served)
                    let refused = err0.lines().find(|l| l.contains("memory allocation of")).map(|l| l.trim().to_string());
                    let sig_msg: Option<(String, String)> = if let Some(line) = refused {
                        Some((format!("abort:{signame}:memory-allocation-refused@{}", t.name), format!("process died with {signame} — {line} — on mutant #{at} {:?} of a {}-byte input", muts[at], prep.base.len())))
                    } else if let Some(sig) = cached {
                        Some((sig, format!("process died with {signame} on mutant #{at} {:?} of a {}-byte input", muts[at], prep.base.len())))
                    } else if attributed < 12 {
                        attributed += 1;
                        if std::env::var_os("NV_C15_DEBUG").is_some() {
                            eprintln!("[c15] attributing (symbolised re-run) mutant #{at}");
                        }
                        unsafe { std::env::set_var("RUST_BACKTRACE", "1") };
                        let (_, end2) = forked::run_batch_opts(at, at + 1, &run_one, &stderr_path, 90_000, false);
                        unsafe { std::env::remove_var("RUST_BACKTRACE") };
                        if let forked::BatchEnd::Died { signal: s2, .. } = end2 {
                            let err = std::fs::read_to_string(&stderr_path).unwrap_or_default();
                            let (site, first) = orchestrate::abort_site(&err);
                            let signame2 = orchestrate::signal_name(s2);
                            // a refused allocation is one class per target, whichever site asked
                            // (see the cap in `forked`): the defect is "allocates what a length field
                            // says before checking it against the input"
                            let sig = if first.contains("memory allocation of") {
                                format!("abort:{signame2}:memory-allocation-refused@{}", t.name)
                            } else {
                                match site {
                                    Some(f) => format!("abort:{signame2}:{f}"),
                                    None => format!("abort:{signame2}@{}", t.name),
                                }
                            };
                            if let (Some(k), Ok(mut m)) = (raw, forked::SITES.lock()) {
                                m.insert(k, sig.clone());
                            }
                            Some((sig, format!("process died with {signame2} — {} — on mutant #{at} {:?} of a {}-byte input", trunc(&first, 200), muts[at], prep.base.len())))
                        } else {
                            Some((format!("abort:{signame}@{}", t.name), format!("process died with {signame} (not reproduced alone) on mutant #{at} {:?} of a {}-byte input", muts[at], prep.base.len())))
                        }
                    } else {
                        unattributed_deaths += 1;
                        None
                    };
                    if let Some((sig, msg)) = sig_msg {
                        fails.push_fail(Fail::new(sig, msg).with_patch(patch_for(at)));
                    }
                    start = at + 1;
                }
                forked::BatchEnd::Hung { at } => {
                    if std::env::var_os("NV_C15_DEBUG").is_some() {
                        eprintln!("[c15] no progress for 8 s at mutant #{at} {:?}", muts[at]);
                    }
                    // reproduce alone with ten times the budget before it counts
                    let (_, end2) = forked::run_batch(at, at + 1, &run_one, &stderr_path, 80_000);
                    n += 1;
                    if matches!(end2, forked::BatchEnd::Hung { .. }) {
                        fails.push_fail(Fail::new(format!("hang@{}", t.name), format!("reader does not return within 80 s on mutant #{at} {:?} of a {}-byte input", muts[at], prep.base.len())).with_patch(patch_for(at)));
                    }
                    start = at + 1;
                }
            }
        }
        let _ = std::fs::remove_file(&stderr_path);
    }
    fails.finish(
        Pass::new(past_validation > 0, key_of(&c.doc))
            .evals(n.max(1))
            .label_if(past_validation > 0, "mutants-past-first-validation")
            .label_if(past_validation * 2 > n, "majority-past-first-validation")
            .label_if(prep.base.len() <= ALL_POSITIONS_LIMIT, "every-position")
            .label_if(prep.base.len() > ALL_POSITIONS_LIMIT, "sampled-positions")
            .label_if(dropped_inflating > 0, "length-inflating-mutants-sampled")
            .label_if(unattributed_deaths > 0, "further-deaths-in-case-not-attributed"),
    )
}

/// Arbitrary index *values* (not files): unsorted gzi entries, crai records and fai records with
/// arbitrary numbers, used to query valid data.
#[derive(Clone, Debug, Serialize, Deserialize)]
pub struct ArbIndexCase {
    pub gzi: Vec<(u64, u64)>,
    pub crai: Vec<(Option<u32>, u32, u32, u64, u64, u64)>,
    pub fai: Vec<(u64, u64, u32, u32)>,
    pub positions: Vec<u64>,
}

fn arb_u64() -> BoxedStrategy<u64> {
    prop_oneof![0u64..70000, any::<u64>(), proptest::sample::select(vec![0u64, 1, 65535, 65536, 65537, u32::MAX as u64, u64::MAX, u64::MAX - 1, 1 << 48, (1 << 48) - 1])].boxed()
}

fn check_arb_index(c: &ArbIndexCase) -> Verdict {
    let df = data_file(&None);
    let mut fails = Fails::new();
    let r = panics::catch(|| {
        // gzi
        let ix = bgzf::gzi::Index::from(c.gzi.clone());
        let mut rd = bgzf::io::Reader::new(Cursor::new(&df.bam[..]));
        let mut buf = [0u8; 32];
        for p in &c.positions {
            let _ = ix.query(*p);
            if rd.seek_by_uncompressed_position(&ix, *p).is_ok() {
                let _ = rd.read(&mut buf);
            }
        }
        // crai
        let recs: Vec<cram::crai::Record> = c
            .crai
            .iter()
            .map(|(r, s, span, off, lm, sl)| cram::crai::Record::new(r.map(|x| x as usize), noodles_core::Position::new(*s as usize), *span as usize, *off, *lm, *sl))
            .collect();
        let mut cr = cram::io::reader::Builder::default().set_reference_sequence_repository(df.repo.clone()).build_from_reader(Cursor::new(&df.cram[..]));
        if let Ok(header) = cr.read_header() {
            for region in ["sq0", "sq0:1-50", "sq1:10-20"] {
                let region: Region = region.parse().unwrap();
                if let Ok(q) = cr.query(&header, &recs, &region) {
                    for (i, rec) in q.records().enumerate() {
                        if rec.is_err() || i > 2000 {
                            break;
                        }
                    }
                }
            }
            if let Ok(q) = cr.query_unmapped(&header, &recs) {
                for (i, rec) in q.enumerate() {
                    if rec.is_err() || i > 2000 {
                        break;
                    }
                }
            }
        }
        // fai
        let frecs: Vec<fasta::fai::Record> = c
            .fai
            .iter()
            .enumerate()
            .map(|(i, (len, off, lb, lw))| {
                fasta::fai::Record::new(format!("sq{i}"), *len, *off, std::num::NonZero::new((*lb as u64).max(1)).unwrap(), std::num::NonZero::new((*lw as u64).max(1)).unwrap())
            })
            .collect();
        let mut ir = fasta::io::IndexedReader::new(Cursor::new(&df.fasta[..]), fasta::fai::Index::from(frecs));
        for region in ["sq0", "sq0:1-10", "sq1:5", "sq0:400-500", "sq1"] {
            let region: Region = region.parse().unwrap();
            let _ = ir.query(&region);
        }
    });
    if let Err(info) = r {
        if info.in_harness() {
            fails.push(shard::HARNESS_PANIC, info.describe());
        } else {
            fails.push(info.sig(), format!("{} while querying valid data with an arbitrary index value", info.describe()));
        }
    }
    fails.finish(Pass::new(!c.gzi.is_empty() || !c.crai.is_empty() || !c.fai.is_empty(), key_of(c)))
}

// ---------------------------------------------------------------------------------------------
// CRAM block codecs and integer codings on hostile streams (through the H2a hook)

/// One valid compressed stream (a generated input run through noodles' own encoder) and its dense
/// mutant family, handed to the decoder with the sizes a CRAM block header would supply.
#[derive(Clone, Debug, Serialize, Deserialize)]
pub struct CodecCase {
    /// selects the codec (index into `c08::DECODE_ARBITRARY_IDS`)
    pub codec: u8,
    pub data: super::c08::Data,
    /// option bits for rANS Nx16 / the arithmetic coder, order for rANS 4x8, level for the general ones
    pub flags: u8,
    pub seed: u32,
    /// restrict to one mutant (replay files)
    pub only: Option<u32>,
}

fn codec_stream(c: &CodecCase) -> Option<(u8, Vec<u8>, usize)> {
    use super::c08::{self, Out, guard};
    use noodles_cram::codecs::{aac, rans_4x8, rans_nx16};
    use noodles_cram::verif as nv;
    let id = c08::DECODE_ARBITRARY_IDS[c.codec as usize % c08::DECODE_ARBITRARY_IDS.len()];
    let mut x = c.data.expand();
    x.truncate(700);
    let flags = c.flags & !0x02;
    let enc: Out<Vec<u8>> = match id {
        1 => guard(|| nv::gzip_encode(flate2::Compression::new((c.flags % 10) as u32), &x)),
        2 => guard(|| nv::bzip2_encode(bzip2::Compression::new(1 + (c.flags % 9) as u32), &x)),
        3 => guard(|| nv::lzma_encode((c.flags % 10) as u32, &x)),
        4 => guard(|| nv::rans_4x8_encode(if c.flags & 1 != 0 { rans_4x8::Order::One } else { rans_4x8::Order::Zero }, &x)),
        5 => guard(|| nv::rans_nx16_encode(rans_nx16::Flags::from(flags), &x)),
        6 => guard(|| nv::aac_encode(aac::Flags::from(flags), &x)),
        7 => {
            // quality-like symbols in records of a length derived from the flags
            let q: Vec<u8> = x.iter().map(|b| b % 64).collect();
            let rl = 1 + (c.flags as usize % 37);
            let mut lens: Vec<usize> = std::iter::repeat(rl).take(q.len() / rl).collect();
            if q.len() % rl != 0 {
                lens.push(q.len() % rl);
            }
            x = q;
            guard(|| nv::fqzcomp_encode(&lens, &x))
        }
        8 => {
            // NUL-terminated names made of the data: letters, digits and separators
            let mut names = Vec::new();
            for (i, chunk) in x.chunks(1 + (c.flags as usize % 23)).enumerate().take(40) {
                names.extend(chunk.iter().map(|b| b"abcXYZ0123456789:_./-"[*b as usize % 21]));
                names.extend(format!(":{}", i * (1 + c.flags as usize % 7)).bytes());
                names.push(0);
            }
            x = names;
            guard(|| nv::name_tokenizer_encode(&x))
        }
        16 => {
            let n = i32::from_le_bytes([x.first().copied().unwrap_or(0), x.get(1).copied().unwrap_or(0), x.get(2).copied().unwrap_or(0), x.get(3).copied().unwrap_or(0)]);
            guard(|| {
                let mut v = Vec::new();
                nv::write_itf8(&mut v, n).map(|_| v)
            })
        }
        17 => {
            let mut b = [0u8; 8];
            for (i, s) in x.iter().take(8).enumerate() {
                b[i] = *s;
            }
            guard(|| {
                let mut v = Vec::new();
                nv::write_ltf8(&mut v, i64::from_le_bytes(b)).map(|_| v)
            })
        }
        _ => {
            let n = u32::from_le_bytes([x.first().copied().unwrap_or(0), x.get(1).copied().unwrap_or(0), x.get(2).copied().unwrap_or(0), x.get(3).copied().unwrap_or(0)]);
            guard(|| {
                let mut v = Vec::new();
                nv::write_uint7(&mut v, n).map(|_| v)
            })
        }
    };
    match enc {
        // encoder defects are C08's subject: no base stream, no case
        Out::Ok(e) if !e.is_empty() => Some((id, e, x.len())),
        _ => None,
    }
}

fn codec_family(base_len: usize, seed: u32) -> Vec<Mutation> {
    let mut out = Vec::new();
    let mut r = XorShift::new(seed as u64 + 7654321);
    for pos in 0..base_len {
        for sel in 0..BYTE_VALUES as u8 {
            out.push(Mutation::Byte { pos, sel });
        }
        let x = r.next();
        out.push(Mutation::Word { pos, width: 2, val: WORD_VALUES[(x % 8) as usize] });
        out.push(Mutation::Word { pos, width: 4, val: WORD_VALUES[((x >> 8) % 12) as usize] });
        out.push(Mutation::DeleteByte(pos));
        out.push(Mutation::DupByte(pos));
        out.push(Mutation::Truncate(pos));
    }
    for _ in 0..24 {
        let keep = [0usize, 1, 2, 4, 9, 16][(r.next() % 6) as usize].min(base_len);
        out.push(Mutation::Noise { keep, len: (r.next() % 300) as usize, seed: r.next() });
    }
    out
}

const CODEC_MAX_DECLARED: u64 = 1 << 16;
const CODEC_MUTANTS_PER_CASE: usize = 400;

fn check_codec(c: &CodecCase) -> Verdict {
    use super::c08;
    c08::limit_memory();
    let Some((id, base, raw_len)) = codec_stream(c) else {
        return Ok(Pass::new(false, key_of(c)).label("no-base-stream(encoder refused)"));
    };
    let name = ["?", "gzip", "bzip2", "lzma", "rans4x8", "rans_nx16", "aac", "fqzcomp", "name_tokenizer"].get(id as usize).copied().unwrap_or(match id {
        16 => "itf8",
        17 => "ltf8",
        _ => "uint7",
    });
    let muts = codec_family(base.len(), c.seed);
    let mut fails = Fails::new();
    let (mut n, mut bombs, mut decoded_ok) = (0u64, 0u64, 0u64);
    // at most CODEC_MUTANTS_PER_CASE mutants of a family are run (a stride through the family that
    // depends on the seed); replay files name the mutant by its index in the whole family
    let range: Vec<usize> = match c.only {
        Some(k) if (k as usize) < muts.len() => vec![k as usize],
        Some(_) => vec![],
        None if muts.len() <= CODEC_MUTANTS_PER_CASE || std::env::var_os("NV_CODEC_ALL").is_some() => (0..muts.len()).collect(),
        None => {
            let stride = muts.len().div_ceil(CODEC_MUTANTS_PER_CASE);
            ((c.seed as usize % stride)..muts.len()).step_by(stride).collect()
        }
    };
    for i in range {
        let m = apply(&base, &muts[i]);
        // a stream may announce any size; one that announces more than 64 KiB (for inputs of at most 700 bytes) is a decompression
        // bomb the format permits (time and memory are not this property's subject): not run
        if c08::declared_size(id, &m).is_some_and(|d| d > CODEC_MAX_DECLARED) {
            bombs += 1;
            continue;
        }
        // the uncompressed size the enclosing block header would state: the true one, and for some
        // mutants one that disagrees with the stream
        let hint = match i % 5 {
            0 => raw_len + 1,
            1 => raw_len.saturating_sub(1),
            _ => raw_len,
        };
        n += 1;
        if std::env::var_os("NV_TRACE_MUTANT").is_some() {
            eprintln!("codec mutant #{i} {:?}", muts[i]);
        }
        match panics::catch(|| c08::decode_arbitrary(id, &m, hint)) {
            Ok(Ok(_)) => decoded_ok += 1,
            Ok(Err(_)) => {}
            Err(info) => {
                if info.in_harness() {
                    fails.push_fail(Fail::new(shard::HARNESS_PANIC, info.describe()));
                } else {
                    fails.push_fail(Fail::new(info.sig(), format!("{} — {name} decoder on mutant #{i} {:?} of a {}-byte stream (size hint {hint})", info.describe(), muts[i], base.len())).with_patch(serde_json::json!({"only": i})));
                }
            }
        }
        if fails.0.len() >= 24 {
            break;
        }
    }
    fails.finish(
        Pass::new(n > 0, key_of(c))
            .evals(n.max(1))
            .label(name)
            .label_if(decoded_ok > 0, "some-mutants-decode")
            .label_if(bombs > 0, "oversize-announcements-not-run")
            .label_if(base.len() > 64, "stream>64B"),
    )
}

fn codec_strategy(_tier: Tier) -> BoxedStrategy<CodecCase> {
    use super::c08::Data;
    let data = prop_oneof![
        1 => proptest::collection::vec(any::<u8>(), 0..24).prop_map(Data::Lit),
        4 => (0u8..11, prop_oneof![0u32..40, 40u32..700], any::<u32>(), prop_oneof![1u16..5, 1u16..257]).prop_map(|(class, len, seed, k)| Data::Gen { class, len, seed, k }),
    ];
    (0u8..11, data, any::<u8>(), any::<u32>()).prop_map(|(codec, data, flags, seed)| CodecCase { codec, data, flags, seed, only: None }).boxed()
}

pub fn property() -> Property {
    let mut subs: Vec<Box<dyn DynSub>> = Vec::new();
    subs.push(
        sub(
            "codec-streams",
            "one case = one valid compressed stream of a CRAM block codec / integer coding (gzip, bzip2, lzma, rANS 4x8, rANS Nx16, arithmetic coder, fqzcomp, name tokenizer, ITF8, LTF8, uint7; noodles' own encoder on a generated input ≤700 bytes) and its dense mutant family (6 substitutions, 2 boundary words, delete, duplicate, truncate at every position, noise tails), decoded with the true and with off-by-one block sizes (at most 400 mutants per stream, by a seeded stride); evaluations counts decodes; non-trivial = ≥1 decode ran; streams announcing more than 64 KiB of output are not run",
            codec_strategy,
            check_codec,
            320,
            8_000,
        )
        .with(|o| {
            o.isolate = true;
            o.hang_is_violation = true;
            o.case_budget_s = 60;
            o.max_shrink_iters = 0;
        })
        .boxed(),
    );
    for t in TARGETS {
        let (q, th) = match t.name {
            "cram-sealed" | "cram-file" => (6, 200),
            "bgzf" => (8, 240),
            n if n.ends_with("-payload") => (10, 300),
            _ => (12, 400),
        };
        subs.push(
            ClosureSub::<Case> {
                name: t.name.to_string(),
                rule: "one case = one valid file and its deterministic mutant family (one byte substitution per position, boundary words at about half of the positions, byte deletions/duplications, truncations, noise behind the magic; every position for inputs ≤3000 bytes); evaluations counts mutants; non-trivial = at least one mutant got past the first validation layer (a header, record or index was returned); distinct by hash of the document".into(),
                strategy: Box::new(move |tier| {
                    let d = drivers::by_name(t.driver).unwrap();
                    let doc = if t.name == "bgzf" {
                        use crate::r#gen::payload::payload;
                        (payload(2500), proptest::collection::vec(0u16..=1000, 0..4), proptest::option::of(0u8..=9)).prop_map(|(payload, flushes, level)| Doc::Bytes { payload, flushes, level }).boxed()
                    } else {
                        d.doc(tier)
                    };
                    (doc, proptest::option::of(drivers::aln_doc(8).prop_map(Doc::Aln)), any::<u32>()).prop_map(|(doc, data_doc, seed)| Case { doc, data_doc, seed, only: None, base_hex: None }).boxed()
                }),
                check: Box::new(move |c| check(t, c)),
                quick: q,
                thorough: th,
                opts: SubOpts { max_shards: 4, isolate: true, hang_is_violation: true, case_budget_s: 60, max_shrink_iters: 0, timeout_s: (1500, 10800), ..SubOpts::default() },
            }
            .boxed(),
        );
    }
    subs.push(
        sub(
            "arbitrary-index-values",
            "arbitrary gzi entries (unsorted, huge), crai records and fai records used to seek/query valid BAM/CRAM/FASTA data; non-trivial = at least one index non-empty",
            |_| {
                (
                    proptest::collection::vec((arb_u64(), arb_u64()), 0..8),
                    proptest::collection::vec((proptest::option::of(0u32..4), any::<u32>(), any::<u32>(), arb_u64(), arb_u64(), arb_u64()), 0..6),
                    proptest::collection::vec((arb_u64(), arb_u64(), any::<u32>(), any::<u32>()), 0..3),
                    proptest::collection::vec(arb_u64(), 1..6),
                )
                    .prop_map(|(gzi, crai, fai, positions)| ArbIndexCase { gzi, crai, fai, positions })
                    .boxed()
            },
            check_arb_index,
            1500,
            40_000,
        )
        .with(|o| {
            o.isolate = true;
            o.hang_is_violation = true;
            o.case_budget_s = 20;
        })
        .boxed(),
    );
    Property {
        id: "C15",
        level: "exploration",
        rule: "valid files / indexes per target × mutation family (byte substitutions at every position, boundary words, deletions, truncations, noise) applied where it reaches the decoders (uncompressed BAM/BCF, re-framed BGZF payloads, re-sealed CRAM) with the accessor sweep on; index mutants that read Ok query valid data",
        assumptions: vec![
            "a panic is attributed to noodles when its location is outside the harness sources (dependencies called by noodles included)".into(),
            "successful large allocations are not failures; watchdog expiry counts only when reproduced alone with the 10× budget".into(),
            "codec-streams: a stream that announces more than 64 KiB of output is not run (the format permits it; time and memory are not this property's subject)".into(),
        ],
        subs,
        max_parallel: 8,
    }
}

/// Run a range of inner evaluations in a forked child process, streaming the per-evaluation
/// results to the parent through a pipe. If the child dies or stops making progress, the parent
/// knows which evaluation was running.
mod forked {
    use crate::engine::Fail;
    use std::path::Path;

    pub struct Out {
        pub idx: usize,
        pub past: bool,
        pub fails: Vec<Fail>,
    }

    pub enum BatchEnd {
        Done,
        Died { at: usize, signal: i32 },
        Hung { at: usize },
    }

    fn put(fd: i32, bytes: &[u8]) {
        let mut off = 0;
        while off < bytes.len() {
            let n = unsafe { libc::write(fd, bytes[off..].as_ptr() as *const libc::c_void, bytes.len() - off) };
            if n <= 0 {
                unsafe { libc::_exit(3) };
            }
            off += n as usize;
        }
    }

    /// Parse complete records from `buf`; returns the number of bytes consumed.
    fn parse(buf: &[u8], outs: &mut Vec<Out>, started: &mut Option<usize>, done: &mut bool) -> usize {
        let mut p = 0;
        loop {
            let Some(tag) = buf.get(p) else { return p };
            match tag {
                b'S' => {
                    let Some(b) = buf.get(p + 1..p + 5) else { return p };
                    *started = Some(u32::from_le_bytes([b[0], b[1], b[2], b[3]]) as usize);
                    p += 5;
                }
                b'E' => {
                    let Some(h) = buf.get(p + 1..p + 4) else { return p };
                    let past = h[0] != 0;
                    let nf = u16::from_le_bytes([h[1], h[2]]) as usize;
                    let mut q = p + 4;
                    let mut fails = Vec::new();
                    for _ in 0..nf {
                        let mut strs = Vec::new();
                        for _ in 0..2 {
                            let Some(l) = buf.get(q..q + 2) else { return p };
                            let len = u16::from_le_bytes([l[0], l[1]]) as usize;
                            let Some(sb) = buf.get(q + 2..q + 2 + len) else { return p };
                            strs.push(String::from_utf8_lossy(sb).into_owned());
                            q += 2 + len;
                        }
                        fails.push(Fail::new(strs[0].clone(), strs[1].clone()));
                    }
                    outs.push(Out { idx: started.unwrap_or(0), past, fails });
                    *started = None;
                    p = q;
                }
                b'D' => {
                    *done = true;
                    p += 1;
                }
                _ => return buf.len(), // corrupt stream: drop
            }
        }
    }

    /// raw backtrace (as written by the child's SIGABRT handler) → attributed signature
    pub static SITES: std::sync::Mutex<std::collections::BTreeMap<String, String>> = std::sync::Mutex::new(std::collections::BTreeMap::new());

    /// The "RAWBT …" line of a dead child's stderr.
    pub fn raw_backtrace(stderr: &str) -> Option<String> {
        stderr.lines().find(|l| l.starts_with("RAWBT ")).map(|l| l.to_string())
    }

    extern "C" fn on_abort(_sig: libc::c_int) {
        // async-signal-safe only: backtrace() (pre-loaded below), write(), _exit()
        let mut frames = [std::ptr::null_mut::<libc::c_void>(); 40];
        let n = unsafe { libc::backtrace(frames.as_mut_ptr(), 40) };
        let mut line = [0u8; 40 * 17 + 8];
        let mut p = 0;
        for b in b"RAWBT " {
            line[p] = *b;
            p += 1;
        }
        for f in frames.iter().take(n.max(0) as usize) {
            let mut v = *f as usize;
            let mut digits = [0u8; 16];
            for d in digits.iter_mut().rev() {
                *d = b"0123456789abcdef"[v & 15];
                v >>= 4;
            }
            for d in digits {
                line[p] = d;
                p += 1;
            }
            line[p] = b',';
            p += 1;
        }
        line[p] = b'\n';
        p += 1;
        unsafe {
            libc::write(2, line.as_ptr() as *const libc::c_void, p);
            libc::_exit(134);
        }
    }

    /// Soft RLIMIT_AS = what is mapped now + 2 GiB.
    pub fn cap_address_space() {
        let mapped: u64 = std::fs::read_to_string("/proc/self/statm").ok().and_then(|t| t.split_whitespace().next().and_then(|p| p.parse::<u64>().ok())).map(|pages| pages * 4096).unwrap_or(2 << 30);
        let cap = mapped + (2 << 30);
        let mut lim = libc::rlimit { rlim_cur: 0, rlim_max: 0 };
        // SAFETY: plain syscalls with a valid pointer.
        unsafe {
            if libc::getrlimit(libc::RLIMIT_AS, &mut lim) == 0 {
                lim.rlim_cur = if lim.rlim_max == libc::RLIM_INFINITY { cap } else { cap.min(lim.rlim_max) };
                libc::setrlimit(libc::RLIMIT_AS, &lim);
            }
        }
    }

    pub fn run_batch(start: usize, end: usize, run: &dyn Fn(usize) -> (bool, Vec<Fail>), stderr_path: &Path, per_eval_timeout_ms: i32) -> (Vec<Out>, BatchEnd) {
        run_batch_opts(start, end, run, stderr_path, per_eval_timeout_ms, true)
    }

    pub fn run_batch_opts(start: usize, end: usize, run: &dyn Fn(usize) -> (bool, Vec<Fail>), stderr_path: &Path, per_eval_timeout_ms: i32, raw_handler: bool) -> (Vec<Out>, BatchEnd) {
        let mut fds = [0i32; 2];
        if unsafe { libc::pipe(fds.as_mut_ptr()) } != 0 {
            // cannot fork-isolate: run in process
            let mut outs = Vec::new();
            for i in start..end {
                let (past, fails) = run(i);
                outs.push(Out { idx: i, past, fails });
            }
            return (outs, BatchEnd::Done);
        }
        let stderr_c = std::ffi::CString::new(stderr_path.to_string_lossy().as_bytes()).unwrap_or_default();
        let pid = unsafe { libc::fork() };
        if pid == 0 {
            // child
            unsafe {
                libc::close(fds[0]);
                let efd = libc::open(stderr_c.as_ptr(), libc::O_WRONLY | libc::O_CREAT | libc::O_TRUNC, 0o600);
                if efd >= 0 {
                    libc::dup2(efd, 2);
                }
            }
            crate::engine::shard::case_finished(); // the parent's per-case watchdog does not exist here
            // Address-space cap for this batch (soft limit, relative to what is mapped now, 2 GiB of
            // headroom): a mutant that turns a length field into gigabytes gets its request refused at
            // once instead of being served — several shards zero-filling 4 GiB each at the same time
            // put a smaller machine under memory pressure, and a reader that returns after two
            // minutes of page faults looked like one that does not return (a false "hang", seen in a
            // fresh sandbox under seed 1). A refused request aborts; that is one listed class per target.
            cap_address_space();
            if raw_handler {
                unsafe {
                    // load the unwinder now: backtrace() must not allocate inside the handler
                    let mut warm = [std::ptr::null_mut::<libc::c_void>(); 4];
                    libc::backtrace(warm.as_mut_ptr(), 4);
                    libc::signal(libc::SIGABRT, on_abort as *const () as usize);
                }
            }
            for i in start..end {
                let mut rec = vec![b'S'];
                rec.extend_from_slice(&(i as u32).to_le_bytes());
                put(fds[1], &rec);
                let (past, fails) = run(i);
                let mut rec = vec![b'E', past as u8];
                rec.extend_from_slice(&(fails.len().min(16) as u16).to_le_bytes());
                for f in fails.iter().take(16) {
                    for s in [&f.sig, &f.msg] {
                        let b = s.as_bytes();
                        let b = &b[..b.len().min(1500)];
                        rec.extend_from_slice(&(b.len() as u16).to_le_bytes());
                        rec.extend_from_slice(b);
                    }
                }
                put(fds[1], &rec);
            }
            put(fds[1], b"D");
            unsafe { libc::_exit(0) };
        }
        unsafe { libc::close(fds[1]) };
        if pid < 0 {
            unsafe { libc::close(fds[0]) };
            let mut outs = Vec::new();
            for i in start..end {
                let (past, fails) = run(i);
                outs.push(Out { idx: i, past, fails });
            }
            return (outs, BatchEnd::Done);
        }
        let mut outs = Vec::new();
        let mut started: Option<usize> = None;
        let mut last_started = start;
        let mut done = false;
        let mut buf: Vec<u8> = Vec::new();
        let mut hung = false;
        loop {
            let mut pfd = libc::pollfd { fd: fds[0], events: libc::POLLIN, revents: 0 };
            let r = unsafe { libc::poll(&mut pfd, 1, per_eval_timeout_ms) };
            if r == 0 {
                hung = true;
                unsafe { libc::kill(pid, libc::SIGKILL) };
                break;
            }
            if r < 0 {
                continue;
            }
            let mut tmp = [0u8; 65536];
            let k = unsafe { libc::read(fds[0], tmp.as_mut_ptr() as *mut libc::c_void, tmp.len()) };
            if k <= 0 {
                break;
            }
            buf.extend_from_slice(&tmp[..k as usize]);
            let used = parse(&buf, &mut outs, &mut started, &mut done);
            buf.drain(..used);
            if let Some(s) = started {
                last_started = s;
            }
        }
        unsafe { libc::close(fds[0]) };
        let mut status = 0i32;
        unsafe { libc::waitpid(pid, &mut status, 0) };
        if hung {
            return (outs, BatchEnd::Hung { at: started.unwrap_or(last_started) });
        }
        if done && libc::WIFEXITED(status) && libc::WEXITSTATUS(status) == 0 {
            return (outs, BatchEnd::Done);
        }
        // exit code 134 = our SIGABRT handler wrote the raw backtrace and left
        let signal = if libc::WIFSIGNALED(status) {
            libc::WTERMSIG(status)
        } else if libc::WIFEXITED(status) && libc::WEXITSTATUS(status) == 134 {
            libc::SIGABRT
        } else {
            0
        };
        (outs, BatchEnd::Died { at: started.unwrap_or(last_started), signal })
    }
}
