//! C16 — async readers and writers behave exactly like their synchronous counterparts.
//!
//! Readers: transcript(async reader over a scripted poll adversary) = transcript(sync reader over the
//! same bytes) — headers, records, virtual positions and the first error (stage and kind). Inputs:
//! valid files written by the sync writers, and (class `damaged`, own signatures) truncated or
//! corrupted variants for the "same errors" clause.
//! Writers: what the async writer puts into a scripted sink decodes to the same transcript as the
//! sync writer's output; byte-identical where no compression is involved (SAM, VCF, FASTQ, BAI, gzi,
//! fai) and identical after BGZF decoding for CSI / tabix payloads.

use crate::drivers::asyncs::{has_async_reader, has_async_writer, read_async, write_async};
use crate::drivers::{self, Delivery, Doc, Ev, ReadOpts, summarize};
use crate::engine::shard::ClosureSub;
use crate::engine::*;
use crate::io_adv::async_adv::PollScript;
use crate::oracle::bgzf_walk;
use proptest::prelude::*;
use serde::{Deserialize, Serialize};
use std::sync::Arc;

#[derive(Clone, Debug, Serialize, Deserialize)]
pub enum Damage {
    None,
    /// cut at per-mille of the length
    Truncate(u16),
    /// flip one byte at per-mille of the length
    Flip(u16, u8),
    /// not a damage: an empty BGZF member (the EOF marker block) inserted at the member boundary
    /// selected per-mille — the valid `cat a.bgz b.bgz` shape (BGZF based files only)
    EmptyMember(u16),
    /// not a damage: the document as text rendered by the harness itself instead of by a noodles
    /// writer (CRLF line ends, no final newline, raw UTF-8) — text formats only
    RawText,
    /// not a damage: the BGZF payload re-cut into blocks at arbitrary byte offsets (BGZF based
    /// files only): block boundaries inside records, length prefixes and lines
    Reframe(u32),
}

#[derive(Clone, Debug, Serialize, Deserialize)]
pub struct Case {
    pub doc: Doc,
    pub script: PollScript,
    pub workers: u8,
    pub damage: Damage,
}

fn script() -> BoxedStrategy<PollScript> {
    prop_oneof![
        1 => Just(PollScript { steps: vec![] }),
        2 => Just(PollScript { steps: vec![0, 1] }),
        3 => proptest::collection::vec(prop_oneof![2 => Just(0u32), 3 => 1u32..8, 2 => 1u32..700, 1 => Just(70_000u32)], 1..7).prop_map(|steps| PollScript { steps }),
    ]
    .boxed()
}

fn first_diff(a: &[Ev], b: &[Ev]) -> String {
    let i = a.iter().zip(b.iter()).position(|(x, y)| x != y).unwrap_or(a.len().min(b.len()));
    format!(
        "event {i}: sync={} async={}",
        a.get(i).map(|e| trunc(&format!("{e:?}"), 300)).unwrap_or("<none>".into()),
        b.get(i).map(|e| trunc(&format!("{e:?}"), 300)).unwrap_or("<none>".into())
    )
}

fn check_reader(name: &'static str, c: &Case) -> Verdict {
    let drv = drivers::by_name(name).unwrap();
    let mut bytes = match drivers::write_to_vec(drv.as_ref(), &c.doc) {
        Ok(b) => b,
        Err(e) => return fail1(format!("c16.baseline-write-error:{name}"), format!("{e}")),
    };
    let damaged = match &c.damage {
        Damage::None => false,
        Damage::Truncate(pm) => {
            let k = (*pm as usize % 1001) * bytes.len() / 1000;
            bytes.truncate(k);
            true
        }
        Damage::Flip(pm, x) => {
            if !bytes.is_empty() {
                let k = ((*pm as usize % 1000) * bytes.len() / 1000).min(bytes.len() - 1);
                bytes[k] ^= (*x).max(1);
            }
            true
        }
        Damage::EmptyMember(sel) => {
            if drv.is_bgzf() {
                if let Some(b) = crate::oracle::bgzf_walk::with_empty_member(&bytes, *sel) {
                    bytes = b;
                }
            }
            false
        }
        Damage::RawText => {
            if let Some(b) = drv.raw_input(&c.doc) {
                bytes = b;
            }
            false
        }
        Damage::Reframe(seed) => {
            if drv.is_bgzf() {
                use crate::oracle::{bgzf_walk, framing};
                // BAM, every other seed: NUL padding behind the header text first (legal per
                // SAMv1 §4.2, never written by noodles; the readers have a branch for it)
                if name.starts_with("bam") && seed % 2 == 0 {
                    let k = 1 + (*seed as usize / 2) % 300;
                    if let Some(p) = bgzf_walk::walk(&bytes).ok().map(|m| bgzf_walk::concat(&m)).and_then(|s| framing::bam_with_padded_header(&s, k)) {
                        bytes = bgzf_walk::build_file(&p.chunks(60_000).map(|c| c.to_vec()).collect::<Vec<_>>(), 1, true);
                    }
                }
                if let Some(b) = bgzf_walk::reframed(&bytes, *seed) {
                    bytes = b;
                }
            }
            false
        }
    };
    if let Some(p) = std::env::var_os("NV_C16_DUMP") {
        let _ = std::fs::write(p, &bytes);
    }
    let data = Arc::new(bytes);
    let opts = ReadOpts { max_events: 50_000, ..ReadOpts::default() };
    // A damaged input can make a reader panic (that is C15's subject, with its own list of sites).
    // Here only the relation counts: both twins panicking on the same damaged bytes is agreement,
    // one of them panicking alone is a difference. On valid input a panic stays a failure.
    let (sync_t, async_t, st) = if damaged {
        let a = panics::catch(|| drv.read(&data, &Delivery::Plain, &c.doc, &opts));
        let b = panics::catch(|| read_async(name, &data, &c.doc, &c.script, c.workers as usize, &opts));
        match (a, b) {
            (Ok((s, _)), Ok(Some((t, st)))) => (s, t, st),
            (Ok(_), Ok(None)) => return fail1(shard::HARNESS_PANIC, format!("no async reader for {name}")),
            (Err(p), Err(q)) => {
                if p.in_harness() || q.in_harness() {
                    return fail1(shard::HARNESS_PANIC, format!("{} / {}", p.describe(), q.describe()));
                }
                return Ok(Pass::new(false, key_of(c)).label("damaged-input").label("both-twins-panic(C15's subject)"));
            }
            (Err(p), Ok(_)) | (Ok(_), Err(p)) => {
                if p.in_harness() {
                    return fail1(shard::HARNESS_PANIC, p.describe());
                }
                return fail1(format!("c16.reader.damaged.one-twin-panics:{name}"), format!("on the same damaged bytes one of the sync / async readers panics and the other does not: {}", p.describe()));
            }
        }
    } else {
        let (sync_t, _) = drv.read(&data, &Delivery::Plain, &c.doc, &opts);
        if !matches!(c.damage, Damage::RawText) && sync_t.iter().any(|e| matches!(e, Ev::Err { .. } | Ev::Runaway)) {
            return fail1(format!("c16.baseline-read-error:{name}"), summarize(&sync_t));
        }
        let Some((async_t, st)) = read_async(name, &data, &c.doc, &c.script, c.workers as usize, &opts) else {
            return fail1(shard::HARNESS_PANIC, format!("no async reader for {name}"));
        };
        (sync_t, async_t, st)
    };
    // Error *kinds* are not asserted (they differ through wrapping: UnexpectedEof vs InvalidData …);
    // whether, where (stage) and after which events an error is reported is. Positions after a
    // failure are not meaningful, so for damaged inputs virtual positions are not compared.
    let mut kind_differs = false;
    let norm = |t: &[Ev], kd: &mut bool, other: &[Ev]| -> Vec<Ev> {
        t.iter()
            .enumerate()
            .filter(|(_, e)| !(damaged && matches!(e, Ev::Vpos(_))))
            .map(|(i, e)| match e {
                Ev::Err { stage, kind } => {
                    if let Some(Ev::Err { stage: s2, kind: k2 }) = other.get(i) {
                        if s2 == stage && k2 != kind {
                            *kd = true;
                        }
                    }
                    Ev::Err { stage, kind: String::new() }
                }
                e => e.clone(),
            })
            .collect()
    };
    let sync_t = norm(&sync_t, &mut kind_differs, &async_t);
    let async_t = norm(&async_t, &mut kind_differs, &sync_t);
    if async_t != sync_t {
        let class = if damaged { "damaged" } else { "valid" };
        // damaged inputs: the records delivered before the first error must agree; how the end is
        // reported (error vs end of file, stage, kind) is the "same errors" clause
        if damaged {
            let cut = |t: &[Ev]| -> usize { t.iter().position(|e| matches!(e, Ev::Err { .. } | Ev::Eof | Ev::Runaway)).unwrap_or(t.len()) };
            let (a, b) = (cut(&sync_t), cut(&async_t));
            let n = a.min(b);
            if sync_t[..n] != async_t[..n] {
                return fail1(format!("c16.reader.damaged.prefix-differs:{name}"), format!("{} | sync: {} | async: {}", first_diff(&sync_t, &async_t), summarize(&sync_t), summarize(&async_t)));
            }
            // listed class: the BSIZE field of the final BGZF member claims more bytes than the file
            // holds, while the bytes present form a complete, valid member
            if drv.is_bgzf() {
                let (_, off) = bgzf_walk::walk_prefix(&data);
                if off < data.len() && data.len() - off >= 26 {
                    let mut tail = data[off..].to_vec();
                    let declared = u16::from_le_bytes([tail[16], tail[17]]) as usize + 1;
                    let actual = tail.len();
                    tail[16..18].copy_from_slice(&((actual - 1) as u16).to_le_bytes());
                    if declared > actual && bgzf_walk::parse_member(&tail, 0).map(|(n, _)| n == actual).unwrap_or(false) {
                        return fail1(
                            format!("c16.reader.final-member-bsize-too-large:{name}"),
                            format!("the last BGZF member declares {declared} bytes but the file ends after {actual} bytes that form a complete valid member: the sync reader reports an error, the async reader accepts the member | sync: {} | async: {}", summarize(&sync_t), summarize(&async_t)),
                        );
                    }
                }
            }
            let end_sync = sync_t.get(a).map(|e| format!("{e:?}")).unwrap_or_default();
            let end_async = async_t.get(b).map(|e| format!("{e:?}")).unwrap_or_default();
            return fail1(
                format!("c16.reader.damaged.end-differs:{name}"),
                format!("after {a} (sync) / {b} (async) agreeing events the sync reader ends with {end_sync} and the async reader with {end_async} | sync: {} | async: {}", summarize(&sync_t), summarize(&async_t)),
            );
        }
        return fail1(format!("c16.reader.{class}.differs:{name}"), format!("{} | sync: {} | async: {}", first_diff(&sync_t, &async_t), summarize(&sync_t), summarize(&async_t)));
    }
    let nontrivial = st.pendings > 0 && st.partials > 0;
    Ok(Pass::new(nontrivial, key_of(c))
        .label_if(st.pendings > 0, "pending-delivered")
        .label_if(st.partials > 0, "partial-transfer")
        .label_if(damaged, "damaged-input")
        .label_if(kind_differs, "same-stage-different-error-kind(not asserted)")
        .label_if(!damaged, "valid-input")
        .label_if(matches!(c.damage, Damage::EmptyMember(_)) && drv.is_bgzf(), "empty-member-mid-file")
        .label_if(matches!(c.damage, Damage::RawText) && drv.raw_input(&c.doc).is_some(), "harness-rendered-text")
        .label_if(matches!(c.damage, Damage::Reframe(_)) && drv.is_bgzf(), "block-boundaries-anywhere")
        .label_if(drivers::records_of(&sync_t).len() >= 2, "records>=2")
        .label_if(c.workers > 1, "workers>1"))
}

fn check_writer(name: &'static str, c: &Case) -> Verdict {
    let drv = drivers::by_name(name).unwrap();
    // the sync writer of the same calls: no explicit inner flushes (the async twins have none)
    let doc = match &c.doc {
        Doc::Aln(a) => {
            let mut a = a.clone();
            if name != "cram" {
                a.flush_every = 0;
            }
            Doc::Aln(a)
        }
        Doc::Var(v) => {
            let mut v = v.clone();
            v.flush_every = 0;
            Doc::Var(v)
        }
        d => d.clone(),
    };
    let sync_bytes = match drivers::write_to_vec(drv.as_ref(), &doc) {
        Ok(b) => b,
        Err(e) => return fail1(format!("c16.baseline-write-error:{name}"), format!("{e}")),
    };
    let Some((res, async_bytes, st)) = write_async(name, &doc, &c.script, c.workers as usize) else {
        return fail1(shard::HARNESS_PANIC, format!("no async writer for {name}"));
    };
    if let Err(e) = res {
        return fail1(format!("c16.writer.error:{name}"), format!("async writer failed on a healthy scripted sink: {e}"));
    }
    let opts = ReadOpts { max_events: 50_000, ..ReadOpts::default() };
    let (ts, _) = drv.read(&Arc::new(sync_bytes.clone()), &Delivery::Plain, &doc, &opts);
    let (ta, _) = drv.read(&Arc::new(async_bytes.clone()), &Delivery::Plain, &doc, &opts);
    // virtual positions depend on the block layout, which the statement does not fix for writers
    let strip = |t: &[Ev]| -> Vec<Ev> { t.iter().filter(|e| !matches!(e, Ev::Vpos(_))).cloned().collect() };
    if strip(&ts) != strip(&ta) {
        return fail1(format!("c16.writer.decodes-differently:{name}"), format!("{} | sync output: {} | async output: {}", first_diff(&strip(&ts), &strip(&ta)), summarize(&ts), summarize(&ta)));
    }
    let mut byte_identity = false;
    if matches!(name, "sam" | "vcf" | "fastq" | "bai" | "gzi" | "fai") {
        byte_identity = true;
        if sync_bytes != async_bytes {
            return fail1(
                format!("c16.writer.bytes-differ:{name}"),
                format!("no compression involved, yet the outputs differ: sync {} bytes, async {} bytes, first difference at {:?}", sync_bytes.len(), async_bytes.len(), super::c01::first_diff(&sync_bytes, &async_bytes)),
            );
        }
    }
    if drv.is_bgzf() {
        let ma = bgzf_walk::walk(&async_bytes).map_err(|e| vec![Fail::new(format!("c16.writer.malformed-bgzf:{name}"), e)])?;
        if async_bytes.len() < 28 || async_bytes[async_bytes.len() - 28..] != bgzf_walk::EOF_MARKER {
            return fail1(format!("c16.writer.no-eof-marker:{name}"), "async output does not end with the BGZF EOF marker after shutdown()".to_string());
        }
        if matches!(name, "csi" | "tabix" | "bam" | "bcf" | "bgzf") {
            let ms = bgzf_walk::walk(&sync_bytes).map_err(|e| vec![Fail::new(format!("c16.baseline-malformed-bgzf:{name}"), e)])?;
            if bgzf_walk::concat(&ms) != bgzf_walk::concat(&ma) {
                return fail1(format!("c16.writer.payload-differs:{name}"), "the BGZF-decoded payloads of the sync and async outputs differ".to_string());
            }
            byte_identity = true;
        }
    }
    let nontrivial = st.pendings > 0 && st.partials > 0;
    Ok(Pass::new(nontrivial, key_of(c))
        .label_if(st.pendings > 0, "pending-delivered")
        .label_if(st.partials > 0, "partial-transfer")
        .label_if(byte_identity, "byte-or-payload-identity-asserted")
        .label_if(c.workers > 1, "workers>1"))
}

pub const READERS: &[&str] = &["bgzf", "bam", "bam-eager", "sam", "cram", "vcf", "bcf", "fasta", "fastq", "gff", "gff-bufs", "bai", "csi", "tabix", "gzi", "fai", "crai"];
pub const WRITERS: &[&str] = &["bgzf", "bam", "sam", "cram", "vcf", "bcf", "fastq", "bai", "csi", "tabix", "gzi", "fai", "crai"];

pub fn property() -> Property {
    let mut subs: Vec<Box<dyn DynSub>> = Vec::new();
    for name in READERS {
        let name: &'static str = name;
        assert!(has_async_reader(name));
        let (q, t) = match name {
            "cram" => (500, 6000),
            "bgzf" => (500, 6000),
            _ => (1200, 16000),
        };
        subs.push(
            ClosureSub::<Case> {
                name: format!("read:{name}"),
                rule: "non-trivial = the poll adversary returned ≥1 Pending and made ≥1 partial transfer; distinct by hash of (document, script, workers, damage)".into(),
                strategy: Box::new(move |tier| {
                    let d = drivers::by_name(name).unwrap();
                    let doc = if name == "bgzf" {
                        use crate::r#gen::payload::payload;
                        (payload(tier.pick(140_000, 260_000)), proptest::collection::vec(0u16..=1000, 0..5), proptest::option::of(0u8..=9)).prop_map(|(payload, flushes, level)| Doc::Bytes { payload, flushes, level }).boxed()
                    } else {
                        d.doc(tier)
                    };
                    // (for files that are not BGZF the last alternative leaves the file as it is)
                    let damage = prop_oneof![
                        5 => Just(Damage::None),
                        1 => (0u16..=1000).prop_map(Damage::Truncate),
                        1 => (0u16..1000, any::<u8>()).prop_map(|(p, x)| Damage::Flip(p, x)),
                        2 => (0u16..=1000).prop_map(Damage::EmptyMember),
                        2 => Just(Damage::RawText),
                        3 => any::<u32>().prop_map(Damage::Reframe),
                    ];
                    (doc, script(), 1u8..=8, damage).prop_map(|(doc, script, workers, damage)| Case { doc, script, workers, damage }).boxed()
                }),
                check: Box::new(move |c| check_reader(name, c)),
                quick: q,
                thorough: t,
                opts: SubOpts { max_shards: 4, isolate: true, hang_is_violation: true, case_budget_s: 20, ..SubOpts::default() },
            }
            .boxed(),
        );
    }
    for name in WRITERS {
        let name: &'static str = name;
        assert!(has_async_writer(name));
        let (q, t) = match name {
            "cram" => (400, 5000),
            "bgzf" => (400, 5000),
            _ => (800, 12000),
        };
        subs.push(
            ClosureSub::<Case> {
                name: format!("write:{name}"),
                rule: "non-trivial = the sink returned ≥1 Pending and accepted ≥1 partial buffer; distinct by hash of (document, script, workers)".into(),
                strategy: Box::new(move |tier| {
                    let d = drivers::by_name(name).unwrap();
                    let doc = if name == "bgzf" {
                        use crate::r#gen::payload::payload;
                        (payload(tier.pick(140_000, 260_000)), proptest::collection::vec(0u16..=1000, 0..5), proptest::option::of(0u8..=9)).prop_map(|(payload, flushes, level)| Doc::Bytes { payload, flushes, level }).boxed()
                    } else {
                        d.doc(tier)
                    };
                    (doc, script(), 1u8..=8).prop_map(|(doc, script, workers)| Case { doc, script, workers, damage: Damage::None }).boxed()
                }),
                check: Box::new(move |c| check_writer(name, c)),
                quick: q,
                thorough: t,
                opts: SubOpts { max_shards: 4, isolate: true, hang_is_violation: true, case_budget_s: 20, ..SubOpts::default() },
            }
            .boxed(),
        );
    }
    subs.push(
        sub(
            "query",
            "coordinate-sorted BAM / BCF / bgzipped VCF files with BAI, CSI or tabix indexes (C04's generator) × regions × poll script × worker count: the async reader's query returns the records the sync reader's query returns; one evaluation per region; non-trivial = ≥1 region with a non-empty answer",
            super::c04::async_query_strategy,
            super::c04::check_async_queries,
            6_000,
            80_000,
        )
        .with(|o| {
            o.isolate = true;
            o.hang_is_violation = true;
            o.case_budget_s = 30;
        })
        .boxed(),
    );
    subs.push(
        sub(
            "query:cram",
            "coordinate-sorted CRAM streams with small slices (C19's generator) × regions × poll script, queried through the expected CRAI: the async reader's query returns the records the sync reader's returns; one evaluation per region; non-trivial = ≥1 region with a non-empty answer",
            super::c19::async_query_strategy,
            super::c19::check_async_queries,
            4_000,
            60_000,
        )
        .with(|o| {
            o.isolate = true;
            o.hang_is_violation = true;
            o.case_budget_s = 30;
        })
        .boxed(),
    );
    Property {
        id: "C16",
        level: "exploration",
        rule: "document per format with an async twin × poll script (Pending with self-wake, partial transfers down to 1 byte) × async BGZF worker count 1..8 × {valid, truncated, one byte flipped}",
        assumptions: vec![
            "the sync reader/writer on the same input/calls is the reference (differential relation)".into(),
            "current-thread tokio runtime with a blocking pool; writer virtual positions / block layout are not compared".into(),
        ],
        subs,
        max_parallel: 16,
    }
}
