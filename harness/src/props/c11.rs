//! C11 — FASTA/FASTQ indexing and random access return exactly the indexed bases.
//!
//! Oracle: `oracle::fasta_naive` (whole-file line splitter). Sub-checks:
//!   * `index_query` — FASTA built by the harness (any width, LF/CRLF, blank lines, short last
//!     line, missing final newline) or by `fasta::io::Writer`; plain or bgzipped with a gzi from the
//!     harness's BGZF walker; small `BufReader` capacities and a scripted `fill_buf` window; the fai
//!     records must equal the naive values and every region query the naive slice;
//!   * `ragged` — one line of a valid file lengthened / shortened / re-terminated: the indexer must
//!     fail whenever the naive shape is ragged;
//!   * `write_read` — FASTA and FASTQ written by noodles read back equal, byte form = line wrapping
//!     at the configured width, FASTQ index = naive offsets;
//!   * `fastq_layouts` — harness-built four-line FASTQ (CRLF, repeated name after `+`, tab
//!     separator) read through small buffers.

use crate::engine::*;
use crate::r#gen::text::{self, FastaDoc, FastaDocSpec, FastqDoc};
use crate::oracle::bgzf_walk;
use crate::oracle::fasta_naive::{self, NaiveRecord, Shape};
use crate::{ensure, ensure_eq};
use bstr::BString;
use noodles_bgzf as bgzf;
use noodles_core::{Position, Region};
use noodles_fasta::{self as fasta, fai};
use noodles_fastq as fastq;
use proptest::prelude::*;
use serde::{Deserialize, Serialize};
use std::io::{self, BufRead, BufReader, Cursor, Read, Seek, SeekFrom};
use std::sync::atomic::{AtomicU64, Ordering};

pub const SIG_BEYOND: &str = "fasta.query.start-beyond-end";

// ------------------------------------------------------------------------------------------------
// readers

#[derive(Clone, Debug, Serialize, Deserialize)]
pub enum ReaderKind {
    /// `Cursor<Vec<u8>>` itself (one window = the whole rest)
    Cursor,
    /// `BufReader::with_capacity(n, Cursor)`, n in 1..=64
    Cap(u8),
    /// a direct `BufRead` whose `fill_buf` exposes only the next scripted window
    Window(Vec<u8>),
}

/// A `BufRead + Seek` over a byte vector that never shows more than the current scripted window.
pub struct WinCursor {
    data: Vec<u8>,
    pos: usize,
    script: Vec<u8>,
    i: usize,
    left: usize,
}

impl WinCursor {
    pub fn new(data: Vec<u8>, script: Vec<u8>) -> Self {
        WinCursor { data, pos: 0, script, i: 0, left: 0 }
    }
}

impl BufRead for WinCursor {
    fn fill_buf(&mut self) -> io::Result<&[u8]> {
        if self.pos >= self.data.len() {
            return Ok(&[]);
        }
        if self.left == 0 {
            let w = if self.script.is_empty() { 1 } else { self.script[self.i % self.script.len()] };
            self.i += 1;
            self.left = (w as usize).max(1);
        }
        let end = (self.pos + self.left).min(self.data.len());
        Ok(&self.data[self.pos..end])
    }
    fn consume(&mut self, amt: usize) {
        self.pos += amt;
        self.left = self.left.saturating_sub(amt);
    }
}

impl Read for WinCursor {
    fn read(&mut self, buf: &mut [u8]) -> io::Result<usize> {
        let src = self.fill_buf()?;
        let n = src.len().min(buf.len());
        buf[..n].copy_from_slice(&src[..n]);
        self.consume(n);
        Ok(n)
    }
}

impl Seek for WinCursor {
    fn seek(&mut self, pos: SeekFrom) -> io::Result<u64> {
        match pos {
            SeekFrom::Start(p) => {
                self.pos = usize::try_from(p).unwrap_or(usize::MAX);
                self.left = 0;
                Ok(p)
            }
            _ => Err(io::Error::new(io::ErrorKind::Unsupported, "WinCursor: only SeekFrom::Start")),
        }
    }
}

pub enum AnyReader {
    Cursor(Cursor<Vec<u8>>),
    Cap(BufReader<Cursor<Vec<u8>>>),
    Window(WinCursor),
    Bgzf(Box<bgzf::io::IndexedReader<BufReader<Cursor<Vec<u8>>>>>),
}

impl Read for AnyReader {
    fn read(&mut self, buf: &mut [u8]) -> io::Result<usize> {
        match self {
            AnyReader::Cursor(r) => r.read(buf),
            AnyReader::Cap(r) => r.read(buf),
            AnyReader::Window(r) => r.read(buf),
            AnyReader::Bgzf(r) => r.read(buf),
        }
    }
}

impl BufRead for AnyReader {
    fn fill_buf(&mut self) -> io::Result<&[u8]> {
        match self {
            AnyReader::Cursor(r) => r.fill_buf(),
            AnyReader::Cap(r) => r.fill_buf(),
            AnyReader::Window(r) => r.fill_buf(),
            AnyReader::Bgzf(r) => r.fill_buf(),
        }
    }
    fn consume(&mut self, amt: usize) {
        match self {
            AnyReader::Cursor(r) => r.consume(amt),
            AnyReader::Cap(r) => r.consume(amt),
            AnyReader::Window(r) => r.consume(amt),
            AnyReader::Bgzf(r) => r.consume(amt),
        }
    }
}

impl Seek for AnyReader {
    fn seek(&mut self, pos: SeekFrom) -> io::Result<u64> {
        match self {
            AnyReader::Cursor(r) => r.seek(pos),
            AnyReader::Cap(r) => r.seek(pos),
            AnyReader::Window(r) => r.seek(pos),
            AnyReader::Bgzf(r) => r.seek(pos),
        }
    }
}

fn cap_of(k: &ReaderKind) -> usize {
    match k {
        ReaderKind::Cap(c) => (*c as usize).clamp(1, 64),
        _ => 8192,
    }
}

/// The stream the case describes: plain bytes, or a BGZF file + gzi.
pub struct Stream {
    /// uncompressed FASTA text
    pub text: Vec<u8>,
    /// (file, gzi entries) when bgzipped
    pub bgz: Option<(Vec<u8>, Vec<(u64, u64)>)>,
}

impl Stream {
    pub fn new(text: Vec<u8>, block_sizes: &Option<Vec<u16>>) -> Result<Stream, Vec<Fail>> {
        let bgz = match block_sizes {
            None => None,
            Some(script) => {
                let mut blocks: Vec<Vec<u8>> = Vec::new();
                let mut off = 0usize;
                let mut i = 0usize;
                while off < text.len() {
                    let n = if script.is_empty() { 64 } else { script[i % script.len()] as usize }.max(1);
                    let end = (off + n).min(text.len());
                    blocks.push(text[off..end].to_vec());
                    off = end;
                    i += 1;
                }
                let file = bgzf_walk::build_file(&blocks, 1, true);
                let members = bgzf_walk::walk(&file).map_err(|e| vec![Fail::new("c11.harness.bgzf-build", e)])?;
                let gzi = bgzf_walk::gzi_of(&members);
                Some((file, gzi))
            }
        };
        Ok(Stream { text, bgz })
    }

    /// A seekable reader over the stream.
    pub fn open(&self, kind: &ReaderKind) -> AnyReader {
        match &self.bgz {
            Some((file, gzi)) => {
                let inner = BufReader::with_capacity(cap_of(kind), Cursor::new(file.clone()));
                AnyReader::Bgzf(Box::new(bgzf::io::IndexedReader::new(inner, bgzf::gzi::Index::from(gzi.clone()))))
            }
            None => match kind {
                ReaderKind::Cursor => AnyReader::Cursor(Cursor::new(self.text.clone())),
                ReaderKind::Cap(_) => AnyReader::Cap(BufReader::with_capacity(cap_of(kind), Cursor::new(self.text.clone()))),
                ReaderKind::Window(s) => AnyReader::Window(WinCursor::new(self.text.clone(), s.clone())),
            },
        }
    }

    /// Run the indexer over the stream the way `fasta::fs::index` does (loop over `index_record`).
    pub fn index(&self, kind: &ReaderKind) -> Result<Vec<fai::Record>, String> {
        fn run<R: BufRead>(r: R) -> Result<Vec<fai::Record>, String> {
            let mut indexer = fasta::io::Indexer::new(r);
            let mut out = Vec::new();
            loop {
                match indexer.index_record() {
                    Ok(Some(rec)) => out.push(rec),
                    Ok(None) => return Ok(out),
                    Err(e) => return Err(format!("{e}")),
                }
            }
        }
        match &self.bgz {
            // plain (non-indexed) BGZF reader: what a caller indexing a .fa.gz would use
            Some((file, _)) => run(bgzf::io::Reader::new(BufReader::with_capacity(cap_of(kind), Cursor::new(file.clone())))),
            None => run(self.open(kind)),
        }
    }
}

fn reader_kind() -> BoxedStrategy<ReaderKind> {
    prop_oneof![
        1 => Just(ReaderKind::Cursor),
        5 => (1u8..=64).prop_map(ReaderKind::Cap),
        2 => (1u8..=7).prop_map(ReaderKind::Cap),
        3 => proptest::collection::vec(prop_oneof![3 => 1u8..=4, 2 => 1u8..=80, 1 => Just(255u8)], 1..=6).prop_map(ReaderKind::Window),
    ]
    .boxed()
}

fn bgz_script() -> BoxedStrategy<Option<Vec<u16>>> {
    prop_oneof![
        3 => Just(None),
        2 => proptest::collection::vec(prop_oneof![2 => 1u16..=9, 3 => 1u16..=120, 1 => 200u16..=5000], 1..=5).prop_map(Some),
    ]
    .boxed()
}

// ------------------------------------------------------------------------------------------------
// index comparison (shared by `index_query` and `ragged`)

pub struct IndexOutcome {
    pub naive: Vec<NaiveRecord>,
    /// `Some` when the indexer accepted the file (and, then, every record equals the naive values)
    pub index: Option<Vec<fai::Record>>,
    pub worst: Shape,
    pub err: Option<String>,
}

fn worst_shape(naive: &[NaiveRecord]) -> Shape {
    let mut w = Shape::Strict;
    for r in naive {
        match r.shape() {
            Shape::Ragged => return Shape::Ragged,
            Shape::Empty => return Shape::Empty,
            Shape::Lenient => w = Shape::Lenient,
            Shape::Strict => {}
        }
    }
    w
}

/// Index the stream and compare with the naive parse. Pushes every discrepancy to `fails`.
pub fn check_index(stream: &Stream, kind: &ReaderKind, fails: &mut Fails) -> Result<IndexOutcome, Vec<Fail>> {
    let naive = fasta_naive::parse(&stream.text).map_err(|e| vec![Fail::new("c11.harness.naive-parse", e)])?;
    let worst = worst_shape(&naive);
    let got = stream.index(kind);
    let mut out = IndexOutcome { naive, index: None, worst, err: None };
    match got {
        Err(e) => {
            if worst == Shape::Strict {
                fails.push("fasta.index.rejects-valid", format!("indexer rejects a file whose every record has uniform lines: {e}"));
            }
            out.err = Some(e);
        }
        Ok(recs) => {
            if worst == Shape::Ragged {
                let which = out.naive.iter().position(|r| r.shape() == Shape::Ragged).unwrap_or(0);
                fails.push(
                    "fasta.index.ragged-accepted",
                    format!("record #{which} ({:?}) has ragged lines {:?} but the indexer returned {:?}", BString::from(out.naive[which].name.clone()), line_summary(&out.naive[which]), recs.get(which)),
                );
                return Ok(out);
            }
            if worst == Shape::Empty {
                // a definition without bases: outside the statement; nothing asserted
                return Ok(out);
            }
            if recs.len() != out.naive.len() {
                fails.push("fasta.index.record-count", format!("indexer returned {} records, the file has {}", recs.len(), out.naive.len()));
                return Ok(out);
            }
            let mut all_equal = true;
            for (i, (r, n)) in recs.iter().zip(&out.naive).enumerate() {
                let Some(f) = n.fai() else { continue };
                let name: &[u8] = r.name().as_ref();
                if name != &f.name[..] {
                    all_equal = false;
                    fails.push("fasta.index.name", format!("record #{i}: name {:?}, naive {:?}", r.name(), BString::from(f.name.clone())));
                }
                if r.length() != f.length {
                    all_equal = false;
                    fails.push("fasta.index.length", format!("record #{i} {:?}: length {} naive {}", r.name(), r.length(), f.length));
                }
                if r.position() != f.offset {
                    all_equal = false;
                    fails.push("fasta.index.offset", format!("record #{i} {:?}: offset {} naive {}", r.name(), r.position(), f.offset));
                }
                if r.line_base_count().get() != f.line_bases {
                    all_equal = false;
                    fails.push("fasta.index.line-bases", format!("record #{i} {:?}: line bases {} naive {}", r.name(), r.line_base_count(), f.line_bases));
                }
                if r.line_width().get() != f.line_width {
                    all_equal = false;
                    fails.push("fasta.index.line-width", format!("record #{i} {:?}: line width {} naive {}", r.name(), r.line_width(), f.line_width));
                }
            }
            if all_equal {
                out.index = Some(recs);
            }
        }
    }
    Ok(out)
}

fn line_summary(r: &NaiveRecord) -> Vec<(usize, usize)> {
    r.lines.iter().map(|l| (l.bases, l.width)).collect()
}

// ------------------------------------------------------------------------------------------------
// regions

#[derive(Clone, Copy, Debug, Serialize, Deserialize, PartialEq)]
pub enum RegionKind {
    /// one base
    Single,
    /// a few bases around the end of a sequence line
    Boundary,
    /// `s-len`
    ToEnd,
    /// `1-len`
    Whole,
    /// no interval at all
    Unbounded,
    /// `s-` (no end)
    OpenEnd,
    /// `-e` (no start)
    OpenStart,
    /// `s-e` with `e > len` (clipped)
    EndBeyond,
    /// any `s <= e <= len`
    Random,
    /// `s > len` — the recorded defect class
    StartBeyond,
}

#[derive(Clone, Debug, Serialize, Deserialize)]
pub struct RegionSpec {
    pub rec: u16,
    pub kind: RegionKind,
    pub a: u16,
    pub b: u16,
}

/// (start, end) as given to noodles; `None` = unbounded.
fn resolve(spec: &RegionSpec, n: &NaiveRecord) -> (Option<u64>, Option<u64>) {
    let len = n.seq.len() as u64;
    let lb = n.lines.first().map(|l| l.bases as u64).unwrap_or(1).max(1);
    let p = |sel: u16, k: u64| -> u64 { 1 + pick_idx(sel, k.max(1) as usize) as u64 };
    match spec.kind {
        RegionKind::Single => {
            let s = p(spec.a, len);
            (Some(s), Some(s))
        }
        RegionKind::Boundary => {
            // last base of some full line, minus a little .. plus a little
            let full_lines = (len / lb).max(1);
            let edge = (p(spec.a, full_lines) * lb).min(len);
            let back = (spec.b % 4) as u64;
            let fwd = 1 + ((spec.b >> 2) % 4) as u64;
            (Some(edge.saturating_sub(back).max(1)), Some(edge + fwd))
        }
        RegionKind::ToEnd => (Some(p(spec.a, len)), Some(len)),
        RegionKind::Whole => (Some(1), Some(len)),
        RegionKind::Unbounded => (None, None),
        RegionKind::OpenEnd => (Some(p(spec.a, len)), None),
        RegionKind::OpenStart => (None, Some(p(spec.a, len))),
        // one in eight with the largest representable end
        RegionKind::EndBeyond => (Some(p(spec.a, len)), Some(if spec.b % 8 == 7 { usize::MAX as u64 } else { len + 1 + (spec.b as u64 % 500) })),
        RegionKind::Random => {
            let s = p(spec.a, len);
            let e = s + pick_idx(spec.b, (len - s + 1) as usize) as u64;
            (Some(s), Some(e))
        }
        RegionKind::StartBeyond => {
            let s = len + 1 + (spec.a as u64 % 40);
            let e = if spec.b % 5 == 0 { None } else { Some(s + (spec.b as u64 % 30)) };
            (Some(s), e)
        }
    }
}

fn to_region(name: &[u8], start: Option<u64>, end: Option<u64>) -> Result<Region, Vec<Fail>> {
    let conv = |v: u64| usize::try_from(v).ok().and_then(|v| Position::try_from(v).ok()).ok_or_else(|| vec![Fail::new("c11.harness.position", format!("{v} is not a position"))]);
    Ok(match (start, end) {
        (Some(s), Some(e)) => Region::new(name, conv(s)?..=conv(e)?),
        (Some(s), None) => Region::new(name, conv(s)?..),
        (None, Some(e)) => Region::new(name, ..=conv(e)?),
        (None, None) => Region::new(name, ..),
    })
}

/// Compare one query answer with the naive slice.
fn judge_query(what: &str, n: &NaiveRecord, start: Option<u64>, end: Option<u64>, got: Result<Result<Vec<u8>, String>, crate::engine::panics::PanicInfo>, fails: &mut Fails) {
    let s = start.unwrap_or(1);
    let region = format!("{:?}:{:?}-{:?} (length {})", BString::from(n.name.clone()), start, end, n.seq.len());
    match n.slice(s, end) {
        Some(want) => match got {
            Ok(Ok(seq)) => {
                if seq != want {
                    let sig = if seq.len() != want.len() { "fasta.query.length" } else { "fasta.query.bases" };
                    fails.push(sig, format!("{what} {region}: got {:?}, naive {:?}", BString::from(trunc_bytes(&seq)), BString::from(trunc_bytes(want))));
                }
            }
            Ok(Err(e)) => fails.push("fasta.query.error", format!("{what} {region}: error {e}")),
            Err(p) => fails.push(p.sig(), format!("{what} {region}: {}", p.describe())),
        },
        None => {
            // start beyond the end: empty or an error, never bytes
            match got {
                Ok(Ok(seq)) if !seq.is_empty() => fails.push(SIG_BEYOND, format!("{what} {region}: start lies beyond the sequence end but the query returned {:?}", BString::from(trunc_bytes(&seq)))),
                Ok(_) => {}
                Err(p) => fails.push(format!("{SIG_BEYOND}/{}", p.sig()), format!("{what} {region}: start beyond the end: {}", p.describe())),
            }
        }
    }
}

fn trunc_bytes(b: &[u8]) -> Vec<u8> {
    if b.len() <= 120 { b.to_vec() } else { [&b[..100], b"...", &b[b.len() - 17..]].concat() }
}

// ------------------------------------------------------------------------------------------------
// sub-check 1: index + queries

#[derive(Clone, Debug, Serialize, Deserialize)]
pub enum Source {
    Harness,
    /// written by `fasta::io::Writer` at the width of the first record
    NoodlesWriter,
}

#[derive(Clone, Debug, Serialize, Deserialize)]
pub struct Case {
    pub doc: FastaDocSpec,
    pub source: Source,
    /// BGZF block sizes (cyclic); `None` = plain file
    pub bgz: Option<Vec<u16>>,
    pub index_reader: ReaderKind,
    pub query_reader: ReaderKind,
    pub regions: Vec<RegionSpec>,
    /// also go through the path-based APIs (`fasta::fs::index`, `fai::fs`, `indexed_reader::Builder`)
    pub via_fs: bool,
}

fn region_spec(kinds: Vec<(u32, RegionKind)>) -> BoxedStrategy<RegionSpec> {
    let arms: Vec<(u32, BoxedStrategy<RegionKind>)> = kinds.into_iter().map(|(w, k)| (w, Just(k).boxed())).collect();
    (any::<u16>(), proptest::strategy::Union::new_weighted(arms), any::<u16>(), any::<u16>()).prop_map(|(rec, kind, a, b)| RegionSpec { rec, kind, a, b }).boxed()
}

fn strategy(tier: Tier) -> BoxedStrategy<Case> {
    use RegionKind::*;
    let in_range = vec![(3, Single), (4, Boundary), (2, ToEnd), (1, Whole), (1, Unbounded), (2, OpenEnd), (1, OpenStart), (2, EndBeyond), (3, Random)];
    let nregions = tier.pick(26usize, 30usize);
    let regions = (proptest::collection::vec(region_spec(in_range), 1..=nregions), prop_oneof![7 => Just(0usize), 1 => 1usize..=3]).prop_flat_map(|(base, nbeyond)| {
        // the recorded defect class is confined to about one case in eight
        proptest::collection::vec(region_spec(vec![(1, StartBeyond)]), nbeyond..=nbeyond).prop_map(move |extra| {
            let mut v = base.clone();
            v.extend(extra);
            v
        })
    });
    (
        text::fasta_doc_spec(tier.pick(8, 12), 5, 200),
        prop_oneof![3 => Just(Source::Harness), 1 => Just(Source::NoodlesWriter)],
        bgz_script(),
        reader_kind(),
        reader_kind(),
        regions,
        prop_oneof![5 => Just(false), 1 => Just(true)],
    )
        .prop_map(|(doc, source, bgz, index_reader, query_reader, regions, via_fs)| Case { doc, source, bgz, index_reader, query_reader, regions, via_fs })
        .boxed()
}

fn fail_io(sig: &str, what: &str) -> impl Fn(io::Error) -> Vec<Fail> {
    let (sig, what) = (sig.to_string(), what.to_string());
    move |e| vec![Fail::new(sig.clone(), format!("{what}: {e}"))]
}

static FILE_SEQ: AtomicU64 = AtomicU64::new(0);

fn run_query<R: BufRead + Seek>(r: &mut fasta::io::IndexedReader<R>, region: &Region) -> Result<Result<Vec<u8>, String>, crate::engine::panics::PanicInfo> {
    crate::engine::panics::catch(std::panic::AssertUnwindSafe(|| r.query(region).map(|rec| rec.sequence().as_ref().to_vec()).map_err(|e| format!("{e}"))))
}

fn check(c: &Case) -> Verdict {
    let doc: FastaDoc = c.doc.expand();
    let mut fails = Fails::new();
    let text = match c.source {
        Source::Harness => doc.render(),
        Source::NoodlesWriter => {
            let w = doc.records[0].width as usize;
            let bytes = doc.write_with_noodles(w).map_err(fail_io("fasta.writer.error", "fasta::io::Writer"))?;
            if bytes != doc.render_as_writer(w) {
                return fail1("fasta.writer.bytes", format!("fasta::io::Writer at width {w} wrote {:?}", BString::from(trunc_bytes(&bytes))));
            }
            bytes
        }
    };
    let stream = Stream::new(text, &c.bgz)?;
    let out = check_index(&stream, &c.index_reader, &mut fails)?;

    // the naive parse must see what the generator put in (guards the oracle itself)
    ensure_eq!(out.naive.len(), doc.records.len(), "c11.harness.oracle-mismatch", "naive record count");
    for (n, r) in out.naive.iter().zip(&doc.records) {
        ensure!(n.name == r.name.as_bytes() && n.seq == r.seq.as_bytes() && n.description.as_deref() == r.description.as_ref().map(|d| d.as_bytes()), "c11.harness.oracle-mismatch", "naive parse of {:?} differs from the generated record", r.name);
    }

    let multi_line = out.naive.iter().any(|n| n.seq_lines() >= 2);
    let mut pass = Pass::new(false, key_of(c))
        .label_if(doc.layout.crlf, "crlf")
        .label_if(c.bgz.is_some(), "bgzf+gzi")
        .label_if(matches!(c.source, Source::NoodlesWriter), "written-by-noodles")
        .label_if(!doc.layout.final_newline, "no-final-newline")
        .label_if(doc.records.iter().any(|r| r.blank_after > 0), "blank-lines")
        .label_if(doc.records.iter().any(|r| r.description.is_some()), "description")
        .label_if(matches!(c.index_reader, ReaderKind::Cap(n) if n <= 3), "index-cap<=3")
        .label_if(matches!(c.index_reader, ReaderKind::Window(_)), "index-window-reader")
        .label_if(matches!(c.query_reader, ReaderKind::Window(_)), "query-window-reader")
        .label_if(matches!(c.query_reader, ReaderKind::Cap(n) if n <= 3), "query-cap<=3")
        .label_if(doc.records.len() >= 2, "records>=2")
        .label_if(out.naive.iter().any(|n| n.seq_lines() >= 2 && n.lines.first().map(|l| l.bases) == n.lines.iter().filter(|l| l.bases > 0).last().map(|l| l.bases)), "full-last-line")
        .label_if(out.naive.iter().any(|n| n.seq_lines() == 1), "single-line-record")
        .label(match out.worst {
            Shape::Strict => "shape-strict",
            Shape::Lenient => "shape-lenient",
            Shape::Ragged => "shape-ragged",
            Shape::Empty => "shape-empty",
        });
    if out.worst == Shape::Lenient {
        // blank-line tails: the indexer may be pickier than the naive rule (observed: a blank line
        // after a short last line, or two blank lines, are rejected; one blank line after a full
        // last line is accepted) — never asserted, but counted
        pass = pass.label(if out.index.is_some() { "lenient-accepted" } else { "lenient-rejected" });
        let short_then_blank = out.naive.iter().any(|n| {
            let core: Vec<_> = n.lines.iter().filter(|l| l.bases > 0).collect();
            n.lines.last().is_some_and(|l| l.bases == 0) && core.len() >= 2 && core.last().map(|l| l.bases) < core.first().map(|l| l.bases)
        });
        pass = pass.label_if(short_then_blank && out.index.is_none(), "rejected:blank-line-after-short-last-line");
    }
    let Some(index_records) = out.index.clone() else {
        return fails.finish(pass.label("passed-without-known-finding"));
    };
    let index = fai::Index::from(index_records);

    // fai text round trip (the index a user would store next to the file)
    let mut fai_bytes = Vec::new();
    fai::io::Writer::new(&mut fai_bytes).write_index(&index).map_err(fail_io("fai.write.error", "fai::io::Writer"))?;
    match fai::io::Reader::new(&fai_bytes[..]).read_index() {
        Ok(back) => {
            if back != index {
                fails.push("fai.roundtrip", format!("fai written as {:?} reads back as {:?}", BString::from(fai_bytes.clone()), back));
            }
        }
        Err(e) => fails.push("fai.roundtrip", format!("fai written as {:?} does not read back: {e}", BString::from(fai_bytes.clone()))),
    }

    // region queries through IndexedReader
    let mut reader = fasta::io::IndexedReader::new(stream.open(&c.query_reader), index.clone());
    let mut evals = 0u64;
    let mut partial = false;
    let mut kinds_seen: Vec<RegionKind> = Vec::new();
    let mut resolved: Vec<(usize, Option<u64>, Option<u64>)> = Vec::new();
    for spec in &c.regions {
        let ri = pick_idx(spec.rec, out.naive.len());
        let n = &out.naive[ri];
        let (s, e) = resolve(spec, n);
        let region = to_region(&n.name, s, e)?;
        let got = run_query(&mut reader, &region);
        judge_query("IndexedReader::query", n, s, e, got, &mut fails);
        evals += 1;
        if !kinds_seen.contains(&spec.kind) {
            kinds_seen.push(spec.kind);
        }
        if n.seq_lines() >= 2 && !matches!(spec.kind, RegionKind::Whole | RegionKind::Unbounded) {
            partial = true;
        }
        resolved.push((ri, s, e));
    }

    // adapters: plain Reader::query with the index, Repository over the indexed reader, Repository
    // over the records read sequentially
    {
        let mut plain = fasta::io::Reader::new(stream.open(&c.query_reader));
        for (ri, s, e) in resolved.iter().take(4) {
            let n = &out.naive[*ri];
            let region = to_region(&n.name, *s, *e)?;
            let got = crate::engine::panics::catch(std::panic::AssertUnwindSafe(|| plain.query(&index, &region).map(|rec| rec.sequence().as_ref().to_vec()).map_err(|e| format!("{e}"))));
            judge_query("Reader::query", n, *s, *e, got, &mut fails);
            evals += 1;
        }
    }
    {
        let adapter = fasta::repository::adapters::IndexedReader::new(fasta::io::IndexedReader::new(stream.open(&c.query_reader), index.clone()));
        let repo = fasta::Repository::new(adapter);
        for n in out.naive.iter().rev() {
            for round in 0..2 {
                match repo.get(&n.name) {
                    Some(Ok(seq)) => {
                        let got: &[u8] = (*seq).as_ref();
                        if got != &n.seq[..] {
                            fails.push("fasta.repository.indexed-reader", format!("Repository(IndexedReader).get({:?}) round {round}: {} bases, naive {}", BString::from(n.name.clone()), got.len(), n.seq.len()));
                        }
                    }
                    Some(Err(e)) => fails.push("fasta.repository.indexed-reader", format!("Repository(IndexedReader).get({:?}): {e}", BString::from(n.name.clone()))),
                    None => fails.push("fasta.repository.indexed-reader", format!("Repository(IndexedReader).get({:?}) = None", BString::from(n.name.clone()))),
                }
                evals += 1;
            }
        }
    }
    {
        let mut seq_reader = fasta::io::Reader::new(stream.open(&c.query_reader));
        let records: Result<Vec<fasta::Record>, io::Error> = seq_reader.records().collect();
        match records {
            Err(e) => fails.push("fasta.read.error", format!("Reader::records: {e}")),
            Ok(records) => {
                if records.len() != out.naive.len() {
                    fails.push("fasta.read.count", format!("Reader::records returned {} records, the file has {}", records.len(), out.naive.len()));
                } else {
                    for (r, n) in records.iter().zip(&out.naive) {
                        let desc: Option<&[u8]> = r.description().map(|d| d.as_ref());
                        if r.name() != &n.name[..] || desc != n.description.as_deref() || r.sequence().as_ref() != &n.seq[..] {
                            fails.push("fasta.read.record", format!("Reader::records: got {}, naive {}", text::canonical_fasta_record(r), text::canonical_fasta(&n.name, n.description.as_deref(), &n.seq)));
                        }
                    }
                    let repo = fasta::Repository::new(records);
                    for n in &out.naive {
                        match repo.get(&n.name) {
                            Some(Ok(seq)) if (*seq).as_ref() == &n.seq[..] => {}
                            other => fails.push("fasta.repository.records", format!("Repository(Vec<Record>).get({:?}) = {:?}", BString::from(n.name.clone()), other.map(|r| r.map(|s| s.len()).map_err(|e| e.to_string())))),
                        }
                    }
                }
            }
        }
    }

    // path-based APIs
    if c.via_fs {
        let dir = &env().tmp_dir;
        let id = FILE_SEQ.fetch_add(1, Ordering::Relaxed);
        let base = dir.join(format!("c11-{}-{id}.{}", std::process::id(), if stream.bgz.is_some() { "fa.gz" } else { "fa" }));
        let fai_path = std::path::PathBuf::from(format!("{}.fai", base.display()));
        let gzi_path = std::path::PathBuf::from(format!("{}.gzi", base.display()));
        let res = (|| -> Result<(), Vec<Fail>> {
            let h = fail_io("c11.harness.tmpfile", "temporary file");
            match &stream.bgz {
                None => {
                    std::fs::write(&base, &stream.text).map_err(&h)?;
                    match fasta::fs::index(&base) {
                        Ok(ix) => {
                            if ix != index {
                                fails.push("fasta.fs-index.differs", format!("fasta::fs::index = {ix:?}, Indexer over the same bytes = {index:?}"));
                            }
                        }
                        Err(e) => fails.push("fasta.fs-index.differs", format!("fasta::fs::index fails ({e}) where Indexer over the same bytes succeeds")),
                    }
                }
                Some((file, gzi)) => {
                    std::fs::write(&base, file).map_err(&h)?;
                    // gzi on disk: u64 count, then (compressed, uncompressed) pairs, little endian
                    let mut g = (gzi.len() as u64).to_le_bytes().to_vec();
                    for (c, u) in gzi {
                        g.extend_from_slice(&c.to_le_bytes());
                        g.extend_from_slice(&u.to_le_bytes());
                    }
                    std::fs::write(&gzi_path, g).map_err(&h)?;
                }
            }
            fai::fs::write(&fai_path, &index).map_err(fail_io("fai.write.error", "fai::fs::write"))?;
            let mut r = fasta::io::indexed_reader::Builder::default().build_from_path(&base).map_err(fail_io("fasta.indexed-reader.build-from-path", "indexed_reader::Builder::build_from_path"))?;
            if r.index() != &index {
                fails.push("fai.roundtrip", format!("index read from the .fai file {:?} differs from the one written {:?}", r.index(), index));
            }
            for (ri, s, e) in &resolved {
                let n = &out.naive[*ri];
                let region = to_region(&n.name, *s, *e)?;
                let got = run_query(&mut r, &region);
                judge_query("build_from_path + query", n, *s, *e, got, &mut fails);
                evals += 1;
            }
            Ok(())
        })();
        let _ = std::fs::remove_file(&base);
        let _ = std::fs::remove_file(&fai_path);
        let _ = std::fs::remove_file(&gzi_path);
        res?;
    }

    pass.nontrivial = multi_line && partial;
    for k in kinds_seen {
        pass = pass.label(match k {
            RegionKind::Single => "region-single-base",
            RegionKind::Boundary => "region-line-boundary",
            RegionKind::ToEnd => "region-to-end",
            RegionKind::Whole => "region-whole",
            RegionKind::Unbounded => "region-unbounded",
            RegionKind::OpenEnd => "region-open-end",
            RegionKind::OpenStart => "region-open-start",
            RegionKind::EndBeyond => "region-end-beyond(clipped)",
            RegionKind::Random => "region-random",
            RegionKind::StartBeyond => "region-start-beyond",
        });
    }
    fails.finish(pass.label_if(c.via_fs, "via-fs-paths").label("passed-without-known-finding").evals(evals.max(1)))
}

// ------------------------------------------------------------------------------------------------
// sub-check 2: ragged files

#[derive(Clone, Debug, Serialize, Deserialize)]
pub enum Edit {
    /// insert k bases at the end of the line
    Lengthen(u8),
    /// remove up to k bases from the end of the line (down to an empty line)
    Shorten(u8),
    /// LF ↔ CRLF on that line only
    ToggleTerminator,
    /// an empty line inserted after the line
    InsertBlank,
    /// the last line grown beyond the first line's length by k
    LastLonger(u8),
}

#[derive(Clone, Debug, Serialize, Deserialize)]
pub struct RaggedCase {
    pub doc: FastaDocSpec,
    pub rec: u16,
    /// selector among the non-last lines of the record
    pub line: u16,
    pub edit: Edit,
    pub bgz: Option<Vec<u16>>,
    pub reader: ReaderKind,
}

fn ragged_strategy(tier: Tier) -> BoxedStrategy<RaggedCase> {
    let edit = prop_oneof![
        3 => (1u8..=3).prop_map(Edit::Lengthen),
        3 => (1u8..=3).prop_map(Edit::Shorten),
        2 => Just(Edit::ToggleTerminator),
        1 => Just(Edit::InsertBlank),
        2 => (1u8..=3).prop_map(Edit::LastLonger),
    ];
    (text::fasta_doc_spec(tier.pick(4, 6), 6, 120), any::<u16>(), any::<u16>(), edit, bgz_script(), reader_kind())
        .prop_map(|(mut doc, rec, line, edit, bgz, reader)| {
            // keep the unedited file strictly uniform, and records long enough to have interior lines
            for r in &mut doc.records {
                r.blank_after = 0;
                let w = r.width.max(1) as u32;
                if r.len <= 2 * w {
                    r.len += 2 * w;
                }
            }
            RaggedCase { doc, rec, line, edit, bgz, reader }
        })
        .boxed()
}

fn ragged_check(c: &RaggedCase) -> Verdict {
    let doc = c.doc.expand();
    let text = doc.render();
    let naive0 = fasta_naive::parse(&text).map_err(|e| vec![Fail::new("c11.harness.naive-parse", e)])?;
    ensure!(worst_shape(&naive0) == Shape::Strict, "c11.harness.oracle-mismatch", "unedited file is not strictly uniform");
    let ri = pick_idx(c.rec, naive0.len());
    let rec = &naive0[ri];
    let nl = rec.lines.len();
    ensure!(nl >= 2, "c11.harness.oracle-mismatch", "record has {nl} lines");
    let li = match c.edit {
        Edit::LastLonger(_) => nl - 1,
        _ => pick_idx(c.line, nl - 1),
    };
    let line = &rec.lines[li];
    let term = line.width - line.bases; // 0 (unterminated last line), 1 or 2
    let bases_end = line.start as usize + line.bases;
    let mut edited = text.clone();
    match c.edit {
        Edit::Lengthen(k) => {
            edited.splice(bases_end..bases_end, std::iter::repeat_n(b'G', k as usize));
        }
        Edit::LastLonger(k) => {
            let first = rec.lines[0].bases;
            let add = first - line.bases.min(first) + k as usize;
            edited.splice(bases_end..bases_end, std::iter::repeat_n(b'T', add));
        }
        Edit::Shorten(k) => {
            let k = (k as usize).min(line.bases);
            edited.drain(bases_end - k..bases_end);
        }
        Edit::ToggleTerminator => {
            if term == 2 {
                edited.remove(bases_end);
            } else if term == 1 {
                edited.insert(bases_end, b'\r');
            }
        }
        Edit::InsertBlank => {
            let at = line.start as usize + line.width;
            let nlb: &[u8] = if doc.layout.crlf { b"\r\n" } else { b"\n" };
            edited.splice(at..at, nlb.iter().copied());
        }
    }
    let stream = Stream::new(edited, &c.bgz)?;
    let mut fails = Fails::new();
    let out = check_index(&stream, &c.reader, &mut fails)?;
    let ragged = out.worst == Shape::Ragged;
    let pass = Pass::new(ragged, key_of(c))
        .label(match c.edit {
            Edit::Lengthen(_) => "edit-lengthen",
            Edit::Shorten(_) => "edit-shorten",
            Edit::ToggleTerminator => "edit-terminator",
            Edit::InsertBlank => "edit-blank-line",
            Edit::LastLonger(_) => "edit-last-longer",
        })
        .label(match out.worst {
            Shape::Strict => "edited-still-strict",
            Shape::Lenient => "edited-lenient",
            Shape::Ragged => "edited-ragged",
            Shape::Empty => "edited-empty",
        })
        .label_if(ragged && out.err.is_some(), "ragged-rejected")
        .label_if(li == 0, "first-line-edited")
        .label_if(c.bgz.is_some(), "bgzf")
        .label_if(doc.layout.crlf, "crlf")
        .label_if(matches!(c.reader, ReaderKind::Cap(n) if n <= 3), "cap<=3")
        .label_if(matches!(c.reader, ReaderKind::Window(_)), "window-reader");
    fails.finish(pass.label("passed-without-known-finding"))
}

// ------------------------------------------------------------------------------------------------
// sub-check 3: written by noodles, read back

#[derive(Clone, Debug, Serialize, Deserialize)]
pub struct WriteReadCase {
    pub fasta: FastaDocSpec,
    /// configured `line_base_count`
    pub width: u16,
    pub fastq: FastqDoc,
    /// 0 = read from the slice, otherwise `BufReader::with_capacity(cap, …)`
    pub cap: u8,
}

fn wr_strategy(tier: Tier) -> BoxedStrategy<WriteReadCase> {
    (text::fasta_doc_spec(tier.pick(5, 8), 5, 200), text::line_width(200), text::fastq_doc(tier.pick(5, 8)), prop_oneof![1 => Just(0u8), 4 => 1u8..=64])
        .prop_map(|(fasta, width, mut fastq, cap)| {
            fastq.layout.crlf = false;
            fastq.layout.plus_repeats_name = false;
            fastq.layout.final_newline = true;
            WriteReadCase { fasta, width, fastq, cap }
        })
        .boxed()
}

fn with_cap<'a>(bytes: &'a [u8], cap: u8) -> Box<dyn BufRead + 'a> {
    if cap == 0 { Box::new(bytes) } else { Box::new(BufReader::with_capacity(cap as usize, bytes)) }
}

fn fastq_index_check(bytes: &[u8], cap: u8, crlf: bool, fails: &mut Fails) -> Result<(), Vec<Fail>> {
    let naive = fasta_naive::parse_fastq(bytes).map_err(|e| vec![Fail::new("c11.harness.naive-parse", e)])?;
    let mut indexer = fastq::io::Indexer::new(with_cap(bytes, cap));
    let mut got = Vec::new();
    loop {
        match indexer.index_record() {
            Ok(Some(r)) => got.push(r),
            Ok(None) => break,
            Err(e) => {
                fails.push("fastq.index.error", format!("fastq::io::Indexer: {e}"));
                return Ok(());
            }
        }
    }
    if got.len() != naive.len() {
        fails.push("fastq.index.count", format!("{} index records for {} FASTQ records", got.len(), naive.len()));
        return Ok(());
    }
    for (g, n) in got.iter().zip(&naive) {
        let want = fastq::fai::Record::new(String::from_utf8_lossy(&n.name).into_owned(), n.seq.len() as u64, n.seq_offset, n.seq.len() as u64, n.seq_line_width, n.qual_offset);
        if *g != want {
            // the recorded CR finding reaches the indexer's name column through the same function
            let want_cr = fastq::fai::Record::new(format!("{}\r", String::from_utf8_lossy(&n.name)), n.seq.len() as u64, n.seq_offset, n.seq.len() as u64, n.seq_line_width, n.qual_offset);
            let sig = if crlf && n.description.is_empty() && *g == want_cr { SIG_FASTQ_CR } else { "fastq.index.record" };
            fails.push(sig, format!("index record {g:?}, naive {want:?}"));
        }
    }
    Ok(())
}

fn wr_check(c: &WriteReadCase) -> Verdict {
    let mut fails = Fails::new();
    let width = c.width.max(1) as usize;

    // FASTA
    let doc = c.fasta.expand();
    let bytes = doc.write_with_noodles(width).map_err(fail_io("fasta.writer.error", "fasta::io::Writer"))?;
    if bytes != doc.render_as_writer(width) {
        fails.push("fasta.writer.bytes", format!("fasta::io::Writer at width {width} wrote {:?}", BString::from(trunc_bytes(&bytes))));
    }
    let want = doc.to_noodles();
    let back: Result<Vec<fasta::Record>, io::Error> = fasta::io::Reader::new(with_cap(&bytes, c.cap)).records().collect();
    match back {
        Err(e) => fails.push("fasta.read.error", format!("reading back what fasta::io::Writer wrote: {e}")),
        Ok(back) => {
            if back != want {
                let i = back.iter().zip(&want).position(|(a, b)| a != b).unwrap_or(back.len().min(want.len()));
                fails.push("fasta.write-read", format!("{} records written, {} read; first difference at #{i}: wrote {:?}, read {:?}", want.len(), back.len(), want.get(i).map(text::canonical_fasta_record), back.get(i).map(text::canonical_fasta_record)));
            }
        }
    }

    // the same through a destination that accepts only a few bytes per write call (any `Write`
    // may; a BGZF writer does at every block boundary): the file must be the same
    let short_max = 1 + (c.cap as usize % 9);
    {
        let sink = crate::io_adv::sink::ShortSink::new(short_max);
        match doc.write_with_noodles_to(sink.clone(), width) {
            Err(e) => fails.push("fasta.writer.short-writes", format!("fasta::io::Writer fails on a destination accepting {short_max} bytes per call: {e}")),
            Ok(_) => {
                if sink.bytes() != bytes {
                    fails.push("fasta.writer.short-writes", format!("fasta::io::Writer at width {width} into a destination accepting {short_max} bytes per call wrote {} bytes, {} into a Vec: {:?}", sink.bytes().len(), bytes.len(), BString::from(trunc_bytes(&sink.bytes()))));
                }
            }
        }
    }

    // FASTQ
    let qbytes = c.fastq.write_with_noodles().map_err(fail_io("fastq.writer.error", "fastq::io::Writer"))?;
    {
        let sink = crate::io_adv::sink::ShortSink::new(short_max);
        match c.fastq.write_with_noodles_to(sink.clone()) {
            Err(e) => fails.push("fastq.writer.short-writes", format!("fastq::io::Writer fails on a destination accepting {short_max} bytes per call: {e}")),
            Ok(()) => {
                if sink.bytes() != qbytes {
                    fails.push("fastq.writer.short-writes", format!("fastq::io::Writer into a destination accepting {short_max} bytes per call wrote {} bytes, {} into a Vec", sink.bytes().len(), qbytes.len()));
                }
            }
        }
    }
    if qbytes != c.fastq.render_as_writer() {
        fails.push("fastq.writer.bytes", format!("fastq::io::Writer wrote {:?}", BString::from(trunc_bytes(&qbytes))));
    }
    let qwant = c.fastq.to_noodles();
    let qback: Result<Vec<fastq::Record>, io::Error> = fastq::io::Reader::new(with_cap(&qbytes, c.cap)).records().collect();
    match qback {
        Err(e) => fails.push("fastq.read.error", format!("reading back what fastq::io::Writer wrote: {e}")),
        Ok(qback) => {
            if qback != qwant {
                let i = qback.iter().zip(&qwant).position(|(a, b)| a != b).unwrap_or(qback.len().min(qwant.len()));
                fails.push("fastq.write-read", format!("{} records written, {} read; first difference at #{i}: wrote {:?}, read {:?}", qwant.len(), qback.len(), qwant.get(i).map(text::canonical_fastq_record), qback.get(i).map(text::canonical_fastq_record)));
            }
        }
    }
    fastq_index_check(&qbytes, c.cap, false, &mut fails)?;
    if fails.is_empty() {
        // the shared transcript helpers must agree with the models' canonical texts
        let (t, e) = text::fasta_read_transcript(&bytes[..]);
        let (tq, eq) = text::fastq_read_transcript(&qbytes[..]);
        let want: Vec<String> = doc.records.iter().map(|r| r.canonical_text()).collect();
        let wantq: Vec<String> = c.fastq.records.iter().map(|r| r.canonical_text()).collect();
        if e.is_some() || eq.is_some() || t != want || tq != wantq {
            fails.push("c11.harness.transcript", format!("read transcripts {t:?} {e:?} {tq:?} {eq:?} differ from the canonical texts {want:?} {wantq:?}"));
        }
    }

    let at_plus = c.fastq.records.iter().any(|r| r.qual.starts_with('@') || r.qual.starts_with('+'));
    let wrapped = doc.records.iter().any(|r| r.seq.len() > width);
    let pass = Pass::new(at_plus || wrapped, key_of(c))
        .label_if(c.fastq.records.iter().any(|r| r.qual.starts_with('@')), "qual-starts-with-@")
        .label_if(c.fastq.records.iter().any(|r| r.qual.starts_with('+')), "qual-starts-with-+")
        .label_if(c.fastq.records.iter().any(|r| r.qual[1.min(r.qual.len())..].contains(['@', '+'])), "qual-contains-@+")
        .label_if(c.fastq.records.iter().any(|r| r.seq.is_empty()), "fastq-empty-sequence")
        .label_if(c.fastq.records.iter().any(|r| !r.description.is_empty()), "fastq-description")
        .label_if(c.fastq.layout.sep_tab, "fastq-tab-separator")
        .label_if(wrapped, "fasta-wrapped")
        .label_if(doc.records.iter().any(|r| r.seq.len() % width == 0), "fasta-full-last-line")
        .label_if(doc.records.iter().any(|r| r.description.is_some()), "fasta-description")
        .label_if(c.cap != 0 && c.cap <= 3, "cap<=3")
        .label_if(width == 1, "width-1");
    fails.finish(pass.label("passed-without-known-finding"))
}

// ------------------------------------------------------------------------------------------------
// sub-check 4: FASTQ text layouts

#[derive(Clone, Debug, Serialize, Deserialize)]
pub struct FastqLayoutCase {
    pub doc: FastqDoc,
    pub cap: u8,
}

fn fql_strategy(tier: Tier) -> BoxedStrategy<FastqLayoutCase> {
    (text::fastq_doc(tier.pick(4, 8)), prop_oneof![1 => Just(0u8), 5 => 1u8..=64]).prop_map(|(doc, cap)| FastqLayoutCase { doc, cap }).boxed()
}

pub const SIG_FASTQ_CR: &str = "fastq.read.name-keeps-cr-split-across-fills";

fn fql_check(c: &FastqLayoutCase) -> Verdict {
    let mut fails = Fails::new();
    let bytes = c.doc.render();
    let want = c.doc.to_noodles();
    let back: Result<Vec<fastq::Record>, io::Error> = fastq::io::Reader::new(with_cap(&bytes, c.cap)).records().collect();
    match back {
        Err(e) => fails.push("fastq.read.error", format!("{e}")),
        Ok(back) => {
            if back.len() != want.len() {
                fails.push("fastq.read.count", format!("{} records in the file, {} read", want.len(), back.len()));
            } else {
                for (b, w) in back.iter().zip(&want) {
                    if b == w {
                        continue;
                    }
                    // class predicate of the recorded finding: CRLF input, a definition line
                    // without description, and only the name differs by one trailing CR
                    let mut w_cr = w.clone();
                    w_cr.name_mut().push(b'\r');
                    let sig = if c.doc.layout.crlf && w.description().is_empty() && *b == w_cr { SIG_FASTQ_CR } else { "fastq.read.record" };
                    fails.push(sig, format!("read {:?}, file has {:?}", text::canonical_fastq_record(b), text::canonical_fastq_record(w)));
                }
            }
        }
    }
    fastq_index_check(&bytes, c.cap, c.doc.layout.crlf, &mut fails)?;
    let pass = Pass::new(c.doc.layout.crlf || c.doc.layout.plus_repeats_name || !c.doc.layout.final_newline, key_of(c))
        .label_if(c.doc.layout.crlf, "crlf")
        .label_if(c.doc.layout.plus_repeats_name, "plus-line-repeats-name")
        .label_if(!c.doc.layout.final_newline, "no-final-newline")
        .label_if(c.doc.layout.sep_tab, "tab-separator")
        .label_if(c.cap != 0 && c.cap <= 3, "cap<=3")
        .label_if(c.doc.records.iter().any(|r| r.qual.starts_with('@') || r.qual.starts_with('+')), "qual-starts-with-@+");
    fails.finish(pass.label("passed-without-known-finding"))
}

pub fn property() -> Property {
    Property {
        id: "C11",
        level: "exploration",
        rule: "FASTA geometries (1..12 records × 1..5 lines × width 1..200, LF/CRLF, blank lines, short/full last line, missing final newline, descriptions; harness-built or written by fasta::io::Writer; plain or bgzipped with a walker-built gzi) × reader (Cursor, BufReader capacity 1..64, scripted fill_buf windows) × regions; derived ragged files; FASTA/FASTQ write→read",
        assumptions: vec![
            "the naive line splitter in oracle/fasta_naive.rs and the samtools-faidx column definitions (offset of first base, bases and bytes of the first line)".into(),
            "the harness's BGZF builder/walker (miniz_oxide, crc32fast) for the bgzipped inputs and their gzi".into(),
            "acceptance is only demanded for files without blank lines whose last line is not longer than the first; for blank-line tails the indexer may reject, but may not mis-index".into(),
        ],
        subs: vec![
            sub(
                "index_query",
                "non-trivial = a record with ≥2 sequence lines and ≥1 region other than the whole sequence evaluated against an accepted index; distinct by hash of the case; evaluations count individual queries",
                strategy,
                check,
                40_000,
                1_000_000,
            )
            .boxed(),
            sub("ragged", "non-trivial = the edited file is ragged by the naive shape rule (an interior/first line differs, or the last line is longer than the first); distinct by hash of the case", ragged_strategy, ragged_check, 40_000, 1_000_000).boxed(),
            sub("write_read", "non-trivial = a quality string starting with '@' or '+', or a FASTA sequence wrapped over ≥2 lines; distinct by hash of the case", wr_strategy, wr_check, 30_000, 800_000).boxed(),
            sub("fastq_layouts", "non-trivial = CRLF, or a '+' line repeating the name, or no final newline; distinct by hash of the case", fql_strategy, fql_check, 20_000, 500_000).boxed(),
        ],
        max_parallel: 16,
    }
}
