//! C14 — writers never hide a sink failure and tolerate short writes.
//!
//! Per writer family (format driver): a generated document is written once to a healthy sink
//! (which counts the sink calls), then
//!  (a) for **every** call index k (all k up to `MAX_K`, a stratified sample above) the sink fails at
//!      its k-th call with a generated `ErrorKind`, sticky or transient: if the failure was actually
//!      delivered to noodles, some write/flush/finish call must return `Err`;
//!  (b) the healthy output decodes to exactly the document (compared with an expectation derived
//!      from the document, not from a second write) and is well-formed BGZF where applicable;
//!  (c) sinks that accept only part of each buffer or return `Interrupted` (finite placements)
//!      produce byte-identical output.
//! (d) — drop of an unfinished BGZF writer — is decided by C01 (`End::Drop`), and re-checked here for
//! the single-threaded BGZF writer over a faulty-free sink.

use crate::drivers::{self, Delivery, Doc, Driver, Ev, ReadOpts, summarize};
use crate::engine::shard::ClosureSub;
use crate::engine::*;
use crate::r#gen::payload::XorShift;
use crate::io_adv::faulty::{DynSink, FaultKind, FaultySink, SinkScript};
use crate::oracle::bgzf_walk;
use proptest::prelude::*;
use serde::{Deserialize, Serialize};
use std::sync::Arc;

const MAX_K: usize = 400;

#[derive(Clone, Debug, Serialize, Deserialize)]
pub struct Case {
    pub doc: Doc,
    pub seed: u32,
    /// short-write script: accepted sizes
    pub accept: Vec<u32>,
    pub interrupts: Vec<bool>,
    /// restrict the fault enumeration to one call index (hand-written replays)
    pub only_k: Option<u32>,
}

fn run_write(drv: &dyn Driver, doc: &Doc, script: SinkScript) -> (std::io::Result<()>, crate::io_adv::faulty::SinkLog) {
    let mut sink = FaultySink::new(script);
    let res = match drv.write_owned(doc, sink.boxed_clone()) {
        Some(r) => r,
        None => drv.write(doc, &mut sink),
    };
    (res, sink.snapshot())
}

const KINDS: [FaultKind; 5] = [FaultKind::Other, FaultKind::BrokenPipe, FaultKind::StorageFull, FaultKind::WriteZero, FaultKind::PermissionDenied];

/// What reading the healthy output must give, derived from the document itself.
fn expected_records(drv: &dyn Driver, doc: &Doc) -> Option<Vec<String>> {
    match (drv.family(), doc) {
        (drivers::Family::Alignment, Doc::Aln(d)) if drv.name() != "cram" => {
            let (_, recs) = drivers::sync::parse_sam(&d.sam_text("unsorted")).ok()?;
            Some(recs.iter().map(|r| format!("{r:?}")).collect())
        }
        (drivers::Family::Variant, Doc::Var(d)) => {
            let (_, recs) = drivers::sync::parse_vcf(&d.vcf_text()).ok()?;
            Some(recs.iter().map(|r| format!("{r:?}")).collect())
        }
        (drivers::Family::Text, Doc::Text(t)) => {
            // the document text read from a plain slice
            let data = Arc::new(t.render());
            let (tr, _) = drv.read(&data, &Delivery::Plain, doc, &ReadOpts::default());
            if tr.iter().any(|e| matches!(e, Ev::Err { .. } | Ev::Runaway)) {
                return None;
            }
            Some(drivers::records_of(&tr).into_iter().cloned().collect())
        }
        _ => None,
    }
}

fn check(drv: &dyn Driver, c: &Case) -> Verdict {
    let name = drv.name();
    // healthy run
    let (res, healthy) = run_write(drv, &c.doc, SinkScript::default());
    if let Err(e) = res {
        return fail1(format!("c14.baseline-write-error:{name}"), format!("writing the generated document to a healthy sink failed: {e}"));
    }
    let mut fails = Fails::new();
    let n_calls = healthy.calls as usize;

    // (b) healthy output decodes to the document
    let data = Arc::new(healthy.bytes.clone());
    let (tr, _) = drv.read(&data, &Delivery::Plain, &c.doc, &ReadOpts::default());
    if !matches!(tr.last(), Some(Ev::Eof)) || tr.iter().any(|e| matches!(e, Ev::Err { .. } | Ev::Runaway)) {
        fails.push(format!("c14.output-unreadable:{name}"), format!("all calls returned Ok but the sink does not read back cleanly: {}", summarize(&tr)));
    } else if let Some(exp) = expected_records(drv, &c.doc) {
        let got: Vec<String> = drivers::records_of(&tr).into_iter().cloned().collect();
        if got != exp {
            let i = got.iter().zip(exp.iter()).position(|(a, b)| a != b).unwrap_or(got.len().min(exp.len()));
            fails.push(
                format!("c14.output-differs:{name}"),
                format!(
                    "all calls returned Ok but record {i} of {} read back differs from the document ({} expected): got={} expected={}",
                    got.len(),
                    exp.len(),
                    got.get(i).map(|s| trunc(s, 400)).unwrap_or("<none>".into()),
                    exp.get(i).map(|s| trunc(s, 400)).unwrap_or("<none>".into())
                ),
            );
        }
    }
    if drv.is_bgzf() {
        match bgzf_walk::walk(&healthy.bytes) {
            Ok(_) => {
                if healthy.bytes.len() < 28 || healthy.bytes[healthy.bytes.len() - 28..] != bgzf_walk::EOF_MARKER {
                    fails.push(format!("c14.no-eof-marker:{name}"), "finished BGZF output does not end with the EOF marker".to_string());
                }
            }
            Err(e) => fails.push(format!("c14.malformed-bgzf:{name}"), e),
        }
    }

    // (c) short writes / interrupts: byte identical — unless the writer is not a deterministic
    // function of its input even on a healthy sink (then: same decoded content)
    let (res2, healthy2) = run_write(drv, &c.doc, SinkScript::default());
    let deterministic = res2.is_ok() && healthy2.bytes == healthy.bytes;
    let same_output = |bytes: &Vec<u8>| -> bool {
        if deterministic {
            *bytes == healthy.bytes
        } else {
            let d2 = Arc::new(bytes.clone());
            let (t2, _) = drv.read(&d2, &Delivery::Plain, &c.doc, &ReadOpts::default());
            t2 == tr
        }
    };
    let mut short_nontrivial = false;
    {
        let script = SinkScript { accept: c.accept.clone(), ..SinkScript::default() };
        let (res, log) = run_write(drv, &c.doc, script);
        short_nontrivial |= log.short_writes > 0;
        match res {
            Err(e) => fails.push(format!("c14.short-write-error:{name}"), format!("a sink that accepts part of each buffer made the writer fail: {e}")),
            Ok(()) => {
                if !same_output(&log.bytes) {
                    fails.push(
                        format!("c14.short-write-differs:{name}"),
                        format!("output under short writes ({} bytes) differs from the plain output ({} bytes), first difference at {:?}", log.bytes.len(), healthy.bytes.len(), super::c01::first_diff(&log.bytes, &healthy.bytes)),
                    );
                }
            }
        }
        let mut intr = c.interrupts.clone();
        if !intr.iter().any(|b| *b) {
            intr = vec![true, false, false];
        }
        if !intr.iter().any(|b| !*b) {
            intr.push(false);
        }
        let script = SinkScript { accept: c.accept.clone(), interrupts: intr, ..SinkScript::default() };
        let (res, log) = run_write(drv, &c.doc, script);
        match res {
            Err(e) => fails.push(format!("c14.interrupted-write-error:{name}"), format!("a sink returning ErrorKind::Interrupted made the writer fail: {e} (kind {:?})", e.kind())),
            Ok(()) => {
                if !same_output(&log.bytes) {
                    fails.push(
                        format!("c14.interrupted-write-differs:{name}"),
                        format!("output under Interrupted ({} bytes) differs from the plain output ({} bytes), first difference at {:?}", log.bytes.len(), healthy.bytes.len(), super::c01::first_diff(&log.bytes, &healthy.bytes)),
                    );
                }
            }
        }
    }

    // (a) failure at call k
    let ks: Vec<usize> = if let Some(k) = c.only_k {
        vec![k as usize]
    } else if n_calls <= MAX_K {
        (0..n_calls).collect()
    } else {
        let mut v: Vec<usize> = (0..20).chain(n_calls - 20..n_calls).collect();
        let mut r = XorShift::new(c.seed as u64 + 99);
        let stride = n_calls / (MAX_K - 40);
        let mut x = 20;
        while x < n_calls - 20 {
            v.push(x + (r.next() as usize % stride.max(1)));
            x += stride.max(1);
        }
        v.sort_unstable();
        v.dedup();
        v.retain(|k| *k < n_calls);
        v
    };
    let mut rng = XorShift::new(c.seed as u64 + 1);
    let mut delivered = 0u64;
    let mut interior = 0u64;
    for k in &ks {
        let x = rng.next();
        let kind = KINDS[(x % 5) as usize];
        let sticky = (x >> 8) % 2 == 0;
        let script = SinkScript { fail_at: Some(*k as u32), kind: Some(kind), sticky, ..SinkScript::default() };
        let (res, log) = run_write(drv, &c.doc, script);
        if log.errors_delivered > 0 {
            delivered += 1;
            if *k > 2 && *k + 1 < n_calls {
                interior += 1;
            }
            if res.is_ok() {
                fails.push(
                    format!("c14.error-swallowed:{name}"),
                    format!(
                        "the sink failed at its call {k} of {n_calls} ({kind:?}, {}) — {} error(s) delivered — yet every write/flush/finish call of the writer returned Ok; sink holds {} of {} bytes",
                        if sticky { "sticky" } else { "transient" },
                        log.errors_delivered,
                        log.bytes.len(),
                        healthy.bytes.len()
                    ),
                );
            }
        }
    }
    let all_k = c.only_k.is_none() && n_calls <= MAX_K;
    fails.finish(
        Pass::new(interior > 0 || short_nontrivial, key_of(&c.doc))
            .evals(ks.len() as u64 + 3)
            .label_if(all_k, "every-call-index")
            .label_if(!all_k, "sampled-call-indices")
            .label_if(interior > 0, "fault-between-header-and-last-call")
            .label_if(short_nontrivial, "short-writes-delivered")
            .label_if(n_calls > 50, "calls>50")
            .label_if(delivered == 0, "no-fault-delivered")
            .label_if(!deterministic, "nondeterministic-writer(content-compared)"),
    )
}

/// (d) dropping an unfinished single-threaded BGZF writer emits the buffered data and the EOF block.
fn check_drop(c: &Case) -> Verdict {
    use noodles_bgzf as bgzf;
    use std::io::Write as _;
    let Doc::Bytes { payload, flushes, .. } = &c.doc else { return fail1("c14.harness", "wrong doc") };
    let data = payload.expand();
    let sink = FaultySink::new(SinkScript { accept: c.accept.clone(), ..SinkScript::default() });
    {
        let mut w = bgzf::io::Writer::new(sink.clone());
        let mut points: Vec<usize> = flushes.iter().map(|p| (*p as usize % 1001) * data.len() / 1000).collect();
        points.sort_unstable();
        let mut off = 0;
        for p in points {
            w.write_all(&data[off..p]).map_err(|e| vec![Fail::new("c14.drop.write-error", format!("{e}"))])?;
            off = p;
        }
        w.write_all(&data[off..]).map_err(|e| vec![Fail::new("c14.drop.write-error", format!("{e}"))])?;
        // no finish: drop
    }
    let bytes = sink.snapshot().bytes;
    let members = bgzf_walk::walk(&bytes).map_err(|e| vec![Fail::new("c14.drop.malformed", e)])?;
    crate::ensure!(bgzf_walk::concat(&members) == data, "c14.drop.data-lost", "dropping the writer lost buffered data: {} of {} bytes present", bgzf_walk::concat(&members).len(), data.len());
    crate::ensure!(bytes.len() >= 28 && bytes[bytes.len() - 28..] == bgzf_walk::EOF_MARKER, "c14.drop.no-eof", "dropping the writer did not emit the EOF block");
    Ok(Pass::new(!data.is_empty(), key_of(c)).label_if(data.len() > 65495, "multi-block"))
}

pub const DRIVERS: &[&str] = &[
    "bgzf", "bgzf-mt", "bam", "bam-raw", "sam", "sam.gz", "cram", "vcf", "vcf.gz", "bcf", "bcf-raw", "fasta", "fastq", "gff", "gtf", "bed3", "bed4", "bed5", "bed6", "bai", "csi", "tabix", "gzi", "fai", "crai",
];

pub fn property() -> Property {
    let mut subs: Vec<Box<dyn DynSub>> = Vec::new();
    for dname in DRIVERS {
        let dname: &'static str = dname;
        let (q, t) = match dname {
            "cram" => (120, 1600),
            "bgzf" | "bgzf-mt" => (160, 2000),
            _ => (300, 4000),
        };
        subs.push(
            ClosureSub::<Case> {
                name: dname.to_string(),
                rule: "one case = one document: healthy write, short-write run, interrupted run, and a failing run for every sink call index k (all k ≤ 400, stratified sample above) with generated ErrorKind and stickiness; evaluations counts writer runs; non-trivial = a fault was delivered strictly between the first calls and the last call, or a short write was delivered; distinct by hash of the document".into(),
                strategy: Box::new(move |tier| {
                    let d = drivers::by_name(dname).unwrap();
                    let doc = if dname.starts_with("bgzf") {
                        use crate::r#gen::payload::payload;
                        (payload(tier.pick(140_000, 260_000)), proptest::collection::vec(0u16..=1000, 0..5), proptest::option::of(0u8..=9)).prop_map(|(payload, flushes, level)| Doc::Bytes { payload, flushes, level }).boxed()
                    } else {
                        d.doc(tier)
                    };
                    (doc, any::<u32>(), proptest::collection::vec(prop_oneof![1u32..4, 1u32..200, 1u32..70000], 1..4), proptest::collection::vec(any::<bool>(), 1..5))
                        .prop_map(|(doc, seed, accept, interrupts)| Case { doc, seed, accept, interrupts, only_k: None })
                        .boxed()
                }),
                check: Box::new(move |c| {
                    let d = drivers::by_name(dname).unwrap();
                    check(d.as_ref(), c)
                }),
                quick: q,
                thorough: t,
                opts: SubOpts { max_shards: 8, isolate: true, hang_is_violation: true, case_budget_s: 30, max_shrink_iters: 80, ..SubOpts::default() },
            }
            .boxed(),
        );
    }
    subs.push(
        ClosureSub::<Case> {
            name: "bgzf-drop".into(),
            rule: "unfinished bgzf::io::Writer dropped over a short-writing sink: buffered data and EOF block present; non-trivial = non-empty payload".into(),
            strategy: Box::new(|tier| {
                use crate::r#gen::payload::payload;
                (
                    (payload(tier.pick(140_000, 260_000)), proptest::collection::vec(0u16..=1000, 0..5)).prop_map(|(payload, flushes)| Doc::Bytes { payload, flushes, level: None }),
                    proptest::collection::vec(prop_oneof![1u32..4, 1u32..200, 1u32..70000], 0..4),
                )
                    .prop_map(|(doc, accept)| Case { doc, seed: 0, accept, interrupts: vec![], only_k: None })
                    .boxed()
            }),
            check: Box::new(check_drop),
            quick: 300,
            thorough: 6000,
            opts: SubOpts::default(),
        }
        .boxed(),
    );
    Property {
        id: "C14",
        level: "fault_enumeration",
        rule: "document per writer family × sink script: failure at every sink call index (write and flush calls counted together) × ErrorKind × sticky/transient; short-write and Interrupted patterns",
        assumptions: vec![
            "a scripted failure counts only when the sink actually returned it to a noodles call (the sink logs every error it delivered)".into(),
            "the expectation for 'decodes to exactly what was written' is derived from the document (SAM/VCF text parsed from a plain slice), CRAM and index value equality are decided by C07/C17".into(),
            "after a multithreaded BGZF writer has returned an error the harness only drops it".into(),
        ],
        subs,
        max_parallel: 16,
    }
}
