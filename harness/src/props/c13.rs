//! C13 — a truncated file yields a prefix of the original records, then EOF or an error.
//!
//! For every driver in the property's quantifier (BGZF, BAM, BCF, CRAM, bgzipped SAM/VCF, index
//! files) a document is written by noodles, and the file is cut at **every** byte offset (files up
//! to `ALL_CUTS_LIMIT` bytes) or at all structural boundaries ±2 plus a stratified sample (larger
//! files). Oracle per cut: the events delivered are a prefix of the intact file's events, followed
//! by `Eof` or `Err`; never a panic; and when the decompressed stream a BAM/BCF record reader
//! receives ends inside a record, or a CRAM file ends inside a container, the end must be `Err`.

use crate::drivers::{self, Delivery, Doc, Driver, Ev, ReadOpts, summarize};
use crate::engine::shard::ClosureSub;
use crate::engine::*;
use crate::oracle::{bgzf_walk, framing};
use proptest::prelude::*;
use serde::{Deserialize, Serialize};
use std::sync::Arc;

pub const ALL_CUTS_LIMIT: usize = 7000;
const SAMPLED_CUTS: usize = 1500;

#[derive(Clone, Debug, Serialize, Deserialize)]
pub struct Case {
    pub doc: Doc,
    /// selects the stratified sample for large files
    pub sample_seed: u32,
    /// restrict to one cut (set in replay files written by hand; the generator leaves it None)
    pub only_cut: Option<u32>,
    /// BGZF based files: an empty member (EOF marker block) inserted at the member boundary
    /// selected per-mille before cutting — the valid `cat a.bgz b.bgz` shape
    #[serde(default)]
    pub empty_member: Option<u16>,
    /// BGZF based files: re-cut the payload into blocks at arbitrary byte offsets before cutting
    #[serde(default)]
    pub reframe: Option<u32>,
}

pub const DRIVERS: &[&str] = &["bgzf", "bgzf-mt", "bam", "bam-eager", "bam-raw", "sam.gz", "vcf.gz", "bcf", "bcf-raw", "cram", "bai", "csi", "tabix", "gzi", "fai", "crai"];

fn body(t: &[Ev]) -> (&[Ev], Option<&Ev>) {
    match t.last() {
        Some(e @ (Ev::Eof | Ev::Err { .. } | Ev::Runaway)) => (&t[..t.len() - 1], Some(e)),
        _ => (t, None),
    }
}

/// FNV-1a prefix hashes: h[i] = hash of data[..i].
fn prefix_hashes(data: &[u8]) -> Vec<u64> {
    let mut v = Vec::with_capacity(data.len() + 1);
    let mut h: u64 = 0xcbf29ce484222325;
    v.push(h);
    for b in data {
        h ^= *b as u64;
        h = h.wrapping_mul(0x100000001b3);
        v.push(h);
    }
    v
}

struct Ctx<'a> {
    drv: &'a dyn Driver,
    doc: &'a Doc,
    full: Vec<Ev>,
    /// intact file, uncompressed (BGZF based formats)
    members: Vec<bgzf_walk::Member>,
    u_hashes: Vec<u64>,
    frame: Option<framing::Framing>,
    cram: Option<framing::CramFraming>,
    line_oriented: bool,
    /// uncompressed line-oriented payload (sam.gz / vcf.gz) or the file itself (fai)
    text: Vec<u8>,
}

fn check_cut(cx: &Ctx, file: &[u8], k: usize, fails: &mut Fails, partial_final_lines: &mut u64) {
    if cx.drv.name() == "bgzf" || cx.drv.name() == "bgzf-mt" {
        // also through the reader's direct path for caller buffers of at least one block
        check_cut_with(cx, file, k, fails, partial_final_lines, 70_000);
    }
    check_cut_with(cx, file, k, fails, partial_final_lines, 4093);
}

fn check_cut_with(cx: &Ctx, file: &[u8], k: usize, fails: &mut Fails, partial_final_lines: &mut u64, bgzf_buf: usize) {
    let name = cx.drv.name();
    let data = Arc::new(file[..k].to_vec());
    let opts = ReadOpts { vpos: false, max_events: cx.full.len() * 2 + 64, bgzf_buf, ..ReadOpts::default() };
    let (t, _) = cx.drv.read(&data, &Delivery::Plain, cx.doc, &opts);
    let (tb, tend) = body(&t);
    let (fb, _) = body(&cx.full);
    let at = |msg: String| format!("cut at byte {k} of {} (read buffer {bgzf_buf}): {msg} | intact: {} | truncated: {}", file.len(), summarize(&cx.full), summarize(&t));

    // terminal event
    match tend {
        Some(Ev::Eof) | Some(Ev::Err { .. }) => {}
        Some(Ev::Runaway) => {
            fails.push(format!("c13.runaway:{name}"), at("the reader keeps producing events beyond what the file holds".into()));
            return;
        }
        _ => {
            fails.push(format!("c13.no-terminal:{name}"), at("transcript does not end in Eof or Err".into()));
            return;
        }
    }
    // BGZF raw bytes: delivered bytes must be a prefix of the payload
    if name == "bgzf" || name == "bgzf-mt" {
        if let Some(Ev::Bytes(h, len)) = tb.first() {
            if *len >= cx.u_hashes.len() || cx.u_hashes[*len] != *h {
                fails.push(format!("c13.not-a-prefix:{name}"), at(format!("the {len} bytes delivered are not a prefix of the {} bytes written", cx.u_hashes.len() - 1)));
            }
        }
        return;
    }
    // uncompressed prefix available to the record layer
    let (u_len, u_complete_lines_only) = if cx.drv.is_bgzf() {
        let (members, _) = bgzf_walk::walk_prefix(&data);
        let n: usize = members.iter().map(|m| m.data.len()).sum();
        (n, cx.text.get(..n).map(|t| t.is_empty() || t.ends_with(b"\n")).unwrap_or(true))
    } else {
        (k, cx.text.get(..k).map(|t| t.is_empty() || t.ends_with(b"\n")).unwrap_or(true))
    };
    // prefix relation
    let mut cmp = tb;
    if cx.line_oriented && !u_complete_lines_only && !cmp.is_empty() {
        // stated exemption: a final unterminated line delivered by the stream is not counted as an
        // altered record
        let n = cmp.len() - 1;
        let head_ok = n <= fb.len() && cmp[..n] == fb[..n];
        let last_matches = fb.get(n) == cmp.last();
        if head_ok && !last_matches {
            *partial_final_lines += 1;
            cmp = &cmp[..n];
        }
    }
    // line-oriented payloads do not frame their header: a shorter header made of complete lines of
    // the original header is a prefix of what was written (only if nothing follows it)
    let mut fb_owned: Vec<Ev>;
    let mut fb = fb;
    if cx.line_oriented && cmp.len() == 1 {
        if let (Some(Ev::Header(t)), Some(Ev::Header(f))) = (cmp.first(), fb.first()) {
            if f.starts_with(t.as_str()) && (t.is_empty() || t.ends_with('\n')) {
                fb_owned = fb.to_vec();
                fb_owned[0] = Ev::Header(t.clone());
                fb = &fb_owned[..];
            }
        }
    }
    let _ = &mut fb;
    if cmp.len() > fb.len() || cmp != &fb[..cmp.len()] {
        let idx = cmp.iter().zip(fb.iter()).position(|(a, b)| a != b).unwrap_or(fb.len().min(cmp.len()));
        fails.push(
            format!("c13.not-a-prefix:{name}"),
            at(format!(
                "event {idx} differs: intact={} truncated={}",
                fb.get(idx).map(|e| trunc(&format!("{e:?}"), 300)).unwrap_or("<none>".into()),
                cmp.get(idx).map(|e| trunc(&format!("{e:?}"), 300)).unwrap_or("<none>".into())
            )),
        );
        return;
    }
    // clean EOF inside a record / container
    if matches!(tend, Some(Ev::Eof)) {
        if let Some(fr) = &cx.frame {
            if u_len > fr.header_end && !fr.is_boundary(u_len) {
                fails.push(format!("c13.clean-eof-inside-record:{name}"), at(format!("the decompressed stream ends at {u_len}, inside a record, yet the reader reports a clean end of file")));
            }
        }
        if let Some(cf) = &cx.cram {
            if k > 26 && cf.boundaries.binary_search(&k).is_err() {
                // the last container of an intact file is the EOF container: 23-byte header + 15-byte body
                let eof_start = cf.boundaries[cf.boundaries.len() - 2];
                let eof_header = cf.containers.last().map(|c| c.0).unwrap_or(0);
                if k >= eof_start + eof_header {
                    fails.push(
                        "c13.clean-eof-inside-eof-container-body:cram",
                        at("the file ends inside the body of the EOF container (header complete, fixed 15-byte body cut), yet the reader reports a clean end of file".into()),
                    );
                } else {
                    fails.push("c13.clean-eof-inside-container:cram", at("the file ends inside a container, yet the reader reports a clean end of file".into()));
                }
            }
        }
    }
}

fn line_oriented_name(name: &str) -> bool {
    matches!(name, "sam.gz" | "vcf.gz" | "fai")
}

fn check(drv: &dyn Driver, c: &Case) -> Verdict {
    let name = drv.name();
    let file = match drivers::write_to_vec(drv, &c.doc) {
        Ok(b) => b,
        Err(e) => return fail1(format!("c13.baseline-write-error:{name}"), format!("writing the generated document failed: {e}")),
    };
    let file = match (drv.is_bgzf(), c.reframe) {
        (true, Some(seed)) => bgzf_walk::reframed(&file, seed).unwrap_or(file),
        _ => file,
    };
    let file = match (drv.is_bgzf(), c.empty_member) {
        (true, Some(sel)) => bgzf_walk::with_empty_member(&file, sel).unwrap_or(file),
        _ => file,
    };
    let data = Arc::new(file.clone());
    let opts = ReadOpts { vpos: false, ..ReadOpts::default() };
    let (full, _) = drv.read(&data, &Delivery::Plain, &c.doc, &opts);
    if !matches!(full.last(), Some(Ev::Eof)) || full.iter().any(|e| matches!(e, Ev::Err { .. } | Ev::Runaway)) {
        return fail1(format!("c13.baseline-read-error:{name}"), format!("plain read of noodles' own output fails: {}", summarize(&full)));
    }
    let members = if drv.is_bgzf() {
        match bgzf_walk::walk(&file) {
            Ok(m) => m,
            Err(e) => return fail1(format!("c13.baseline-malformed-bgzf:{name}"), e),
        }
    } else {
        Vec::new()
    };
    let u = bgzf_walk::concat(&members);
    let frame = match name {
        "bam" | "bam-eager" => framing::bam(&u),
        "bcf" => framing::bcf(&u),
        "bam-raw" => framing::bam(&file),
        "bcf-raw" => framing::bcf(&file),
        _ => None,
    };
    if matches!(name, "bam" | "bam-eager" | "bcf" | "bam-raw" | "bcf-raw") {
        match &frame {
            Some(f) if f.complete => {}
            _ => return fail1(format!("c13.baseline-framing:{name}"), "the harness's own record framing does not parse noodles' output completely".to_string()),
        }
    }
    let cram = if name == "cram" {
        match framing::cram(&file) {
            Some(f) if f.complete => Some(f),
            _ => return fail1("c13.baseline-framing:cram", "the harness's own container framing does not parse noodles' output completely".to_string()),
        }
    } else {
        None
    };
    let line_oriented = matches!(name, "sam.gz" | "vcf.gz" | "fai");
    let text = if name == "fai" { file.clone() } else { u.clone() };
    let cx = Ctx { drv, doc: &c.doc, full, u_hashes: if name == "bgzf" || name == "bgzf-mt" { prefix_hashes(&u) } else { Vec::new() }, members, frame, cram, line_oriented, text };

    // cut set
    let len = file.len();
    let mut cuts: Vec<usize> = if let Some(k) = c.only_cut {
        vec![(k as usize).min(len)]
    } else if len <= ALL_CUTS_LIMIT {
        (0..=len).collect()
    } else {
        let mut v: Vec<usize> = Vec::new();
        let bounds = if drv.is_bgzf() || line_oriented_name(name) { super::c12::structural_boundaries(drv, &file) } else { Vec::new() };
        for b in bounds {
            for d in -2i64..=2 {
                let x = b as i64 + d;
                if x >= 0 && x as usize <= len {
                    v.push(x as usize);
                }
            }
        }
        let mut r = crate::r#gen::payload::XorShift::new(c.sample_seed as u64 + 17);
        let stride = (len / SAMPLED_CUTS).max(1);
        let mut x = 0usize;
        while x <= len {
            v.push((x + (r.next() as usize % stride)).min(len));
            x += stride;
        }
        v.push(0);
        v.push(len);
        v
    };
    cuts.sort_unstable();
    cuts.dedup();
    let all_cuts = c.only_cut.is_none() && len <= ALL_CUTS_LIMIT;

    let mut fails = Fails::new();
    let mut partial_final_lines = 0u64;
    for k in &cuts {
        if *k == len {
            continue;
        }
        check_cut(&cx, &file, *k, &mut fails, &mut partial_final_lines);
        if fails.0.len() >= 8 {
            break;
        }
    }
    let units = if let Doc::BinIndex(d) = &c.doc {
        d.recs.len()
    } else if drv.is_bgzf() { cx.members.iter().filter(|m| !m.data.is_empty()).count() } else if let Some(cf) = &cx.cram { cf.containers.len().saturating_sub(1) } else { drivers::records_of(&cx.full).len() };
    let n_records = drivers::records_of(&cx.full).len();
    fails.finish(
        Pass::new(units >= 2, key_of(&c.doc))
            .evals(cuts.len() as u64)
            .label_if(all_cuts, "every-cut")
            .label_if(!all_cuts, "boundary±2+sampled-cuts")
            .label_if(units >= 2, "units>=2")
            .label_if(units >= 5, "units>=5")
            .label_if(n_records >= 2, "records>=2")
            .label_if(partial_final_lines > 0, "partial-final-line-exempted"),
    )
}

pub fn property() -> Property {
    let mut subs: Vec<Box<dyn DynSub>> = Vec::new();
    for dname in DRIVERS {
        let dname: &'static str = dname;
        let (q, t) = match dname {
            "cram" => (160, 2500),
            "bgzf" => (240, 4000),
            // (every cut starts and joins a reader thread)
            "bgzf-mt" => (80, 1200),
            _ => (480, 8000),
        };
        subs.push(
            ClosureSub::<Case> {
                name: dname.to_string(),
                rule: "one case = one written file cut at every byte offset (≤7000 bytes) or at all structural boundaries ±2 plus a stratified sample; evaluations counts cuts; non-trivial = the file holds ≥2 data blocks (BGZF based), ≥2 data containers (CRAM) or ≥2 entries (indexes); distinct by hash of the document".into(),
                strategy: Box::new(move |tier| {
                    let d = drivers::by_name(dname).unwrap();
                    let doc = if dname == "bgzf" || dname == "bgzf-mt" {
                        // small payloads with several flushes so every cut is affordable, and a few large ones
                        use crate::r#gen::payload::payload;
                        prop_oneof![
                            4 => (payload(3000), proptest::collection::vec(0u16..=1000, 1..5), proptest::option::of(0u8..=9)).prop_map(|(payload, flushes, level)| Doc::Bytes { payload, flushes, level }),
                            1 => d.doc(tier),
                        ]
                        .boxed()
                    } else {
                        d.doc(tier)
                    };
                    (doc, any::<u32>(), proptest::option::weighted(0.25, 0u16..=1000), proptest::option::weighted(0.2, any::<u32>())).prop_map(|(doc, sample_seed, empty_member, reframe)| Case { doc, sample_seed, only_cut: None, empty_member, reframe }).boxed()
                }),
                check: Box::new(move |c| {
                    let d = drivers::by_name(dname).unwrap();
                    check(d.as_ref(), c)
                }),
                quick: q,
                thorough: t,
                opts: SubOpts { max_shards: 8, isolate: true, hang_is_violation: true, case_budget_s: 20, max_shrink_iters: 60, ..SubOpts::default() },
            }
            .boxed(),
        );
    }
    Property {
        id: "C13",
        level: "fault_enumeration",
        rule: "crash points: every byte offset of files written by noodles (BGZF, BAM lazy+eager, bgzipped SAM/VCF, BCF, CRAM, BAI, CSI, tabix, gzi, fai, crai) with explicit flushes so that small files hold several blocks/containers",
        assumptions: vec![
            "the harness's BGZF walker and BAM/BCF/CRAM framing parsers (written from the specifications) locate block, record and container boundaries".into(),
            "stated exemption: for line-oriented payloads (bgzipped SAM/VCF, fai) a final unterminated line is not counted as an altered record".into(),
        ],
        subs,
        max_parallel: 16,
    }
}
