//! C02 — BGZF virtual positions name bytes: tell / seek / gzi are mutually consistent.
//!
//! Sub-checks
//! * `reader_history`: G-layout file × history of read / read_exact / fill_buf / consume / seek /
//!   seek-by-uncompressed-offset against the flat-array + block-table model, on `Reader`,
//!   `IndexedReader` and `MultithreadedReader` (through `bgzf::io::Seek`).
//! * `writer_tell`: `Writer` histories with `virtual_position()` sampled immediately before every
//!   write; every sample must resolve (independent walker) to the payload offset of the first byte
//!   of that write, and a fresh reader sought there must deliver the payload suffix.
//! * `gzi_roundtrip`: arbitrary gzi indexes through `gzi::io::Writer` / `gzi::io::Reader`, bytes
//!   compared with an independent serialisation.

use crate::engine::*;
use crate::r#gen::layout::{Layout, Model, layout};
use crate::r#gen::payload::{Payload, payload};
use crate::{ensure, ensure_eq};
use noodles_bgzf::{self as bgzf, VirtualPosition, gzi};
use proptest::prelude::*;
use serde::{Deserialize, Serialize};
use std::io::{self, BufRead, Cursor, Read, Seek, SeekFrom, Write};

// ------------------------------------------------------------------------------------------------
// case description
// ------------------------------------------------------------------------------------------------

#[derive(Clone, Copy, Debug, Serialize, Deserialize, PartialEq)]
pub enum Kind {
    /// `bgzf::io::Reader`
    Plain,
    /// `bgzf::io::IndexedReader` (`std::io::Seek`, uncompressed offsets only)
    Indexed,
    /// `bgzf::io::MultithreadedReader` through the `bgzf::io::Seek` trait
    Multi,
}

#[derive(Clone, Debug, Serialize, Deserialize)]
pub enum Len {
    Abs(u32),
    /// exactly the rest of the block holding the next byte
    Rest,
    /// the rest of the block plus `k` (crosses into the next block)
    RestPlus(u16),
    /// ≥ 65536: the direct-into-caller-buffer path of `Reader::read`
    Big(u32),
}

#[derive(Clone, Debug, Serialize, Deserialize)]
pub enum Target {
    /// `(cpos of a non-empty block, u)` with `u < len`
    InBlock { blk: u16, u: u16 },
    /// `(cpos of a non-empty block, len - 1)`
    LastByte { blk: u16 },
    /// `(cpos of any member, 0)`, including empty members and the EOF marker
    BlockStart { blk: u16 },
    /// `(file_len, 0)`
    FileEnd,
    /// whatever the reader itself reports right now
    Current,
}

#[derive(Clone, Debug, Serialize, Deserialize)]
pub enum UTarget {
    Off(u16),
    BlockStart(u16),
    BlockLast(u16),
    Total,
}

#[derive(Clone, Debug, Serialize, Deserialize)]
pub enum Op {
    Read(Len),
    ReadExact(Len),
    FillBuf,
    /// consume a share of what the last `fill_buf` returned
    Consume(u16),
    Seek(Target),
    SeekU(UTarget),
    /// "seeking any BGZF reader there": a fresh reader (multithreaded or not) is sought to the
    /// position this reader reports and must deliver the stream from the model's next byte on
    CrossSeek { multi: bool },
}

#[derive(Clone, Debug, Serialize, Deserialize)]
pub struct Case {
    pub layout: Layout,
    pub kind: Kind,
    /// gzi without the record of a final empty member (both variants are what `bgzip` writes)
    pub gzi_drop_terminator: bool,
    pub ops: Vec<Op>,
    /// false: the two call patterns of the recorded stale-block defects (a seek to `(file_len, 0)`
    /// on `Reader` / `MultithreadedReader`; a read with a >= 64 KiB buffer at the end of a file
    /// whose last member is not empty) are left out of the history, so that most of the search
    /// runs behind those findings; true (a minority of the cases) keeps them in.
    #[serde(default = "yes")]
    pub known_classes: bool,
}

fn yes() -> bool {
    true
}

// ------------------------------------------------------------------------------------------------
// strategies
// ------------------------------------------------------------------------------------------------

pub fn len_strategy() -> BoxedStrategy<Len> {
    prop_oneof![
        9 => (0u32..=70).prop_map(Len::Abs),
        2 => (71u32..=5000).prop_map(Len::Abs),
        3 => Just(Len::Rest),
        3 => (1u16..=300).prop_map(Len::RestPlus),
        3 => proptest::sample::select(vec![65536u32, 65537, 70000, 131072, 200000]).prop_map(Len::Big),
    ]
    .boxed()
}

pub fn target_strategy(file_end_weight: u32) -> BoxedStrategy<Target> {
    prop_oneof![
        40 => (any::<u16>(), any::<u16>()).prop_map(|(blk, u)| Target::InBlock { blk, u }),
        10 => any::<u16>().prop_map(|blk| Target::LastByte { blk }),
        30 => any::<u16>().prop_map(|blk| Target::BlockStart { blk }),
        12 => Just(Target::Current),
        file_end_weight => Just(Target::FileEnd),
    ]
    .boxed()
}

pub fn utarget_strategy() -> BoxedStrategy<UTarget> {
    prop_oneof![
        5 => any::<u16>().prop_map(UTarget::Off),
        2 => any::<u16>().prop_map(UTarget::BlockStart),
        2 => any::<u16>().prop_map(UTarget::BlockLast),
        1 => Just(UTarget::Total),
    ]
    .boxed()
}

fn op_strategy() -> BoxedStrategy<Op> {
    prop_oneof![
        30 => len_strategy().prop_map(Op::Read),
        14 => len_strategy().prop_map(Op::ReadExact),
        12 => Just(Op::FillBuf),
        12 => any::<u16>().prop_map(Op::Consume),
        // FileEnd is the class of a known defect: keep it occasional so the search goes on behind it
        20 => target_strategy(1).prop_map(Op::Seek),
        12 => utarget_strategy().prop_map(Op::SeekU),
        5 => any::<bool>().prop_map(|multi| Op::CrossSeek { multi }),
    ]
    .boxed()
}

fn strategy(tier: Tier) -> BoxedStrategy<Case> {
    let max_ops = tier.pick(40usize, 120);
    let max_blocks = tier.pick(6usize, 10);
    (
        layout(max_blocks),
        prop_oneof![3 => Just(Kind::Plain), 2 => Just(Kind::Indexed), 3 => Just(Kind::Multi)],
        any::<bool>(),
        proptest::collection::vec(op_strategy(), 0..=max_ops),
        prop_oneof![17 => Just(false), 3 => Just(true)],
    )
        .prop_map(|(layout, kind, gzi_drop_terminator, ops, known_classes)| Case { layout, kind, gzi_drop_terminator, ops, known_classes })
        .boxed()
}

// ------------------------------------------------------------------------------------------------
// uniform access to the three readers
// ------------------------------------------------------------------------------------------------

type Src = Cursor<Vec<u8>>;

pub enum Rd {
    Plain(bgzf::io::Reader<Src>),
    Indexed(bgzf::io::IndexedReader<Src>),
    Multi(bgzf::io::MultithreadedReader<Src>),
}

impl Rd {
    pub fn new(kind: Kind, file: Vec<u8>, index: &gzi::Index) -> Rd {
        match kind {
            Kind::Plain => Rd::Plain(bgzf::io::Reader::new(Cursor::new(file))),
            Kind::Indexed => Rd::Indexed(bgzf::io::IndexedReader::new(Cursor::new(file), index.clone())),
            Kind::Multi => Rd::Multi(bgzf::io::MultithreadedReader::new(Cursor::new(file))),
        }
    }
    pub fn read(&mut self, buf: &mut [u8]) -> io::Result<usize> {
        match self {
            Rd::Plain(r) => r.read(buf),
            Rd::Indexed(r) => r.read(buf),
            Rd::Multi(r) => r.read(buf),
        }
    }
    pub fn read_exact(&mut self, buf: &mut [u8]) -> io::Result<()> {
        match self {
            Rd::Plain(r) => r.read_exact(buf),
            Rd::Indexed(r) => r.read_exact(buf),
            Rd::Multi(r) => r.read_exact(buf),
        }
    }
    pub fn fill_buf(&mut self) -> io::Result<&[u8]> {
        match self {
            Rd::Plain(r) => r.fill_buf(),
            Rd::Indexed(r) => r.fill_buf(),
            Rd::Multi(r) => r.fill_buf(),
        }
    }
    pub fn consume(&mut self, n: usize) {
        match self {
            Rd::Plain(r) => r.consume(n),
            Rd::Indexed(r) => r.consume(n),
            Rd::Multi(r) => r.consume(n),
        }
    }
    pub fn vpos(&self) -> VirtualPosition {
        match self {
            Rd::Plain(r) => r.virtual_position(),
            Rd::Indexed(r) => r.virtual_position(),
            Rd::Multi(r) => r.virtual_position(),
        }
    }
    /// Seek to a virtual position; the indexed reader has only uncompressed offsets, so it gets
    /// the offset the position names. Returns the offset named by the reader's return value.
    pub fn seek_v(&mut self, v: VirtualPosition, names: u64, m: &Model) -> io::Result<Option<u64>> {
        use bgzf::io::Seek as _;
        match self {
            Rd::Plain(r) => r.seek(v).map(|ret| m.resolve(ret.compressed(), ret.uncompressed())),
            Rd::Indexed(r) => r.seek(SeekFrom::Start(names)).map(Some),
            Rd::Multi(r) => r.seek_to_virtual_position(v).map(|ret| m.resolve(ret.compressed(), ret.uncompressed())),
        }
    }
    pub fn seek_u(&mut self, off: u64, index: &gzi::Index) -> io::Result<u64> {
        use bgzf::io::Seek as _;
        match self {
            Rd::Plain(r) => r.seek_by_uncompressed_position(index, off),
            Rd::Indexed(r) => r.seek(SeekFrom::Start(off)),
            Rd::Multi(r) => r.seek_with_index(index, SeekFrom::Start(off)),
        }
    }
    pub fn finish(self) -> io::Result<()> {
        match self {
            Rd::Multi(mut r) => r.finish().map(|_| ()),
            _ => Ok(()),
        }
    }
    fn suffix(&self) -> &'static str {
        match self {
            Rd::Multi(_) => ".mt",
            _ => "",
        }
    }
}

// ------------------------------------------------------------------------------------------------
// gzi round trip (shared)
// ------------------------------------------------------------------------------------------------

fn gzi_bytes(pairs: &[(u64, u64)]) -> Vec<u8> {
    let mut v = Vec::with_capacity(8 + 16 * pairs.len());
    v.extend_from_slice(&(pairs.len() as u64).to_le_bytes());
    for (c, u) in pairs {
        v.extend_from_slice(&c.to_le_bytes());
        v.extend_from_slice(&u.to_le_bytes());
    }
    v
}

/// Write an index through noodles, compare the bytes with an independent serialisation, read it
/// back through noodles and compare.
fn gzi_roundtrip(pairs: &[(u64, u64)]) -> Result<gzi::Index, Vec<Fail>> {
    let index = gzi::Index::from(pairs.to_vec());
    let mut w = gzi::io::Writer::new(Vec::new());
    w.write_index(&index).map_err(|e| vec![Fail::new("c02.gzi.write-error", format!("write_index: {e}"))])?;
    let bytes = w.into_inner();
    ensure_eq!(bytes, gzi_bytes(pairs), "c02.gzi.bytes", "gzi bytes written vs independent little-endian serialisation");
    let back = gzi::io::Reader::new(&bytes[..]).read_index().map_err(|e| vec![Fail::new("c02.gzi.read-error", format!("read_index: {e}"))])?;
    ensure!(back == index, "c02.gzi.roundtrip", "gzi index read back differs: wrote {:?}, read {:?}", trunc(&format!("{:?}", pairs), 300), trunc(&format!("{:?}", back.as_ref()), 300));
    Ok(back)
}

// ------------------------------------------------------------------------------------------------
// reader histories against the model
// ------------------------------------------------------------------------------------------------

/// Signature of the known stale-block defect on the ≥64 KiB direct-read path.
pub const SIG_STALE_READ: &str = "c02.stale-block.read-ge64k-at-eof";
/// Signature (prefix) of the known stale-block defect of a seek to `(file_len, 0)`.
pub const SIG_STALE_SEEK: &str = "c02.stale-block.seek-to-file-end";

struct Run<'a> {
    m: &'a Model,
    rd: Rd,
    /// model offset of the next byte
    off: u64,
    /// length of the last fill_buf result not yet consumed (the BufRead contract for `consume`)
    avail: usize,
    /// last reported position since the last seek (monotonicity)
    last_v: Option<VirtualPosition>,
    seeks: u32,
    crossed_after_seek: bool,
    direct_reads: u32,
    reads_at_end: u32,
    seek_end: u32,
    seek_empty: u32,
    seek_eof_block: u32,
    seek_current: u32,
    seek_u: u32,
    seek_u_total_overflow: u32,
    fills: u32,
    read_exact_eof: u32,
    direct_full: u32,
    cross: u32,
    known_classes: bool,
    left_out: u32,
    /// reused read buffer (avoids a large allocation per op)
    scratch: Vec<u8>,
}

fn f1(sig: impl Into<String>, msg: String) -> Vec<Fail> {
    vec![Fail::new(sig, msg)]
}

impl<'a> Run<'a> {
    fn resolve_v(&self, v: VirtualPosition) -> Option<u64> {
        self.m.resolve(v.compressed(), v.uncompressed())
    }

    /// The reported position must name the model's next byte; between seeks it must not decrease.
    fn check_pos(&mut self, sig: &str, what: &str) -> Result<(), Vec<Fail>> {
        let v = self.rd.vpos();
        match self.resolve_v(v) {
            Some(o) if o == self.off => {}
            Some(o) => {
                return Err(f1(sig, format!("{what}: virtual_position() = ({}, {}) names uncompressed offset {o}, the model is at {}", v.compressed(), v.uncompressed(), self.off)));
            }
            None => {
                return Err(f1(
                    format!("{sig}.unresolvable"),
                    format!("{what}: virtual_position() = ({}, {}) names no byte boundary of the file (model at {})", v.compressed(), v.uncompressed(), self.off),
                ));
            }
        }
        if let Some(prev) = self.last_v {
            if v < prev {
                return Err(f1(
                    "c02.vpos-decreased",
                    format!("{what}: position went from ({}, {}) to ({}, {}) without a seek", prev.compressed(), prev.uncompressed(), v.compressed(), v.uncompressed()),
                ));
            }
        }
        self.last_v = Some(v);
        Ok(())
    }

    fn advance(&mut self, k: u64) {
        if k > 0 && self.seeks > 0 {
            let a = self.m.block_of(self.off);
            let last = self.off + k - 1;
            let b = self.m.block_of(last);
            if a != b {
                self.crossed_after_seek = true;
            }
        }
        self.off += k;
    }

    fn len_of(&self, l: &Len) -> usize {
        match l {
            Len::Abs(n) => *n as usize,
            Len::Rest => self.m.rest_of_block(self.off) as usize,
            Len::RestPlus(k) => self.m.rest_of_block(self.off) as usize + *k as usize,
            Len::Big(n) => (*n as usize).max(65536),
        }
    }

    /// True when the next `read` starts at a block boundary (or before the first block), which is
    /// when `Reader::read` takes the direct path for buffers ≥ 64 KiB.
    fn at_boundary(&self) -> bool {
        self.m.table.iter().any(|b| b.ustart == self.off) || self.off == self.m.total()
    }

    fn step(&mut self, i: usize, op: &Op, index: &gzi::Index, fails: &mut Fails) -> Result<(), Vec<Fail>> {
        let total = self.m.total();
        let mt = self.rd.suffix();
        match op {
            Op::Read(l) => {
                let mut n = self.len_of(l);
                let last_member_nonempty = self.m.table.last().map(|b| b.len > 0).unwrap_or(false);
                if !self.known_classes && n >= 65536 && self.off == total && last_member_nonempty && !matches!(self.rd, Rd::Multi(_)) {
                    n = 65535;
                    self.left_out += 1;
                }
                let mut buf = std::mem::take(&mut self.scratch);
                buf.clear();
                buf.resize(n, 0xA5u8);
                let at_end = self.off == total;
                if n >= 65536 && self.at_boundary() && !at_end {
                    self.direct_reads += 1;
                    if self.m.rest_of_block(self.off) == 65536 {
                        self.direct_full += 1;
                    }
                }
                let k = self.rd.read(&mut buf).map_err(|e| f1("c02.read-error", format!("op {i}: read({n}) at model offset {}: {e}", self.off)))?;
                self.avail = 0;
                if at_end {
                    self.reads_at_end += 1;
                    if k != 0 {
                        let known_class = n >= 65536 && matches!(self.rd, Rd::Plain(_) | Rd::Indexed(_));
                        let sig = if known_class { SIG_STALE_READ.to_string() } else { format!("c02.read-at-end.nonzero{mt}") };
                        let msg = format!("op {i}: read({n}) at the end of the stream (offset {total}) returned {k} instead of 0");
                        if known_class {
                            // the known class: the reader's state is untouched by it, so the history goes on
                            fails.push(sig, msg);
                        } else {
                            return Err(f1(sig, msg));
                        }
                    } else if buf.iter().any(|b| *b != 0xA5) {
                        return Err(f1("c02.read-at-end.buffer-touched", format!("op {i}: read({n}) at the end returned 0 but wrote into the buffer")));
                    }
                } else {
                    if k > n || k as u64 > total - self.off {
                        return Err(f1("c02.read-overrun", format!("op {i}: read({n}) at offset {} of {total} returned {k}", self.off)));
                    }
                    if n > 0 && k == 0 {
                        return Err(f1(format!("c02.read-zero-before-end{mt}"), format!("op {i}: read({n}) at offset {} of {total} returned 0", self.off)));
                    }
                    let want = &self.m.flat[self.off as usize..self.off as usize + k];
                    if buf[..k] != *want {
                        let d = super::c01::first_diff(&buf[..k], want);
                        return Err(f1(format!("c02.read-data{mt}"), format!("op {i}: read({n}) at offset {} returned {k} bytes that differ from the model at +{:?}", self.off, d)));
                    }
                    self.advance(k as u64);
                }
                self.scratch = buf;
                self.check_pos(&format!("c02.read.position{mt}"), &format!("op {i}: after read({n}) -> {k}"))
            }
            Op::ReadExact(l) => {
                let n = self.len_of(l);
                let mut buf = vec![0xA5u8; n.min(400_000)];
                self.avail = 0;
                let fits = n as u64 <= total - self.off;
                if fits && n >= 65536 && self.at_boundary() {
                    self.direct_reads += 1;
                }
                let r = self.rd.read_exact(&mut buf);
                if fits {
                    r.map_err(|e| f1(format!("c02.read_exact-error{mt}"), format!("op {i}: read_exact({n}) at offset {} of {total}: {e}", self.off)))?;
                    let want = &self.m.flat[self.off as usize..self.off as usize + n];
                    if buf != want {
                        let d = super::c01::first_diff(&buf, want);
                        return Err(f1(format!("c02.read_exact-data{mt}"), format!("op {i}: read_exact({n}) at offset {} differs from the model at +{:?}", self.off, d)));
                    }
                    self.advance(n as u64);
                    self.check_pos(&format!("c02.read_exact.position{mt}"), &format!("op {i}: after read_exact({n})"))
                } else {
                    self.read_exact_eof += 1;
                    // the buffer that is left when the stream ends
                    let left = n as u64 - (total - self.off);
                    match r {
                        Err(e) if e.kind() == io::ErrorKind::UnexpectedEof => {}
                        Err(e) => return Err(f1("c02.read_exact-error-kind", format!("op {i}: read_exact({n}) past the end (offset {} of {total}) failed with {e} (kind {:?}), not UnexpectedEof", self.off, e.kind()))),
                        Ok(()) => {
                            let sig = if left >= 65536 && matches!(self.rd, Rd::Plain(_) | Rd::Indexed(_)) { SIG_STALE_READ.to_string() } else { format!("c02.read_exact-past-end-ok{mt}") };
                            return Err(f1(sig, format!("op {i}: read_exact({n}) at offset {} of a {total}-byte stream returned Ok", self.off)));
                        }
                    }
                    // How far a failed read_exact got is unspecified (std): resynchronise on what
                    // the reader reports, which must be a byte boundary at or after the old offset.
                    let v = self.rd.vpos();
                    match self.resolve_v(v) {
                        Some(o) if o >= self.off => {
                            self.advance(o - self.off);
                            self.last_v = Some(v);
                            Ok(())
                        }
                        Some(o) => Err(f1("c02.read_exact-eof.position-went-back", format!("op {i}: after a failed read_exact({n}) the position names offset {o} < {}", self.off))),
                        None => Err(f1(
                            "c02.read_exact-eof.position.unresolvable",
                            format!("op {i}: after a failed read_exact({n}) virtual_position() = ({}, {}) names no byte boundary", v.compressed(), v.uncompressed()),
                        )),
                    }
                }
            }
            Op::FillBuf => {
                self.fills += 1;
                let off = self.off;
                let s = self.rd.fill_buf().map_err(|e| f1("c02.fill_buf-error", format!("op {i}: fill_buf at offset {off}: {e}")))?;
                let n = s.len();
                if off == total {
                    if n != 0 {
                        return Err(f1(format!("c02.fill_buf-at-end.nonempty{mt}"), format!("op {i}: fill_buf at the end of the stream returned {n} bytes")));
                    }
                } else {
                    if n == 0 {
                        return Err(f1(format!("c02.fill_buf-empty-before-end{mt}"), format!("op {i}: fill_buf at offset {off} of {total} returned an empty buffer")));
                    }
                    if n as u64 > total - off || s != &self.m.flat[off as usize..off as usize + n] {
                        return Err(f1(format!("c02.fill_buf-data{mt}"), format!("op {i}: fill_buf at offset {off} returned {n} bytes that are not the model's next bytes")));
                    }
                }
                self.avail = n;
                self.check_pos(&format!("c02.fill_buf.position{mt}"), &format!("op {i}: after fill_buf -> {n}"))
            }
            Op::Consume(sel) => {
                let n = pick_idx(*sel, self.avail + 1).min(self.avail);
                self.rd.consume(n);
                self.avail -= n;
                self.advance(n as u64);
                self.check_pos(&format!("c02.consume.position{mt}"), &format!("op {i}: after consume({n})"))
            }
            Op::Seek(t) => {
                let ne = self.m.nonempty();
                let (c, u): (u64, u16) = match t {
                    Target::InBlock { blk, u } if !ne.is_empty() => {
                        let b = &self.m.table[ne[pick_idx(*blk, ne.len())]];
                        (b.cpos, pick_idx(*u, b.len as usize) as u16)
                    }
                    Target::LastByte { blk } if !ne.is_empty() => {
                        let b = &self.m.table[ne[pick_idx(*blk, ne.len())]];
                        (b.cpos, (b.len - 1) as u16)
                    }
                    Target::BlockStart { blk } if !self.m.table.is_empty() => {
                        let j = pick_idx(*blk, self.m.table.len());
                        let b = &self.m.table[j];
                        if b.len == 0 {
                            if j + 1 == self.m.table.len() {
                                self.seek_eof_block += 1;
                            } else {
                                self.seek_empty += 1;
                            }
                        }
                        (b.cpos, 0)
                    }
                    Target::Current => {
                        self.seek_current += 1;
                        self.rd.vpos().into()
                    }
                    // FileEnd, and the fallbacks for files without (non-empty) blocks
                    _ => (self.m.file_len(), 0),
                };
                let is_file_end = c == self.m.file_len() && self.m.block_at(c).is_none();
                let Some(names) = self.m.resolve(c, u) else {
                    // only possible for Target::Current, and then the previous step has already
                    // reported the unresolvable position
                    return Err(f1("c02.seek.target-unresolvable", format!("op {i}: reader reports ({c}, {u}), which names no byte boundary")));
                };
                let v = VirtualPosition::try_from((c, u)).map_err(|e| f1("c02.harness.vpos", format!("{e}")))?;
                if is_file_end && !self.known_classes && !matches!(self.rd, Rd::Indexed(_)) && self.m.file_len() > 0 {
                    self.left_out += 1;
                    return Ok(());
                }
                if is_file_end {
                    self.seek_end += 1;
                }
                if matches!(self.rd, Rd::Indexed(_)) {
                    // the indexed reader seeks by uncompressed offset only: to the byte the position names
                    return self.do_seek_u(i, names, index);
                }
                let ret = self.rd.seek_v(v, names, self.m).map_err(|e| f1(format!("c02.seek-error{mt}"), format!("op {i}: seek(({c}, {u})): {e}")))?;
                self.seeks += 1;
                self.crossed_after_seek = false;
                self.avail = 0;
                self.last_v = None;
                self.off = names;
                let what = format!("op {i}: after seek(({c}, {u})) [names offset {names}]");
                let sig = if is_file_end && !matches!(self.rd, Rd::Indexed(_)) { format!("{SIG_STALE_SEEK}{mt}") } else { format!("c02.seek.position{mt}") };
                if ret != Some(names) {
                    return Err(f1(format!("c02.seek.return{mt}"), format!("{what}: the returned position names offset {ret:?}")));
                }
                let r = self.check_pos(&sig, &what);
                if let (Err(mut f), true) = (r.clone(), is_file_end) {
                    // make the report say what the reader serves from there
                    let mut buf = [0u8; 32];
                    let served = self.rd.read(&mut buf).map(|k| format!("a following read(32) returns {k} bytes {:?} instead of 0", &buf[..k.min(32)])).unwrap_or_else(|e| format!("a following read fails: {e}"));
                    f[0].msg = format!("{}; {served}", f[0].msg);
                    return Err(f);
                }
                r
            }
            Op::CrossSeek { multi } => {
                self.cross += 1;
                let v = self.rd.vpos();
                let (c, u) = (v.compressed(), v.uncompressed());
                let kind = if *multi { Kind::Multi } else { Kind::Plain };
                let mut other = Rd::new(kind, self.m.file.clone(), index);
                let sfx = other.suffix();
                other.seek_v(v, self.off, self.m).map_err(|e| f1(format!("c02.cross-seek-error{sfx}"), format!("op {i}: a fresh reader cannot seek to the reported position ({c}, {u}): {e}")))?;
                // a few bytes across at least one block boundary where there is one
                let want_len = ((self.m.rest_of_block(self.off) + 40).min(total - self.off)).min(70_000) as usize;
                let mut got = vec![0u8; want_len];
                let r = other.read_exact(&mut got);
                let want = &self.m.flat[self.off as usize..self.off as usize + want_len];
                if r.is_err() || got != want {
                    return Err(f1(
                        format!("c02.cross-seek-data{sfx}"),
                        format!("op {i}: this reader reports ({c}, {u}) before model byte {}; a fresh reader sought there does not deliver the next {want_len} bytes of the stream ({:?}, first difference at {:?})", self.off, r.err().map(|e| e.to_string()), super::c01::first_diff(&got, want)),
                    ));
                }
                if self.off + want_len as u64 == total {
                    // and then the end of the stream, not more data
                    let mut one = [0u8; 1];
                    let k = other.read(&mut one).map_err(|e| f1(format!("c02.cross-seek-error{sfx}"), format!("op {i}: read at the end after a cross seek: {e}")))?;
                    if k != 0 {
                        return Err(f1(format!("c02.cross-seek-data{sfx}"), format!("op {i}: a fresh reader sought to ({c}, {u}) delivers data beyond the end of the stream")));
                    }
                }
                other.finish().map_err(|e| f1("c02.mt-finish-error", format!("op {i}: MultithreadedReader::finish: {e}")))?;
                Ok(())
            }
            Op::SeekU(t) => {
                let ne = self.m.nonempty();
                let off = match t {
                    UTarget::Off(sel) => pick_idx(*sel, total as usize + 1) as u64,
                    UTarget::BlockStart(sel) if !ne.is_empty() => self.m.table[ne[pick_idx(*sel, ne.len())]].ustart,
                    UTarget::BlockLast(sel) if !ne.is_empty() => {
                        let b = &self.m.table[ne[pick_idx(*sel, ne.len())]];
                        b.ustart + b.len - 1
                    }
                    _ => total,
                };
                self.do_seek_u(i, off, index)
            }
        }
    }

    /// Seek by uncompressed offset through the gzi index (all three readers).
    fn do_seek_u(&mut self, i: usize, off: u64, index: &gzi::Index) -> Result<(), Vec<Fail>> {
        let total = self.m.total();
        let mt = self.rd.suffix();
        self.seek_u += 1;
        // At off == total the index may only offer (last indexed block, distance), and a
        // distance of 65536 does not fit a virtual position: an error is acceptable there.
        let last_indexed_ustart = index.as_ref().iter().map(|p| p.1).filter(|u| *u <= off).max().unwrap_or(0);
        let overflow = off - last_indexed_ustart > u16::MAX as u64;
        let mut landed = off;
        match self.rd.seek_u(off, index) {
            Ok(ret) => {
                ensure_eq!(ret, off, format!("c02.seek_u.return{mt}"), "value returned by the seek by uncompressed offset");
            }
            Err(e) => {
                if overflow && off == total {
                    self.seek_u_total_overflow += 1;
                    // the reader may have moved or not; resynchronise with a defined seek
                    let ret = self.rd.seek_u(0, index).map_err(|e| f1(format!("c02.seek_u-error{mt}"), format!("op {i}: seek to uncompressed offset 0: {e}")))?;
                    ensure_eq!(ret, 0, format!("c02.seek_u.return{mt}"), "value returned by the seek by uncompressed offset");
                    landed = 0;
                } else {
                    return Err(f1(format!("c02.seek_u-error{mt}"), format!("op {i}: seek to uncompressed offset {off} of {total}: {e}")));
                }
            }
        }
        self.seeks += 1;
        self.crossed_after_seek = false;
        self.avail = 0;
        self.last_v = None;
        self.off = landed;
        self.check_pos(&format!("c02.seek_u.position{mt}"), &format!("op {i}: after seek to uncompressed offset {landed} of {total}"))
    }
}

fn check_reader(c: &Case) -> Verdict {
    let m = c.layout.build();
    // harness self-check: the independent walker accepts the assembled file and agrees with the table
    let walked = Model::from_file(&m.file).expect("assembled layout is well-formed BGZF");
    assert!(walked.flat == m.flat && walked.table.len() == m.table.len(), "walker and builder disagree");

    let index = gzi_roundtrip(&m.gzi(c.gzi_drop_terminator))?;
    let mut run = Run {
        m: &m,
        rd: Rd::new(c.kind, m.file.clone(), &index),
        off: 0,
        avail: 0,
        last_v: None,
        seeks: 0,
        crossed_after_seek: false,
        direct_reads: 0,
        reads_at_end: 0,
        seek_end: 0,
        seek_empty: 0,
        seek_eof_block: 0,
        seek_current: 0,
        seek_u: 0,
        seek_u_total_overflow: 0,
        fills: 0,
        read_exact_eof: 0,
        direct_full: 0,
        cross: 0,
        known_classes: c.known_classes,
        left_out: 0,
        scratch: Vec::with_capacity(200_000),
    };
    let mut fails = Fails::new();
    let mut nontrivial = false;
    run.check_pos("c02.initial.position", "fresh reader")?;
    // the generated history, then one more read so that the last seek is followed by data
    let tail = [Op::Read(Len::Abs(97))];
    for (i, op) in c.ops.iter().chain(tail.iter()).enumerate() {
        if let Err(mut f) = run.step(i, op, &index, &mut fails) {
            fails.0.append(&mut f);
            return Err(fails.0);
        }
        nontrivial |= run.seeks > 0 && run.crossed_after_seek;
    }
    let Run { rd, seeks, direct_reads, reads_at_end, seek_end, seek_empty, seek_eof_block, seek_current, seek_u, seek_u_total_overflow, fills, read_exact_eof, direct_full, cross, left_out, .. } = run;
    if let Err(e) = rd.finish() {
        fails.push("c02.mt-finish-error", format!("MultithreadedReader::finish on an intact file: {e}"));
    }
    let big = m.table.iter().any(|b| b.len == 65536);
    fails.finish(
        Pass::new(nontrivial, key_of(c))
            .label(match c.kind {
                Kind::Plain => "reader",
                Kind::Indexed => "indexed-reader",
                Kind::Multi => "multithreaded-reader",
            })
            .label_if(m.has_mid_empty(), "empty-block-mid-file")
            .label_if(big, "block-65536")
            .label_if(!c.layout.eof, "missing-eof")
            .label_if(m.table.is_empty(), "zero-byte-file")
            .label_if(m.nonempty().len() >= 3, "data-blocks>=3")
            .label_if(direct_reads > 0, "direct-read-path")
            .label_if(direct_full > 0, "direct-read-of-65536-block")
            .label_if(reads_at_end > 1, "read-at-end")
            .label_if(seek_end > 0, "seek-to-file-end")
            .label_if(seek_empty > 0, "seek-to-empty-block")
            .label_if(seek_eof_block > 0, "seek-to-last-empty-block")
            .label_if(seek_current > 0, "seek-to-own-position")
            .label_if(seek_u > 0, "seek-by-uncompressed")
            .label_if(seek_u_total_overflow > 0, "seek-u-total-unrepresentable")
            .label_if(seeks >= 3, "seeks>=3")
            .label_if(fills > 0, "fill_buf")
            .label_if(cross > 0, "cross-reader-seek")
            .label_if(c.known_classes, "known-defect-classes-kept-in")
            .label_if(left_out > 0, "known-defect-call-left-out")
            .label_if(read_exact_eof > 0, "read_exact-past-end")
            .label_if(c.gzi_drop_terminator, "gzi-without-terminator"),
    )
}

// ------------------------------------------------------------------------------------------------
// writer histories
// ------------------------------------------------------------------------------------------------

#[derive(Clone, Debug, Serialize, Deserialize)]
pub enum WOp {
    /// one raw `write()` offered `n` bytes
    Write(u32),
    WriteAll(u32),
    Flush,
    /// `try_finish()`: flushes and writes the EOF marker; the writer stays usable (`&mut self`), so
    /// the marker becomes an empty block in the middle of the file when more is written
    TryFinish,
}

#[derive(Clone, Debug, Serialize, Deserialize)]
pub struct WCase {
    pub payload: Payload,
    pub level: Option<u8>,
    pub ops: Vec<WOp>,
    /// which reader seeks the samples
    pub kind: Kind,
    /// which samples are sought in a fresh reader (all of them are resolved against the walker)
    pub pick: Vec<u16>,
}

fn wlen() -> BoxedStrategy<u32> {
    prop_oneof![
        5 => 0u32..=100,
        2 => 100u32..=9000,
        2 => 60_000u32..=70_000,
        1 => proptest::sample::select(vec![65494u32, 65495, 65496, 65536, 130990, 130991]),
        1 => 0u32..=200_000,
    ]
    .boxed()
}

fn wstrategy(tier: Tier) -> BoxedStrategy<WCase> {
    let max = tier.pick(200_000u32, 300_000);
    (
        payload(max),
        prop_oneof![1 => Just(None), 4 => (0u8..=9).prop_map(Some)],
        proptest::collection::vec(prop_oneof![8 => wlen().prop_map(WOp::Write), 8 => wlen().prop_map(WOp::WriteAll), 6 => Just(WOp::Flush), 1 => Just(WOp::TryFinish)], 0..=tier.pick(16usize, 40)),
        prop_oneof![3 => Just(Kind::Plain), 1 => Just(Kind::Indexed), 2 => Just(Kind::Multi)],
        proptest::collection::vec(any::<u16>(), 0..=tier.pick(5usize, 10)),
    )
        .prop_map(|(payload, level, ops, kind, pick)| WCase { payload, level, ops, kind, pick })
        .boxed()
}

fn check_writer(c: &WCase) -> Verdict {
    let data = c.payload.expand();
    let mut builder = bgzf::io::writer::Builder::default();
    if let Some(l) = c.level {
        let level = bgzf::io::writer::CompressionLevel::new(l).ok_or_else(|| f1("c02.level-rejected", format!("level {l} rejected")))?;
        builder = builder.set_compression_level(level);
    }
    let mut w = builder.build_from_writer(Vec::new());
    let werr = |e: io::Error| f1("c02.writer-error", format!("writer returned {e}"));
    // (virtual position reported immediately before a write, payload offset of the first byte of that write)
    let mut samples: Vec<(VirtualPosition, u64)> = Vec::new();
    let mut off = 0usize;
    let mut flushes = 0;
    let mut try_finishes = 0;
    let mut last: Option<VirtualPosition> = None;
    let mut tell = |w: &bgzf::io::Writer<Vec<u8>>, off: usize, samples: &mut Vec<(VirtualPosition, u64)>| -> Result<(), Vec<Fail>> {
        let v = w.virtual_position();
        if let Some(p) = last {
            ensure!(v >= p, "c02.writer.vpos-decreased", "Writer::virtual_position() went from {:?} to {:?}", <(u64, u16)>::from(p), <(u64, u16)>::from(v));
        }
        last = Some(v);
        samples.push((v, off as u64));
        Ok(())
    };
    for op in &c.ops {
        match op {
            WOp::Write(n) => {
                let end = (off + *n as usize).min(data.len());
                if end > off {
                    tell(&w, off, &mut samples)?;
                }
                let k = w.write(&data[off..end]).map_err(werr)?;
                ensure!(k <= end - off && (end == off || k > 0), "c02.writer.write-count", "write({}) returned {k}", end - off);
                off += k;
            }
            WOp::WriteAll(n) => {
                // write_all, spelled out so that the position is sampled before every inner write
                let end = (off + *n as usize).min(data.len());
                while off < end {
                    tell(&w, off, &mut samples)?;
                    let k = w.write(&data[off..end]).map_err(werr)?;
                    ensure!(k > 0 && k <= end - off, "c02.writer.write-count", "write({}) returned {k}", end - off);
                    off += k;
                }
            }
            WOp::Flush => {
                w.flush().map_err(werr)?;
                flushes += 1;
            }
            WOp::TryFinish => {
                w.try_finish().map_err(werr)?;
                try_finishes += 1;
            }
        }
    }
    while off < data.len() {
        tell(&w, off, &mut samples)?;
        let k = w.write(&data[off..]).map_err(werr)?;
        ensure!(k > 0 && k <= data.len() - off, "c02.writer.write-count", "write({}) returned {k}", data.len() - off);
        off += k;
    }
    let file = w.finish().map_err(werr)?;
    let m = Model::from_file(&file).map_err(|e| f1("c02.writer.malformed", e))?;
    ensure!(m.flat == data, "c02.writer.roundtrip", "independent inflate of the written file differs from the payload");

    // every sample names the byte that was written next (independent walker, no noodles reader)
    for (n, (v, o)) in samples.iter().enumerate() {
        let (cp, up) = (v.compressed(), v.uncompressed());
        match m.resolve(cp, up) {
            Some(r) if r == *o => {}
            other => {
                return fail1(
                    "c02.writer.tell-names-wrong-byte",
                    format!("sample {n}: Writer::virtual_position() = ({cp}, {up}) before payload byte {o}; in the finished file it names {other:?}"),
                );
            }
        }
        // "identifies that byte": it must lie inside the block, not at its end
        if let Some(b) = m.block_at(cp) {
            ensure!((up as u64) < m.table[b].len, "c02.writer.tell-at-block-end", "sample {n}: ({cp}, {up}) lies at the end of a {}-byte block although a byte was written next", m.table[b].len);
        }
    }

    // seek a fresh reader to picked samples: the stream from there is the payload suffix
    let index = gzi::Index::from(m.gzi(false));
    let mut sought = 0;
    let mut crossed = false;
    for sel in &c.pick {
        if samples.is_empty() {
            break;
        }
        let (v, o) = samples[pick_idx(*sel, samples.len())];
        let mut rd = Rd::new(c.kind, file.clone(), &index);
        rd.seek_v(v, o, &m).map_err(|e| f1("c02.writer.seek-error", format!("seek({:?}): {e}", <(u64, u16)>::from(v))))?;
        let mut rest = Vec::new();
        // the file ends with the EOF marker, so reading to the end terminates on every reader
        let r = match &mut rd {
            Rd::Plain(r) => r.read_to_end(&mut rest),
            Rd::Indexed(r) => r.read_to_end(&mut rest),
            Rd::Multi(r) => r.read_to_end(&mut rest),
        };
        r.map_err(|e| f1("c02.writer.read-error", format!("read_to_end after seek({:?}): {e}", <(u64, u16)>::from(v))))?;
        let want = &data[o as usize..];
        if rest != want {
            return fail1(
                "c02.writer.seek-to-sample",
                format!("a reader sought to the sample ({}, {}) taken before payload byte {o} delivered {} bytes, the payload suffix has {} (first difference at {:?})", v.compressed(), v.uncompressed(), rest.len(), want.len(), super::c01::first_diff(&rest, want)),
            );
        }
        let end = rd.vpos();
        ensure!(m.resolve(end.compressed(), end.uncompressed()) == Some(m.total()), "c02.writer.end-position", "after reading to the end the reader reports {:?}", <(u64, u16)>::from(end));
        rd.finish().map_err(|e| f1("c02.mt-finish-error", format!("MultithreadedReader::finish: {e}")))?;
        sought += 1;
        crossed |= m.block_of(o) != m.block_of(m.total().saturating_sub(1));
    }
    let data_blocks = m.nonempty().len();
    let mid_block = samples.iter().filter(|(v, _)| v.uncompressed() != 0).count();
    Ok(Pass::new(sought > 0 && crossed && samples.len() >= 2, key_of(c))
        .evals(1 + sought)
        .label_if(try_finishes > 0, "try_finish-mid-history")
        .label_if(data_blocks >= 2, "blocks>=2")
        .label_if(flushes > 0, "flush")
        .label_if(mid_block > 0, "sample-inside-block")
        .label_if(samples.iter().any(|(v, _)| v.uncompressed() == 0 && v.compressed() > 0), "sample-at-block-start")
        .label_if(samples.len() >= 8, "samples>=8")
        .label_if(c.level == Some(0), "level0")
        .label(match c.kind {
            Kind::Plain => "reader",
            Kind::Indexed => "indexed-reader",
            Kind::Multi => "multithreaded-reader",
        }))
}

// ------------------------------------------------------------------------------------------------
// gzi round trip on arbitrary indexes
// ------------------------------------------------------------------------------------------------

#[derive(Clone, Debug, Serialize, Deserialize)]
pub struct GCase {
    pub pairs: Vec<(u64, u64)>,
    /// (kind, value): kind 0/1/2 = the uncompressed offset of record `value` exactly / minus one /
    /// plus one; otherwise `value` is an arbitrary offset
    pub queries: Vec<(u8, u64)>,
}

fn gstrategy(_tier: Tier) -> BoxedStrategy<GCase> {
    // sorted, bgzip-like indexes (block sizes ≤ 65536 both ways) and unconstrained ones
    let sorted = proptest::collection::vec((26u64..=65536, 0u64..=65536), 0..40).prop_map(|steps| {
        let (mut c, mut u) = (0u64, 0u64);
        steps
            .into_iter()
            .map(|(dc, du)| {
                c += dc;
                u += du;
                (c, u)
            })
            .collect::<Vec<_>>()
    });
    let wild = proptest::collection::vec((any::<u64>(), any::<u64>()), 0..12);
    (prop_oneof![4 => sorted, 1 => wild], proptest::collection::vec((0u8..5, any::<u64>()), 0..12)).prop_map(|(pairs, queries)| GCase { pairs, queries }).boxed()
}

fn check_gzi(c: &GCase) -> Verdict {
    let index = gzi_roundtrip(&c.pairs)?;
    // query against a linear scan, on sorted indexes only (query presupposes sorted input) and only
    // where the in-block distance is representable
    let sorted = c.pairs.windows(2).all(|w| w[0].0 <= w[1].0 && w[0].1 <= w[1].1);
    let mut queried = 0;
    if sorted {
        let max_u = c.pairs.last().map(|p| p.1).unwrap_or(0);
        for (kind, q) in &c.queries {
            let at = |d: i64| -> u64 {
                if c.pairs.is_empty() {
                    return 0;
                }
                let u = c.pairs[(*q % c.pairs.len() as u64) as usize].1;
                if d < 0 { u.saturating_sub(1) } else { u.saturating_add(d as u64) }
            };
            let off = match kind {
                0 => at(0),
                1 => at(-1),
                2 => at(1),
                _ => *q % max_u.saturating_add(65536).max(1),
            };
            let (mut bc, mut bu) = (0u64, 0u64);
            for (pc, pu) in &c.pairs {
                if *pu <= off {
                    bc = *pc;
                    bu = *pu;
                }
            }
            let d = off - bu;
            match index.query(off) {
                Ok(v) => {
                    ensure!(d <= u16::MAX as u64, "c02.gzi.query-wraps", "query({off}) = {:?} although the distance {d} to the block start does not fit 16 bits", <(u64, u16)>::from(v));
                    ensure_eq!(<(u64, u16)>::from(v), (bc, d as u16), "c02.gzi.query", format!("query({off}) vs linear scan (last record with uncompressed offset <= {off})"));
                    queried += 1;
                }
                Err(e) => {
                    ensure!(d > u16::MAX as u64 || bc >= (1 << 48), "c02.gzi.query-error", "query({off}) failed ({e}) although ({bc}, {d}) is representable");
                }
            }
        }
    }
    Ok(Pass::new(!c.pairs.is_empty(), key_of(c)).evals(1 + queried).label_if(sorted, "sorted").label_if(c.pairs.is_empty(), "empty-index").label_if(queried > 0, "queried"))
}

pub fn property() -> Property {
    Property {
        id: "C02",
        level: "exploration",
        rule: "hand-assembled BGZF layouts (empty blocks mid-file, 65536-byte blocks, EOF marker present/absent) × histories of read/read_exact/fill_buf/consume/seek/seek-by-uncompressed-offset on Reader, IndexedReader and MultithreadedReader; Writer histories with virtual_position() sampled before each write; arbitrary gzi indexes",
        assumptions: vec![
            "the harness's BGZF builder/walker (miniz_oxide deflate/inflate, crc32fast) and its flat-array + block-table model are correct".into(),
            "a virtual position is accepted when it names the right byte boundary: (c, u) with c the start of a member and u <= its length, or (file_len, 0); no particular encoding of a block boundary is demanded".into(),
            "seek targets are only of the forms a reader or writer reports; how far a failed read_exact got is not asserted (unspecified by std)".into(),
            "gzi built by the harness the way bgzip -i defines it (with and without the terminating record), not by noodles".into(),
        ],
        subs: vec![
            sub(
                "reader_history",
                "non-trivial = at least one seek with a block boundary crossed by reading after it; distinct by hash of the whole case",
                strategy,
                check_reader,
                40_000,
                800_000,
            )
            .boxed(),
            sub(
                "writer_tell",
                "non-trivial = ≥2 samples, ≥1 sample sought in a fresh reader with the suffix spanning ≥2 blocks; distinct by hash of the whole case",
                wstrategy,
                check_writer,
                4_000,
                60_000,
            )
            .boxed(),
            sub("gzi_roundtrip", "non-trivial = non-empty index; distinct by hash of the whole case", gstrategy, check_gzi, 4_000, 80_000).boxed(),
        ],
        max_parallel: 16,
    }
}
