//! C04 — indexed region queries return exactly what a linear scan would (BAI, CSI, tabix), and the
//! unmapped query returns the unplaced unmapped tail.
//!
//! Sub-checks
//! * `files`      real files: G-sorted record set → BAM / bgzipped VCF / BCF written by noodles with a
//!                block layout script → index by `bam::fs::index` (BAI), `bcf::fs::index` (CSI),
//!                `vcf::fs::index` (tabix) or the public `Indexer::new(min_shift, depth)` in the same
//!                read-tell-add loop (CSI, any geometry, on BAM and BCF) → every region queried with the
//!                index in memory and with the index written to a file and read back.
//!                Primary oracle: generator ground truth + `oracle::spans`. Secondary: scan + filter
//!                with noodles' own span functions.
//! * `synthetic`  index level, no files: the same record sets with synthetic consecutive chunks;
//!                `BinningIndex::query` must cover the chunk of every record that intersects the region
//!                (LinearIndex and BinnedIndex, in memory and after a write→read of the index bytes).

use crate::engine::*;
use crate::r#gen::sorted::{self, Geometry, RecSpec, Region, RegionSpec, SortedSet, Truth, VcfVersion};
use crate::oracle::{bgzf_walk, binning, spans};
use noodles_bam as bam;
use noodles_bcf as bcf;
use noodles_bgzf as bgzf;
use noodles_core::{Position, region::Interval};
use noodles_csi::{
    self as csi, BinningIndex,
    binning_index::{
        Indexer,
        index::reference_sequence::{
            bin::Chunk,
            index::{BinnedIndex, LinearIndex},
        },
    },
};
use noodles_sam as sam;
use noodles_tabix as tabix;
use noodles_vcf as vcf;
use proptest::prelude::*;
use serde::{Deserialize, Serialize};
use std::io::Cursor;
use std::path::PathBuf;
use std::sync::atomic::{AtomicU64, Ordering};

#[derive(Clone, Copy, Debug, Serialize, Deserialize, PartialEq, Eq)]
pub enum Kind {
    /// BAM + `bam::fs::index`
    Bai,
    /// BCF + `bcf::fs::index`
    CsiBcf,
    /// bgzipped VCF + `vcf::fs::index`
    Tabix,
    /// BAM + `Indexer::<BinnedIndex>::new(min_shift, depth)` in the `bam::fs::index` loop
    CsiBam,
    /// BCF + `Indexer::<BinnedIndex>::new(min_shift, depth)` in the `bcf::fs::index` loop
    CsiBcfCustom,
}

#[derive(Clone, Debug, Serialize, Deserialize)]
pub struct Case {
    pub kind: Kind,
    pub version: VcfVersion,
    pub set: SortedSet,
    pub regions: Vec<RegionSpec>,
}

static DEFAULT_ONLY: [Geometry; 1] = [Geometry::DEFAULT];

fn kind_strategy() -> BoxedStrategy<Kind> {
    prop_oneof![Just(Kind::Bai), Just(Kind::CsiBcf), Just(Kind::Tabix), Just(Kind::CsiBam), Just(Kind::CsiBcfCustom)].boxed()
}

fn version_strategy() -> BoxedStrategy<VcfVersion> {
    prop_oneof![2 => Just(VcfVersion::V42), 3 => Just(VcfVersion::V43), 2 => Just(VcfVersion::V44), 1 => Just(VcfVersion::V45)].boxed()
}

fn files_strategy(tier: Tier) -> BoxedStrategy<Case> {
    let max_recs = tier.pick(40usize, 400usize);
    (kind_strategy(), version_strategy(), 0u8..10)
        .prop_flat_map(move |(kind, version, size_class)| {
            let geoms: &'static [Geometry] = match kind {
                Kind::CsiBam | Kind::CsiBcfCustom => &sorted::GEOMETRIES,
                _ => &DEFAULT_ONLY,
            };
            // most files are small; a tenth use the full record budget
            let n = if size_class == 0 { max_recs } else { max_recs.min(24) };
            (Just(kind), Just(version), sorted::sorted_set(geoms, n))
        })
        .prop_flat_map(|(kind, version, set)| {
            let g = set.geom;
            (Just(kind), Just(version), Just(set), sorted::region_specs(g, 12))
        })
        .prop_map(|(kind, version, set, regions)| Case { kind, version, set, regions })
        .boxed()
}

// ------------------------------------------------------------------------------------------------
// helpers
// ------------------------------------------------------------------------------------------------

fn e1(sig: &str, msg: String) -> Vec<Fail> {
    vec![Fail::new(sig, msg)]
}

fn pos(n: u64) -> Position {
    Position::new(n as usize).unwrap_or(Position::MIN)
}

fn interval_of(r: &Region) -> Interval {
    match (r.start, r.end) {
        (Some(s), Some(e)) => (pos(s)..=pos(e)).into(),
        (Some(s), None) => (pos(s)..).into(),
        (None, Some(e)) => (..=pos(e)).into(),
        (None, None) => (..).into(),
    }
}

fn noodles_region(r: &Region) -> noodles_core::Region {
    noodles_core::Region::new(format!("sq{}", r.rid), interval_of(r))
}

static FILE_COUNTER: AtomicU64 = AtomicU64::new(0);

/// Temp files of one case; removed on drop.
struct TmpFiles(Vec<PathBuf>);

impl TmpFiles {
    fn path(&mut self, key: u64, ext: &str) -> PathBuf {
        let n = FILE_COUNTER.fetch_add(1, Ordering::Relaxed);
        let p = env().tmp_dir.join(format!("c04-{}-{key:016x}-{n}.{ext}", std::process::id()));
        self.0.push(p.clone());
        p
    }
}

impl Drop for TmpFiles {
    fn drop(&mut self) {
        for p in &self.0 {
            let _ = std::fs::remove_file(p);
        }
    }
}

enum Ix {
    Linear(csi::binning_index::Index<LinearIndex>),
    Binned(csi::Index),
}

impl Ix {
    fn is_binned(&self) -> bool {
        matches!(self, Ix::Binned(_))
    }
    fn min_offset(&self, rid: usize, start: u64) -> Option<u64> {
        match self {
            Ix::Linear(i) => i.reference_sequences().get(rid).map(|r| u64::from(r.min_offset(i.min_shift(), i.depth(), pos(start)))),
            Ix::Binned(i) => i.reference_sequences().get(rid).map(|r| u64::from(r.min_offset(i.min_shift(), i.depth(), pos(start)))),
        }
    }
    fn unplaced(&self) -> Option<u64> {
        match self {
            Ix::Linear(i) => i.unplaced_unmapped_record_count(),
            Ix::Binned(i) => i.unplaced_unmapped_record_count(),
        }
    }
}

/// One record as noodles' plain reader sees it in a full scan (the read-tell loop of the indexers).
#[derive(Clone, Debug)]
struct ScanRec {
    id: String,
    rid: Option<usize>,
    /// noodles' own span (alignment_start..alignment_end / variant_start..variant_end)
    span: Option<(u64, u64)>,
    flagged_unmapped: bool,
    vstart: u64,
    vend: u64,
}

enum Data {
    Bam { bytes: Vec<u8>, header: sam::Header },
    Vcf { bytes: Vec<u8>, header: vcf::Header },
    Bcf { bytes: Vec<u8> },
}

fn bam_id(r: &bam::Record) -> String {
    r.name().map(|n| n.to_string()).unwrap_or_default()
}

impl Data {
    fn bytes(&self) -> &[u8] {
        match self {
            Data::Bam { bytes, .. } | Data::Vcf { bytes, .. } | Data::Bcf { bytes } => bytes,
        }
    }

    /// Full scan with the plain reader, recording virtual positions before/after every record.
    fn scan(&self) -> Result<Vec<ScanRec>, Vec<Fail>> {
        let mut out = Vec::new();
        match self {
            Data::Bam { bytes, .. } => {
                use sam::alignment::Record as _;
                let mut r = bam::io::Reader::new(Cursor::new(&bytes[..]));
                r.read_header().map_err(|e| e1("c04.scan-error", format!("BAM read_header: {e}")))?;
                let mut rec = bam::Record::default();
                let mut vstart = u64::from(r.get_ref().virtual_position());
                loop {
                    let n = r.read_record(&mut rec).map_err(|e| e1("c04.scan-error", format!("BAM read_record after {} records: {e}", out.len())))?;
                    if n == 0 {
                        break;
                    }
                    let vend = u64::from(r.get_ref().virtual_position());
                    let rid = rec.reference_sequence_id().transpose().map_err(|e| e1("c04.scan-error", format!("reference_sequence_id: {e}")))?;
                    let s = rec.alignment_start().transpose().map_err(|e| e1("c04.scan-error", format!("alignment_start: {e}")))?;
                    let e = rec.alignment_end().transpose().map_err(|e| e1("c04.scan-error", format!("alignment_end: {e}")))?;
                    let span = match (s, e) {
                        (Some(s), Some(e)) => Some((usize::from(s) as u64, usize::from(e) as u64)),
                        _ => None,
                    };
                    out.push(ScanRec { id: bam_id(&rec), rid, span, flagged_unmapped: rec.flags().is_unmapped(), vstart, vend });
                    vstart = vend;
                }
            }
            Data::Vcf { bytes, header } => {
                use vcf::variant::Record as _;
                let mut r = vcf::io::Reader::new(bgzf::io::Reader::new(Cursor::new(&bytes[..])));
                let h = r.read_header().map_err(|e| e1("c04.scan-error", format!("VCF read_header: {e}")))?;
                let mut rec = vcf::Record::default();
                let mut vstart = u64::from(r.get_ref().virtual_position());
                loop {
                    let n = r.read_record(&mut rec).map_err(|e| e1("c04.scan-error", format!("VCF read_record after {} records: {e}", out.len())))?;
                    if n == 0 {
                        break;
                    }
                    let vend = u64::from(r.get_ref().virtual_position());
                    let name = rec.reference_sequence_name().to_string();
                    let rid = header.contigs().get_index_of(name.as_str());
                    let s = rec.variant_start().transpose().map_err(|e| e1("c04.scan-error", format!("variant_start: {e}")))?;
                    let e = rec.variant_end(&h).map_err(|e| e1("c04.scan-error", format!("variant_end: {e}")))?;
                    let span = s.map(|s| (usize::from(s) as u64, usize::from(e) as u64));
                    out.push(ScanRec { id: rec.ids().as_ref().to_string(), rid, span, flagged_unmapped: false, vstart, vend });
                    vstart = vend;
                }
            }
            Data::Bcf { bytes } => {
                use vcf::variant::Record as _;
                let mut r = bcf::io::Reader::new(Cursor::new(&bytes[..]));
                let h = r.read_header().map_err(|e| e1("c04.scan-error", format!("BCF read_header: {e}")))?;
                let mut rec = bcf::Record::default();
                let mut vstart = u64::from(r.get_ref().virtual_position());
                loop {
                    let n = r.read_record(&mut rec).map_err(|e| e1("c04.scan-error", format!("BCF read_record after {} records: {e}", out.len())))?;
                    if n == 0 {
                        break;
                    }
                    let vend = u64::from(r.get_ref().virtual_position());
                    let rid = rec.reference_sequence_id().map_err(|e| e1("c04.scan-error", format!("reference_sequence_id: {e}")))?;
                    let s = rec.variant_start().transpose().map_err(|e| e1("c04.scan-error", format!("variant_start: {e}")))?;
                    let e = rec.variant_end(&h).map_err(|e| e1("c04.scan-error", format!("variant_end: {e}")))?;
                    let span = s.map(|s| (usize::from(s) as u64, usize::from(e) as u64));
                    out.push(ScanRec { id: String::from_utf8_lossy(rec.ids().as_ref()).to_string(), rid: Some(rid), span, flagged_unmapped: false, vstart, vend });
                    vstart = vend;
                }
            }
        }
        Ok(out)
    }

    /// Region query → record identities in the order returned.
    fn query(&self, ix: &Ix, region: &Region) -> std::io::Result<Vec<String>> {
        let reg = noodles_region(region);
        let mut ids = Vec::new();
        match self {
            Data::Bam { bytes, header } => {
                let mut r = bam::io::Reader::new(Cursor::new(&bytes[..]));
                r.read_header()?;
                let q = match ix {
                    Ix::Linear(i) => r.query(header, i, &reg)?,
                    Ix::Binned(i) => r.query(header, i, &reg)?,
                };
                for rec in q.records() {
                    ids.push(bam_id(&rec?));
                }
            }
            Data::Vcf { bytes, .. } => {
                let mut r = vcf::io::Reader::new(bgzf::io::Reader::new(Cursor::new(&bytes[..])));
                let h = r.read_header()?;
                let q = match ix {
                    Ix::Linear(i) => r.query(&h, i, &reg)?,
                    Ix::Binned(i) => r.query(&h, i, &reg)?,
                };
                for rec in q.records() {
                    ids.push(rec?.ids().as_ref().to_string());
                }
            }
            Data::Bcf { bytes } => {
                let mut r = bcf::io::Reader::new(Cursor::new(&bytes[..]));
                let h = r.read_header()?;
                let q = match ix {
                    Ix::Linear(i) => r.query(&h, i, &reg)?,
                    Ix::Binned(i) => r.query(&h, i, &reg)?,
                };
                for rec in q.records() {
                    ids.push(String::from_utf8_lossy(rec?.ids().as_ref()).to_string());
                }
            }
        }
        Ok(ids)
    }

    /// The same regions queried one after the other on ONE reader (after a full scan to the end
    /// of the file when `scan_first`): what a program serving several requests from an open file
    /// does. A query must not depend on where earlier use left the reader.
    fn query_sequence(&self, ix: &Ix, regions: &[Region], scan_first: bool) -> std::io::Result<Vec<std::io::Result<Vec<String>>>> {
        let mut out = Vec::new();
        match self {
            Data::Bam { bytes, header } => {
                let mut r = bam::io::Reader::new(Cursor::new(&bytes[..]));
                r.read_header()?;
                if scan_first {
                    for rec in r.records() {
                        rec?;
                    }
                }
                for region in regions {
                    let reg = noodles_region(region);
                    out.push((|| {
                        let q = match ix {
                            Ix::Linear(i) => r.query(header, i, &reg)?,
                            Ix::Binned(i) => r.query(header, i, &reg)?,
                        };
                        q.records().map(|rec| rec.map(|rec| bam_id(&rec))).collect()
                    })());
                }
            }
            Data::Vcf { bytes, .. } => {
                let mut r = vcf::io::Reader::new(bgzf::io::Reader::new(Cursor::new(&bytes[..])));
                let h = r.read_header()?;
                if scan_first {
                    let mut rec = vcf::Record::default();
                    while r.read_record(&mut rec)? != 0 {}
                }
                for region in regions {
                    let reg = noodles_region(region);
                    out.push((|| {
                        let q = match ix {
                            Ix::Linear(i) => r.query(&h, i, &reg)?,
                            Ix::Binned(i) => r.query(&h, i, &reg)?,
                        };
                        q.records().map(|rec| rec.map(|rec| rec.ids().as_ref().to_string())).collect()
                    })());
                }
            }
            Data::Bcf { bytes } => {
                let mut r = bcf::io::Reader::new(Cursor::new(&bytes[..]));
                let h = r.read_header()?;
                if scan_first {
                    let mut rec = bcf::Record::default();
                    while r.read_record(&mut rec)? != 0 {}
                }
                for region in regions {
                    let reg = noodles_region(region);
                    out.push((|| {
                        let q = match ix {
                            Ix::Linear(i) => r.query(&h, i, &reg)?,
                            Ix::Binned(i) => r.query(&h, i, &reg)?,
                        };
                        q.records().map(|rec| rec.map(|rec| String::from_utf8_lossy(rec.ids().as_ref()).to_string())).collect()
                    })());
                }
            }
        }
        Ok(out)
    }

    fn query_unmapped(&self, ix: &Ix) -> Option<std::io::Result<Vec<(String, bool, bool)>>> {
        match self {
            Data::Bam { bytes, .. } => Some((|| {
                let mut r = bam::io::Reader::new(Cursor::new(&bytes[..]));
                r.read_header()?;
                let mut out = Vec::new();
                let it: Box<dyn Iterator<Item = std::io::Result<bam::Record>>> = match ix {
                    Ix::Linear(i) => Box::new(r.query_unmapped(i)?),
                    Ix::Binned(i) => Box::new(r.query_unmapped(i)?),
                };
                for rec in it {
                    let rec = rec?;
                    out.push((bam_id(&rec), rec.flags().is_unmapped(), rec.reference_sequence_id().is_none()));
                }
                Ok(out)
            })()),
            _ => None,
        }
    }
}

/// The read-tell-add loop of `bam::fs::index`, with a caller-chosen geometry (public API only).
fn index_bam_custom(path: &std::path::Path, g: Geometry) -> std::io::Result<csi::Index> {
    use sam::alignment::Record as _;
    let mut reader = bam::io::Reader::new(std::fs::File::open(path)?);
    let header = reader.read_header()?;
    let mut record = bam::Record::default();
    let mut indexer = Indexer::<BinnedIndex>::new(g.min_shift, g.depth);
    let mut start_position = reader.get_ref().virtual_position();
    while reader.read_record(&mut record)? != 0 {
        let end_position = reader.get_ref().virtual_position();
        let chunk = Chunk::new(start_position, end_position);
        let ctx = match (record.reference_sequence_id().transpose()?, record.alignment_start().transpose()?, record.alignment_end().transpose()?) {
            (Some(id), Some(start), Some(end)) => Some((id, start, end, !record.flags().is_unmapped())),
            _ => None,
        };
        indexer.add_record(ctx, chunk)?;
        start_position = end_position;
    }
    Ok(indexer.build(header.reference_sequences().len()))
}

/// The read-tell-add loop of `bcf::fs::index`, with a caller-chosen geometry.
fn index_bcf_custom(path: &std::path::Path, g: Geometry) -> std::io::Result<csi::Index> {
    use vcf::variant::Record as _;
    let mut reader = bcf::io::Reader::new(std::fs::File::open(path)?);
    let header = reader.read_header()?;
    let mut indexer = Indexer::<BinnedIndex>::new(g.min_shift, g.depth);
    let mut record = bcf::Record::default();
    let mut start_position = reader.get_ref().virtual_position();
    while reader.read_record(&mut record)? != 0 {
        let end_position = reader.get_ref().virtual_position();
        let chunk = Chunk::new(start_position, end_position);
        let id = record.reference_sequence_id()?;
        let start = record.variant_start().transpose()?.ok_or_else(|| std::io::Error::new(std::io::ErrorKind::InvalidData, "missing variant start"))?;
        let end = record.variant_end(&header)?;
        indexer.add_record(Some((id, start, end, true)), chunk)?;
        start_position = end_position;
    }
    Ok(indexer.build(header.contigs().len()))
}

fn kind_name(k: Kind) -> &'static str {
    match k {
        Kind::Bai => "bai",
        Kind::CsiBcf => "csi-bcf",
        Kind::Tabix => "tabix",
        Kind::CsiBam => "csi-bam",
        Kind::CsiBcfCustom => "csi-bcf-custom",
    }
}

/// `got` ⊆ `want` as a subsequence → the omitted elements; None when `got` is not a subsequence.
fn omitted_subsequence<'a>(got: &[String], want: &'a [String]) -> Option<Vec<&'a String>> {
    let mut om = Vec::new();
    let mut gi = 0;
    for w in want {
        if gi < got.len() && &got[gi] == w {
            gi += 1;
        } else {
            om.push(w);
        }
    }
    if gi == got.len() { Some(om) } else { None }
}

/// "earlier long record, later short record in the same leaf window": a record assigned to a leaf
/// bin that is preceded (file order, same reference) by a record assigned above leaf level whose span
/// reaches into that leaf window.
fn has_long_before_short(truth: &[Truth], g: Geometry) -> bool {
    let (ms, d) = (g.min_shift as u32, g.depth as u32);
    // running max end of above-leaf records per reference
    let mut max_end_above: std::collections::BTreeMap<usize, u64> = Default::default();
    for t in truth {
        let (Some(rid), Some((s, e))) = (t.rid, t.span) else { continue };
        let bin = binning::reg2bin_1based(s, e, ms, d);
        let leaf = binning::bin_level(bin, d) == Some(d);
        if leaf {
            let window_start = ((s - 1) >> ms << ms) + 1;
            if max_end_above.get(&rid).is_some_and(|&m| m >= window_start) {
                return true;
            }
        } else {
            let m = max_end_above.entry(rid).or_insert(0);
            *m = (*m).max(e);
        }
    }
    false
}

/// The known CSI defect, as a predicate. `model` is what the pinned scheme stores for one reference:
/// bin → smallest chunk start of the records *assigned* to that bin (rebuilt from the full scan
/// and the oracle's reg2bin). The failure belongs to the known class iff
///  * noodles' `min_offset(region start)` is exactly what that scheme prescribes — in memory: the value
///    of the nearest populated ancestor-or-self bin `c1` of the start's leaf; from a file: the minimum
///    over the contiguous populated ancestors of `c1` (what `first_record_start_position` writes);
///  * every omitted record ends at or before that offset (it was pruned by it), and
///  * none of them is assigned to `c1` itself: it is held in a strict ancestor of `c1`
///    ("spanning-record") or in a bin outside the ancestor chain of the start ("later-record").
/// Anything else that loses a record through `min_offset` gets an unknown signature.
fn classify_known_csi(variant: &str, g: Geometry, start: u64, model: &std::collections::BTreeMap<u64, u64>, noodles_m: u64, omitted: &[(u64, u64)]) -> Option<&'static str> {
    let (ms, d) = (g.min_shift as u32, g.depth as u32);
    let mut chain = vec![binning::reg2bin_1based(start, start, ms, d)];
    while let Some(p) = binning::parent(*chain.last()?) {
        chain.push(p);
    }
    let k = chain.iter().position(|b| model.contains_key(b))?;
    let c1 = chain[k];
    let mut expected = *model.get(&c1)?;
    if variant == "file" {
        for b in &chain[k + 1..] {
            match model.get(b) {
                Some(&v) => expected = expected.min(v),
                None => break,
            }
        }
    }
    if noodles_m != expected || omitted.is_empty() {
        return None;
    }
    let mut spanning = false;
    for &(rbin, vend) in omitted {
        if vend > noodles_m || rbin == c1 {
            return None;
        }
        if chain.contains(&rbin) {
            // populated and on the chain, not c1 ⇒ strictly above c1
            if chain.iter().position(|b| *b == rbin)? < k {
                return None;
            }
            spanning = true;
        }
    }
    Some(if spanning { "spanning-record" } else { "later-record" })
}

fn bin_model(g: Geometry, recs: impl Iterator<Item = (Option<usize>, Option<(u64, u64)>, u64)>, rid: usize) -> std::collections::BTreeMap<u64, u64> {
    let mut m = std::collections::BTreeMap::new();
    for (r, span, vstart) in recs {
        if r == Some(rid) {
            if let Some((s, e)) = span {
                let b = binning::reg2bin_1based(s, e, g.min_shift as u32, g.depth as u32);
                let v = m.entry(b).or_insert(vstart);
                if vstart < *v {
                    *v = vstart;
                }
            }
        }
    }
    m
}

fn describe_region(r: &Region) -> String {
    format!("sq{}:{}-{}", r.rid, r.start.map(|x| x.to_string()).unwrap_or("*".into()), r.end.map(|x| x.to_string()).unwrap_or("*".into()))
}

// ------------------------------------------------------------------------------------------------
// the async twins of the indexed queries (registered under C16: "the async reader yields the same
// … query results … as the sync reader")
// ------------------------------------------------------------------------------------------------

#[derive(Clone, Debug, Serialize, Deserialize)]
pub struct AsyncQueryCase {
    pub case: Case,
    pub script: crate::io_adv::async_adv::PollScript,
    pub workers: u8,
}

pub fn async_query_strategy(tier: Tier) -> BoxedStrategy<AsyncQueryCase> {
    let script = prop_oneof![
        1 => Just(crate::io_adv::async_adv::PollScript { steps: vec![] }),
        2 => Just(crate::io_adv::async_adv::PollScript { steps: vec![0, 1] }),
        3 => proptest::collection::vec(prop_oneof![2 => Just(0u32), 3 => 1u32..8, 2 => 1u32..700, 1 => Just(70_000u32)], 1..7).prop_map(|steps| crate::io_adv::async_adv::PollScript { steps }),
    ];
    (files_strategy(tier), script, 1u8..=4).prop_map(|(case, script, workers)| AsyncQueryCase { case, script, workers }).boxed()
}

/// Sync query (fresh reader) vs async query (fresh async reader over a scripted source) for every
/// region of the case, with the index built in memory by the sync indexer.
pub fn check_async_queries(c: &AsyncQueryCase) -> Verdict {
    use crate::io_adv::async_adv::AdvAsyncRead;
    use futures::TryStreamExt;
    let cc = &c.case;
    let key = key_of(c);
    let mut tmp = TmpFiles(Vec::new());
    let is_vcf_like = !matches!(cc.kind, Kind::Bai | Kind::CsiBam);
    let (sorted, truth): (Vec<RecSpec>, Vec<Truth>) = if is_vcf_like { sorted::vcf_truth(&cc.set) } else { sorted::bam_truth(&cc.set) };
    let data = match cc.kind {
        Kind::Bai | Kind::CsiBam => Data::Bam {
            bytes: sorted::write_bam(&cc.set).map_err(|e| e1("c16.query.write-error", format!("writing the BAM failed: {e}")))?,
            header: sorted::sam_header(&cc.set).map_err(|e| e1("c16.query.write-error", e))?,
        },
        Kind::Tabix => Data::Vcf { bytes: sorted::write_vcf_gz(&cc.set, cc.version).map_err(|e| e1("c16.query.write-error", format!("writing the VCF failed: {e}")))?, header: sorted::vcf_header(&cc.set, cc.version) },
        Kind::CsiBcf | Kind::CsiBcfCustom => Data::Bcf { bytes: sorted::write_bcf(&cc.set, cc.version).map_err(|e| e1("c16.query.write-error", format!("writing the BCF failed: {e}")))? },
    };
    let ext = match cc.kind {
        Kind::Bai | Kind::CsiBam => "bam",
        Kind::Tabix => "vcf.gz",
        _ => "bcf",
    };
    let path = tmp.path(key, ext);
    std::fs::write(&path, data.bytes()).map_err(|e| e1("c04.tmp-io", format!("cannot write {}: {e}", path.display())))?;
    let g = cc.set.geom;
    // an index the sync indexer cannot build is C04's subject, not this relation's
    let ix: Ix = match match cc.kind {
        Kind::Bai => bam::fs::index(&path).map(Ix::Linear),
        Kind::CsiBcf => bcf::fs::index(&path).map(Ix::Binned),
        Kind::Tabix => vcf::fs::index(&path).map(Ix::Linear),
        Kind::CsiBam => index_bam_custom(&path, g).map(Ix::Binned),
        Kind::CsiBcfCustom => index_bcf_custom(&path, g).map(Ix::Binned),
    } {
        Ok(ix) => ix,
        Err(_) => return Ok(Pass::new(false, key).label("index-not-built(sync)")),
    };
    let span_list: Vec<(u64, u64)> = truth.iter().filter_map(|t| t.span).collect();
    let bytes = std::sync::Arc::new(data.bytes().to_vec());
    let workers = std::num::NonZero::new(c.workers.clamp(1, 8) as usize).unwrap();
    let rt = crate::drivers::asyncs::runtime();
    let mut fails = Fails::new();
    let (mut n, mut nonempty, mut pend) = (0u64, 0u64, 0u64);
    let name = kind_name(cc.kind);
    for spec in &cc.regions {
        let region = spec.resolve(&cc.set, &sorted, &span_list);
        let reg = noodles_region(&region);
        let sync_ans: Result<Vec<String>, std::io::ErrorKind> = data.query(&ix, &region).map_err(|e| e.kind());
        let src = AdvAsyncRead::new(bytes.clone(), &c.script);
        let stats = src.stats.clone();
        let async_ans: Result<Vec<String>, std::io::ErrorKind> = rt
            .block_on(async {
                match &data {
                    Data::Bam { header, .. } => {
                        let mut r = bam::r#async::io::Reader::from(bgzf::r#async::io::reader::Builder::default().set_worker_count(workers).build_from_reader(src));
                        r.read_header().await?;
                        let q = match &ix {
                            Ix::Linear(i) => r.query(header, i, &reg)?,
                            Ix::Binned(i) => r.query(header, i, &reg)?,
                        };
                        let mut recs = std::pin::pin!(q.records());
                        let mut ids = Vec::new();
                        while let Some(rec) = recs.try_next().await? {
                            ids.push(bam_id(&rec));
                        }
                        Ok::<_, std::io::Error>(ids)
                    }
                    Data::Vcf { .. } => {
                        let mut r = vcf::r#async::io::Reader::new(bgzf::r#async::io::reader::Builder::default().set_worker_count(workers).build_from_reader(src));
                        let h = r.read_header().await?;
                        let q = match &ix {
                            Ix::Linear(i) => r.query(&h, i, &reg)?,
                            Ix::Binned(i) => r.query(&h, i, &reg)?,
                        };
                        let mut recs = std::pin::pin!(q.records());
                        let mut ids = Vec::new();
                        while let Some(rec) = recs.try_next().await? {
                            ids.push(rec.ids().as_ref().to_string());
                        }
                        Ok(ids)
                    }
                    Data::Bcf { .. } => {
                        let mut r = bcf::r#async::io::Reader::from(bgzf::r#async::io::reader::Builder::default().set_worker_count(workers).build_from_reader(src));
                        let h = r.read_header().await?;
                        let q = match &ix {
                            Ix::Linear(i) => r.query(&h, i, &reg)?,
                            Ix::Binned(i) => r.query(&h, i, &reg)?,
                        };
                        let mut recs = std::pin::pin!(q.records());
                        let mut ids = Vec::new();
                        while let Some(rec) = recs.try_next().await? {
                            ids.push(String::from_utf8_lossy(rec.ids().as_ref()).to_string());
                        }
                        Ok(ids)
                    }
                }
            })
            .map_err(|e| e.kind());
        n += 1;
        pend += stats.lock().map(|s| s.pendings).unwrap_or(0);
        if sync_ans.as_ref().map(|v| !v.is_empty()).unwrap_or(false) {
            nonempty += 1;
        }
        // whether the query succeeds and what it returns is compared; error kinds are not (C16)
        let same = match (&sync_ans, &async_ans) {
            (Ok(a), Ok(b)) => a == b,
            (Err(_), Err(_)) => true,
            _ => false,
        };
        if !same {
            fails.push(
                format!("c16.query.differs:{name}"),
                format!("{name} ({},{}): query {}: sync reader {}, async reader {}", g.min_shift, g.depth, describe_region(&region), trunc(&format!("{sync_ans:?}"), 300), trunc(&format!("{async_ans:?}"), 300)),
            );
            break;
        }
    }
    fails.finish(Pass::new(nonempty > 0 && n > 0, key).evals(n.max(1)).label(name).label_if(pend > 0, "pending-delivered").label_if(nonempty > 0, "non-empty-answer"))
}

// ------------------------------------------------------------------------------------------------
// files
// ------------------------------------------------------------------------------------------------

fn check_files(c: &Case) -> Verdict {
    let g = c.set.geom;
    let key = key_of(c);
    let mut tmp = TmpFiles(Vec::new());
    let is_vcf_like = !matches!(c.kind, Kind::Bai | Kind::CsiBam);
    let v45 = is_vcf_like && c.version == VcfVersion::V45;

    // 1. realise
    let (sorted, truth): (Vec<RecSpec>, Vec<Truth>) = if is_vcf_like { sorted::vcf_truth(&c.set) } else { sorted::bam_truth(&c.set) };
    let data = match c.kind {
        Kind::Bai | Kind::CsiBam => Data::Bam {
            bytes: sorted::write_bam(&c.set).map_err(|e| e1("c04.write-error.bam", format!("writing the BAM failed: {e}")))?,
            header: sorted::sam_header(&c.set).map_err(|e| e1("c04.write-error.bam", e))?,
        },
        Kind::Tabix => Data::Vcf { bytes: sorted::write_vcf_gz(&c.set, c.version).map_err(|e| e1("c04.write-error.vcf", format!("writing the VCF failed: {e}")))?, header: sorted::vcf_header(&c.set, c.version) },
        Kind::CsiBcf | Kind::CsiBcfCustom => Data::Bcf { bytes: sorted::write_bcf(&c.set, c.version).map_err(|e| e1("c04.write-error.bcf", format!("writing the BCF failed: {e}")))? },
    };
    let ext = match c.kind {
        Kind::Bai | Kind::CsiBam => "bam",
        Kind::Tabix => "vcf.gz",
        _ => "bcf",
    };
    let path = tmp.path(key, ext);
    std::fs::write(&path, data.bytes()).map_err(|e| e1("c04.tmp-io", format!("cannot write {}: {e}", path.display())))?;

    // 2. index in memory, and via a file
    // known class: BCF + fileformat 4.5 + an INFO SVLEN value that needs 16/32 bits (the BCF reader
    // decodes a one-element int16/int32 vector as a scalar and variant_end rejects it)
    let svlen_wide = v45 && matches!(c.kind, Kind::CsiBcf | Kind::CsiBcfCustom) && sorted.iter().any(|r| sorted::vcf_fields(r).1.is_some() && r.len > 127);
    let bcf_index_sig = |generic: &str, e: &std::io::Error| -> String {
        if svlen_wide && e.to_string().contains("SVLEN") { "c04.bcf.v45.svlen-wide-int-decoded-as-scalar".to_string() } else { generic.to_string() }
    };
    let mem: Ix = match c.kind {
        Kind::Bai => Ix::Linear(bam::fs::index(&path).map_err(|e| e1("c04.index-error.bai", format!("bam::fs::index: {e}")))?),
        Kind::CsiBcf => Ix::Binned(bcf::fs::index(&path).map_err(|e| e1(&bcf_index_sig("c04.index-error.csi-bcf", &e), format!("bcf::fs::index: {e}")))?),
        Kind::Tabix => Ix::Linear(vcf::fs::index(&path).map_err(|e| e1("c04.index-error.tabix", format!("vcf::fs::index: {e}")))?),
        Kind::CsiBam => Ix::Binned(index_bam_custom(&path, g).map_err(|e| e1("c04.index-error.csi-bam", format!("Indexer loop on BAM: {e}")))?),
        Kind::CsiBcfCustom => Ix::Binned(index_bcf_custom(&path, g).map_err(|e| e1(&bcf_index_sig("c04.index-error.csi-bcf-custom", &e), format!("Indexer loop on BCF: {e}")))?),
    };
    let ipath = tmp.path(key, "idx");
    let file: Ix = match (&mem, c.kind) {
        (Ix::Linear(i), Kind::Bai) => {
            bam::bai::fs::write(&ipath, i).map_err(|e| e1("c04.index-write-error.bai", format!("{e}")))?;
            Ix::Linear(bam::bai::fs::read(&ipath).map_err(|e| e1("c04.index-read-error.bai", format!("{e}")))?)
        }
        (Ix::Linear(i), _) => {
            tabix::fs::write(&ipath, i).map_err(|e| e1("c04.index-write-error.tabix", format!("{e}")))?;
            Ix::Linear(tabix::fs::read(&ipath).map_err(|e| e1("c04.index-read-error.tabix", format!("{e}")))?)
        }
        (Ix::Binned(i), _) => {
            csi::fs::write(&ipath, i).map_err(|e| e1("c04.index-write-error.csi", format!("{e}")))?;
            Ix::Binned(csi::fs::read(&ipath).map_err(|e| e1("c04.index-read-error.csi", format!("{e}")))?)
        }
    };

    // 3. full scan (noodles' reader + its own span functions), joined with the ground truth
    let scan = data.scan()?;
    let mut fails = Fails::new();
    if scan.len() != truth.len() {
        return fail1("c04.scan.count", format!("wrote {} records, a full scan returns {}", truth.len(), scan.len()));
    }
    for (t, s) in truth.iter().zip(&scan) {
        if s.id != sorted::ident(t.idx) || s.rid != t.rid || s.flagged_unmapped != t.flagged_unmapped {
            return fail1("c04.scan.identity", format!("record #{} read back as id {:?} on reference {:?} (expected {:?} on {:?})", t.idx, s.id, s.rid, sorted::ident(t.idx), t.rid));
        }
        if !v45 && s.span != t.span {
            fails.push(if is_vcf_like { "c04.span.vcf" } else { "c04.span.bam" }, format!("record {} ({:?}): noodles span {:?}, specification span {:?}", s.id, sorted.get(t.idx), s.span, t.span));
        }
    }
    let blocks_with_records: std::collections::BTreeSet<u64> = scan.iter().map(|s| s.vstart >> 16).collect();
    let multi_block = blocks_with_records.len() >= 2;
    let above_leaf = truth.iter().any(|t| t.span.is_some_and(|(s, e)| binning::bin_level(binning::reg2bin_1based(s, e, g.min_shift as u32, g.depth as u32), g.depth as u32) != Some(g.depth as u32)));
    let lbs = has_long_before_short(&truth, g);

    // 4. regions
    let span_list: Vec<(u64, u64)> = truth.iter().filter_map(|t| t.span).collect();
    let mut any_nonempty = false;
    let mut labels: Vec<&'static str> = Vec::new();
    let mut n_queries = 0u64;
    // (region, answer of a fresh reader) per successful query with the written-and-read index
    let mut fresh: Vec<(Region, Vec<String>)> = Vec::new();
    for spec in &c.regions {
        let region = spec.resolve(&c.set, &sorted, &span_list);
        let empty_interval = region.is_empty_interval();
        let ref_has_records = truth.iter().any(|t| t.rid == Some(region.rid));
        let rq = (region.start, region.end);
        // primary: generator truth; secondary: noodles' own spans from the scan
        let want_primary: Vec<String> = truth.iter().filter(|t| t.rid == Some(region.rid) && t.span.is_some_and(|s| spans::intersects(s, rq))).map(|t| sorted::ident(t.idx)).collect();
        let want_secondary: Vec<String> = scan.iter().filter(|s| s.rid == Some(region.rid) && s.span.is_some_and(|sp| spans::intersects(sp, rq))).map(|s| s.id.clone()).collect();
        for (variant, ix) in [("mem", &mem), ("file", &file)] {
            n_queries += 1;
            let got = match data.query(ix, &region) {
                Ok(v) => v,
                Err(e) => {
                    if c.kind == Kind::Tabix && !ref_has_records {
                        // the tabix name list only holds contigs that have records: naming another
                        // contig of the VCF header is reported as an error; the property is silent
                        if !labels.contains(&"tabix-empty-contig-error") {
                            labels.push("tabix-empty-contig-error");
                        }
                        continue;
                    }
                    fails.push(format!("c04.{}.{variant}.query-error", kind_name(c.kind)), format!("query {} failed: {e}", describe_region(&region)));
                    continue;
                }
            };
            if variant == "file" {
                fresh.push((region.clone(), got.clone()));
            }
            if empty_interval {
                // start > end: only sanity (records of the named reference, no duplicates)
                let mut seen = std::collections::BTreeSet::new();
                for id in &got {
                    let ok = scan.iter().any(|s| &s.id == id && s.rid == Some(region.rid));
                    if !ok || !seen.insert(id.clone()) {
                        fails.push(format!("c04.{}.{variant}.empty-interval", kind_name(c.kind)), format!("query {} returned {:?}", describe_region(&region), got));
                        break;
                    }
                }
                continue;
            }
            let (want, relation) = if v45 { (&want_secondary, "scan+filter with noodles' spans") } else { (&want_primary, "generator ground truth") };
            if &got != want {
                // classify
                let mut sig = None;
                if ix.is_binned() {
                    if let Some(om) = omitted_subsequence(&got, want) {
                        if !om.is_empty() {
                            let start = region.start.unwrap_or(1);
                            let m = ix.min_offset(region.rid, start).unwrap_or(0);
                            let recs: Vec<&ScanRec> = om.iter().filter_map(|id| scan.iter().find(|s| &&s.id == id)).collect();
                            if recs.len() == om.len() {
                                let model = bin_model(g, scan.iter().map(|s| (s.rid, s.span, s.vstart)), region.rid);
                                let omitted: Vec<(u64, u64)> = recs.iter().filter_map(|s| s.span.map(|(a, b)| (binning::reg2bin_1based(a, b, g.min_shift as u32, g.depth as u32), s.vend))).collect();
                                if omitted.len() == recs.len() {
                                    if let Some(class) = classify_known_csi(variant, g, start, &model, m, &omitted) {
                                        sig = Some(format!("c04.csi.{variant}.min-offset-prunes.{class}"));
                                    }
                                }
                            }
                        }
                    }
                }
                let sig = sig.unwrap_or_else(|| {
                    let how = match omitted_subsequence(&got, want) {
                        Some(_) => "omission",
                        None => {
                            if omitted_subsequence(want, &got).is_some() {
                                "extra"
                            } else {
                                "mismatch"
                            }
                        }
                    };
                    format!("c04.{}.{variant}.{how}", kind_name(c.kind))
                });
                let second = if !v45 && &got == &want_secondary { " (but equal to scan+filter with noodles' own spans: a span defect, not an index defect)" } else { "" };
                fails.push(sig, format!("{} index ({variant}) ({},{}): query {} returned {:?}, {relation} gives {:?}{second}", kind_name(c.kind), g.min_shift, g.depth, describe_region(&region), trunc(&format!("{got:?}"), 400), trunc(&format!("{want:?}"), 400)));
            } else if !v45 && got != want_secondary {
                fails.push(format!("c04.{}.{variant}.secondary", kind_name(c.kind)), format!("query {} equals the ground truth but not scan+filter with noodles' spans {:?}", describe_region(&region), want_secondary));
            }
        }
        if !empty_interval && !want_primary.is_empty() {
            any_nonempty = true;
        }
        let l: &'static str = match (region.start, region.end) {
            (None, None) => "region-whole-reference",
            (None, Some(_)) => "region-unbounded-start",
            (Some(_), None) => "region-unbounded-end",
            (Some(s), Some(e)) if s == e => "region-point",
            (Some(s), Some(e)) if s > e => "region-empty-interval",
            (Some(s), Some(e)) if (s - 1) % g.leaf() == 0 && e % g.leaf() == 0 => "region-bin-aligned",
            _ => "region-interval",
        };
        if !labels.contains(&l) {
            labels.push(l);
        }
        if !ref_has_records && !labels.contains(&"region-on-empty-reference") {
            labels.push("region-on-empty-reference");
        }
    }

    // 4b. one reader for all regions: in the generated order, in reverse (late regions first), and
    // after a scan to the end of the file; every answer must be the fresh reader's
    let mut reused_reader_queries = 0u64;
    if fresh.len() >= 2 && fails.is_empty() {
        let fwd: Vec<Region> = fresh.iter().map(|(r, _)| r.clone()).collect();
        let mut order_desc: Vec<usize> = (0..fresh.len()).collect();
        order_desc.sort_by_key(|&i| std::cmp::Reverse((fresh[i].0.rid, fresh[i].0.start.unwrap_or(0))));
        let desc: Vec<Region> = order_desc.iter().map(|&i| fresh[i].0.clone()).collect();
        let id: Vec<usize> = (0..fresh.len()).collect();
        for (how, regions, order, scan_first) in [("in the generated order", &fwd, &id, false), ("latest region first", &desc, &order_desc, false), ("after a scan to the end of the file", &fwd, &id, true)] {
            match data.query_sequence(&file, regions, scan_first) {
                Err(e) => fails.push(format!("c04.{}.reused-reader.error", kind_name(c.kind)), format!("preparing one reader for several queries ({how}): {e}")),
                Ok(answers) => {
                    for (k, ans) in answers.iter().enumerate() {
                        reused_reader_queries += 1;
                        let (region, want) = &fresh[order[k]];
                        match ans {
                            Ok(got) if got == want => {}
                            Ok(got) => {
                                fails.push(format!("c04.{}.reused-reader.differs", kind_name(c.kind)), format!("{} index (file) ({},{}): query {} as query #{k} on one reader ({how}) returned {:?}, a fresh reader returns {:?}", kind_name(c.kind), g.min_shift, g.depth, describe_region(region), trunc(&format!("{got:?}"), 300), trunc(&format!("{want:?}"), 300)));
                                break;
                            }
                            Err(e) => {
                                fails.push(format!("c04.{}.reused-reader.error", kind_name(c.kind)), format!("query {} as query #{k} on one reader ({how}) fails: {e}; a fresh reader answers", describe_region(region)));
                                break;
                            }
                        }
                    }
                }
            }
        }
    }
    n_queries += reused_reader_queries;

    // 5. unmapped query (BAM)
    let tail: Vec<String> = truth.iter().filter(|t| t.rid.is_none()).map(|t| sorted::ident(t.idx)).collect();
    let mut placed_unmapped_returned = false;
    for (variant, ix) in [("mem", &mem), ("file", &file)] {
        if let Some(res) = data.query_unmapped(ix) {
            n_queries += 1;
            match res {
                Err(e) => fails.push(format!("c04.{}.{variant}.unmapped.query-error", kind_name(c.kind)), format!("query_unmapped failed: {e}")),
                Ok(got) => {
                    if let Some(bad) = got.iter().find(|(_, flagged, _)| !flagged) {
                        fails.push(format!("c04.{}.{variant}.unmapped.not-flagged", kind_name(c.kind)), format!("query_unmapped returned {} which is not flagged unmapped", bad.0));
                    }
                    let unplaced: Vec<String> = got.iter().filter(|(_, _, unplaced)| *unplaced).map(|(id, _, _)| id.clone()).collect();
                    if unplaced != tail {
                        fails.push(format!("c04.{}.{variant}.unmapped.tail", kind_name(c.kind)), format!("query_unmapped returned the unplaced records {unplaced:?}; the file's unplaced unmapped tail is {tail:?}"));
                    }
                    if got.iter().any(|(_, _, unplaced)| !*unplaced) {
                        placed_unmapped_returned = true;
                    }
                }
            }
            if ix.unplaced() != Some(tail.len() as u64) {
                fails.push(format!("c04.{}.{variant}.unplaced-count", kind_name(c.kind)), format!("index says {:?} unplaced unmapped records, the file has {}", ix.unplaced(), tail.len()));
            }
        }
    }

    let nontrivial = any_nonempty && (multi_block || above_leaf);
    let mut p = Pass::new(nontrivial, key)
        .evals(n_queries.max(1))
        .label(kind_name(c.kind))
        .label_if(reused_reader_queries > 0, "several-queries-on-one-reader")
        .label_if(lbs, "long-before-short-in-leaf")
        .label_if(lbs && !mem.is_binned(), "linear-index+long-before-short")
        .label_if(lbs && mem.is_binned(), "binned-index+long-before-short")
        .label_if(multi_block, "records-in>=2-blocks")
        .label_if(blocks_with_records.len() >= 5, "records-in>=5-blocks")
        .label_if(above_leaf, "record-above-leaf")
        .label_if(!tail.is_empty(), "unplaced-tail")
        .label_if(truth.iter().any(|t| t.flagged_unmapped && t.rid.is_some()), "placed-unmapped")
        .label_if(placed_unmapped_returned, "query_unmapped-returns-placed-unmapped")
        .label_if(v45, "vcf4.5-secondary-only")
        .label_if(g != Geometry::DEFAULT, "non-default-geometry")
        .label_if(truth.len() > 100, "records>100")
        .label_if(truth.is_empty(), "no-records")
        .label_if((0..c.set.n_ref as usize).any(|r| !truth.iter().any(|t| t.rid == Some(r))), "has-empty-reference")
        .label_if(truth.iter().filter_map(|t| t.rid).collect::<std::collections::BTreeSet<_>>().len() >= 2, "records-on>=2-references");
    for l in labels {
        p = p.label(l);
    }
    fails.finish(p)
}

// ------------------------------------------------------------------------------------------------
// synthetic (index level)
// ------------------------------------------------------------------------------------------------

#[derive(Clone, Debug, Serialize, Deserialize)]
pub struct SynCase {
    pub binned: bool,
    pub set: SortedSet,
    pub regions: Vec<RegionSpec>,
}

fn syn_strategy(tier: Tier) -> BoxedStrategy<SynCase> {
    let max_recs = tier.pick(30usize, 120usize);
    any::<bool>()
        .prop_flat_map(move |binned| {
            let geoms: &'static [Geometry] = if binned { &sorted::GEOMETRIES } else { &DEFAULT_ONLY };
            (Just(binned), sorted::sorted_set(geoms, max_recs))
        })
        .prop_flat_map(|(binned, set)| {
            let g = set.geom;
            (Just(binned), Just(set), sorted::region_specs(g, 16))
        })
        .prop_map(|(binned, set, regions)| SynCase { binned, set, regions })
        .boxed()
}

fn cov_contains(cov: &[(u64, u64)], c: (u64, u64)) -> bool {
    cov.iter().any(|&(a, b)| a <= c.0 && c.1 <= b)
}

fn check_synthetic(c: &SynCase) -> Verdict {
    let g = c.set.geom;
    let (sorted, truth) = sorted::bam_truth(&c.set);
    // consecutive chunks; record i occupies [at_i, at_{i+1})
    let mut at = 3u64 << 16;
    let chunks: Vec<(u64, u64)> = truth
        .iter()
        .map(|t| {
            let s = at;
            at += 40 + (t.idx as u64 * 37) % 300;
            (s, at)
        })
        .collect();
    let add = |ctx: Option<(usize, Position, Position, bool)>, ch: (u64, u64), lin: &mut Indexer<LinearIndex>, bin: &mut Indexer<BinnedIndex>| -> std::io::Result<()> {
        let chunk = Chunk::new(bgzf::VirtualPosition::from(ch.0), bgzf::VirtualPosition::from(ch.1));
        if c.binned { bin.add_record(ctx, chunk) } else { lin.add_record(ctx, chunk) }
    };
    let mut lin = Indexer::<LinearIndex>::default();
    let mut bin = Indexer::<BinnedIndex>::new(g.min_shift, g.depth);
    for (t, ch) in truth.iter().zip(&chunks) {
        let ctx = match (t.rid, t.span) {
            (Some(rid), Some((s, e))) => Some((rid, pos(s), pos(e), !t.flagged_unmapped)),
            _ => None,
        };
        add(ctx, *ch, &mut lin, &mut bin).map_err(|e| e1("c04.syn.indexer-error", format!("add_record: {e}")))?;
    }
    let mem = if c.binned { Ix::Binned(bin.build(c.set.n_ref as usize)) } else { Ix::Linear(lin.build(c.set.n_ref as usize)) };
    let file = match &mem {
        Ix::Binned(i) => {
            let mut w = csi::io::Writer::new(Vec::new());
            w.write_index(i).map_err(|e| e1("c04.syn.index-write-error", format!("{e}")))?;
            let buf = w.into_inner().finish().map_err(|e| e1("c04.syn.index-write-error", format!("{e}")))?;
            Ix::Binned(csi::io::Reader::new(&buf[..]).read_index().map_err(|e| e1("c04.syn.index-read-error", format!("{e}")))?)
        }
        Ix::Linear(i) => {
            let mut buf = Vec::new();
            bam::bai::io::Writer::new(&mut buf).write_index(i).map_err(|e| e1("c04.syn.index-write-error", format!("{e}")))?;
            Ix::Linear(bam::bai::io::Reader::new(&buf[..]).read_index().map_err(|e| e1("c04.syn.index-read-error", format!("{e}")))?)
        }
    };
    let span_list: Vec<(u64, u64)> = truth.iter().filter_map(|t| t.span).collect();
    let mut fails = Fails::new();
    let mut any_nonempty = false;
    let mut n_q = 0u64;
    for spec in &c.regions {
        let region = spec.resolve(&c.set, &sorted, &span_list);
        if region.is_empty_interval() {
            continue;
        }
        let rq = (region.start, region.end);
        let need: Vec<usize> = truth.iter().filter(|t| t.rid == Some(region.rid) && t.span.is_some_and(|s| spans::intersects(s, rq))).map(|t| t.idx).collect();
        any_nonempty |= !need.is_empty();
        for (variant, ix) in [("mem", &mem), ("file", &file)] {
            n_q += 1;
            let res = match ix {
                Ix::Linear(i) => i.query(region.rid, interval_of(&region)),
                Ix::Binned(i) => i.query(region.rid, interval_of(&region)),
            };
            let answer: Vec<(u64, u64)> = match res {
                Ok(v) => v.iter().map(|ch| (u64::from(ch.start()), u64::from(ch.end()))).collect(),
                Err(e) => {
                    fails.push(format!("c04.syn.{variant}.query-error"), format!("query {} failed: {e}", describe_region(&region)));
                    continue;
                }
            };
            let missing: Vec<usize> = need.iter().copied().filter(|&i| !cov_contains(&answer, chunks[i])).collect();
            if !missing.is_empty() {
                let start = region.start.unwrap_or(1);
                let m = ix.min_offset(region.rid, start).unwrap_or(0);
                let known = if ix.is_binned() {
                    let model = bin_model(g, truth.iter().map(|t| (t.rid, t.span, chunks[t.idx].0)), region.rid);
                    let omitted: Vec<(u64, u64)> = missing.iter().filter_map(|&i| truth[i].span.map(|(a, b)| (binning::reg2bin_1based(a, b, g.min_shift as u32, g.depth as u32), chunks[i].1))).collect();
                    classify_known_csi(variant, g, start, &model, m, &omitted)
                } else {
                    None
                };
                let sig = match known {
                    Some(class) => format!("c04.csi.{variant}.min-offset-prunes.{class}"),
                    None => format!("c04.syn.{}.{variant}.chunk-not-covered", if ix.is_binned() { "binned" } else { "linear" }),
                };
                let i0 = missing[0];
                fails.push(
                    sig,
                    format!(
                        "({},{}) {} index ({variant}): query {} → chunks {:?} (min_offset {m}); record #{i0} span {:?} chunk {:?} intersects the region but is not covered ({} such records)",
                        g.min_shift,
                        g.depth,
                        if ix.is_binned() { "binned" } else { "linear" },
                        describe_region(&region),
                        trunc(&format!("{answer:?}"), 300),
                        truth[i0].span,
                        chunks[i0],
                        missing.len()
                    ),
                );
            }
        }
    }
    let above_leaf = truth.iter().any(|t| t.span.is_some_and(|(s, e)| binning::bin_level(binning::reg2bin_1based(s, e, g.min_shift as u32, g.depth as u32), g.depth as u32) != Some(g.depth as u32)));
    fails.finish(
        Pass::new(any_nonempty && truth.len() >= 2, key_of(c))
            .evals(n_q.max(1))
            .label(if c.binned { "binned" } else { "linear" })
            .label_if(has_long_before_short(&truth, g), "long-before-short-in-leaf")
            .label_if(has_long_before_short(&truth, g) && !c.binned, "linear-index+long-before-short")
            .label_if(above_leaf, "record-above-leaf")
            .label_if(g != Geometry::DEFAULT, "non-default-geometry"),
    )
}

// keep the BGZF walker linked for the block statistics helper below
#[allow(dead_code)]
fn data_blocks(bytes: &[u8]) -> usize {
    bgzf_walk::walk(bytes).map(|m| m.iter().filter(|b| !b.data.is_empty()).count()).unwrap_or(0)
}

pub fn property() -> Property {
    Property {
        id: "C04",
        level: "exploration",
        rule: "coordinate-sorted record sets built from spans (edge-dense starts, short / window-crossing / very long spans, explicit long-before-short shapes, several references incl. empty ones, placed- and unplaced-unmapped reads) × block layout script × index kind {BAI, CSI(BCF), tabix, CSI(min_shift,depth) on BAM and BCF} × {index in memory, index written to a file and read back} × ≤12 regions (record-edge relative, bin aligned, whole reference, unbounded, beyond the end)",
        assumptions: vec![
            "oracle::spans encodes the SAM (POS + reference-consuming CIGAR length, ≥ 1) and VCF < 4.5 (INFO END else POS + len(REF) − 1) span rules correctly".into(),
            "the noodles BAM/VCF/BCF writers and plain readers are correct for the minimal records used (checked: a full scan returns the written identities, references and spans)".into(),
            "fileformat 4.5 files are only compared with scan+filter using noodles' own variant_end".into(),
            "an error (rather than an empty answer) for a tabix query naming a header contig without records is not judged".into(),
            "query_unmapped may additionally return placed reads flagged unmapped (the statement only excludes records not flagged unmapped)".into(),
        ],
        subs: vec![
            sub(
                "files",
                "non-trivial = some region with a non-empty expected answer and (records in ≥2 BGZF blocks or a record assigned above leaf level); one evaluation = one query",
                files_strategy,
                check_files,
                24_000,
                480_000,
            )
            .boxed(),
            sub("synthetic", "non-trivial = ≥2 records and some region with a non-empty expected answer; one evaluation = one index query", syn_strategy, check_synthetic, 200_000, 4_000_000).boxed(),
        ],
        max_parallel: 16,
    }
}
