//! C09 — VCF headers and records round-trip through text; the lazy `vcf::Record` agrees with the
//! eager `RecordBuf`; both report the same variant span.
//!
//! Oracles (record sub-check), for every record of a generated document:
//!   1. `Reader::read_record_buf(Writer::write_variant_record(x)) = x` under the normal form of
//!      `VarRecord::normalised(Target::VcfText)` (NaN as a class, REF IUPAC reduction, `[.]` ≡ `.`);
//!   2. an independent line parser written from the VCF grammar (tab / `;` / `=` / `,` / `:`
//!      splitting, percent-decoding, header-directed typing) reads the writer's line as `x` — this
//!      judges the writer alone, so a writer/reader pair that is wrong symmetrically is still seen;
//!   3. lazy `vcf::Record`: every accessor (trait sweep + `Info::get`, `Samples::select`,
//!      `Series::iter/get`, `Sample::get/get_index`) and `RecordBuf::try_from_variant_record` equal
//!      the eager parse; writing the lazy record reproduces the line;
//!   4. `variant_end` / `variant_span` agree between lazy, eager and input record, and equal the
//!      harness's own arithmetic in the unambiguous cases (`gen::var::harness_end`);
//!   5. `write(parse(line)) = line`.

use crate::engine::*;
use crate::ensure;
use crate::r#gen::var::{self, *};
use noodles_vcf as vcf;
use proptest::prelude::*;
use vcf::variant::io::Write as _;

// ------------------------------------------------------------------------------------------------
// header round trip
// ------------------------------------------------------------------------------------------------

fn header_strategy(tier: Tier) -> BoxedStrategy<VarHeader> {
    // Mode::vcf_full() draws IDX per header: none 50 %, natural 15 %, arbitrary 35 %
    var::header(tier, &Mode { extended_numbers_permille: 12, ..Mode::vcf_full() })
}

fn write_header_text(h: &vcf::Header) -> Result<Vec<u8>, Vec<Fail>> {
    let mut w = vcf::io::Writer::new(Vec::new());
    w.write_header(h).map_err(|e| vec![Fail::new("c09.header.write-error", format!("write_header: {e}"))])?;
    Ok(w.into_inner())
}

fn header_diff(a: &VarHeader, b: &VarHeader) -> String {
    macro_rules! cmp {
        ($f:ident) => {
            if a.$f != b.$f {
                return format!("{}: expected {} got {}", stringify!($f), trunc(&format!("{:?}", a.$f), 500), trunc(&format!("{:?}", b.$f), 500));
            }
        };
    }
    cmp!(minor);
    cmp!(infos);
    cmp!(filters);
    cmp!(formats);
    cmp!(alts);
    cmp!(contigs);
    cmp!(others);
    cmp!(samples);
    "equal".into()
}

fn check_header(c: &VarHeader) -> Verdict {
    let mut fails = Fails::new();
    let h = c.to_noodles().map_err(|e| vec![Fail::new(HARNESS_ERR, format!("model outside the builder domain: {e}"))])?;
    let built = VarHeader::from_noodles(&h);
    ensure!(built == c.normalised(), "c09.header.builder-model", "header built through the public builders does not show the model back: {}", header_diff(&c.normalised(), &built));
    let text = write_header_text(&h)?;
    let s = std::str::from_utf8(&text).map_err(|e| vec![Fail::new("c09.header.text-not-utf8", format!("{e}"))])?;
    ensure!(s.ends_with('\n') && s.lines().all(|l| l.starts_with('#')), "c09.header.text-shape", "header text has a line that does not start with '#' or lacks the final newline: {:?}", trunc(s, 400));
    ensure!(s.lines().next() == Some(&format!("##fileformat=VCFv4.{}", c.minor)[..]), "c09.header.fileformat-line", "first line is {:?}", s.lines().next());
    let extended = c.formats.iter().any(|d| matches!(d.number, Num::LA | Num::LR | Num::LG | Num::P | Num::M));

    let mut r = vcf::io::Reader::new(&text[..]);
    let parsed = match r.read_header() {
        Ok(p) => p,
        Err(e) => {
            let sig = if extended { "c09.header.format-number-code-unparsed" } else { "c09.header.parse-error" };
            return fail1(sig, format!("the reader rejects the writer's header text: {e}; text: {:?}", trunc(s, 600)));
        }
    };
    let back = VarHeader::from_noodles(&parsed);
    let want = c.normalised();
    if back != want {
        fails.push("c09.header.roundtrip", format!("parse(write(h)) != h: {}; text: {:?}", header_diff(&want, &back), trunc(s, 600)));
    } else if parsed != h {
        fails.push("c09.header.roundtrip-eq", "models are equal but noodles' Header values compare unequal".to_string());
    }
    // FromStr path
    match s.parse::<vcf::Header>() {
        Ok(p2) => {
            if p2 != parsed {
                fails.push("c09.header.fromstr-differs", format!("Header::from_str and Reader::read_header disagree: {}", header_diff(&back, &VarHeader::from_noodles(&p2))));
            }
        }
        Err(e) => fails.push("c09.header.fromstr-error", format!("Header::from_str rejects the text that read_header accepts: {e}")),
    }
    // write(parse(t)) = t
    let text2 = write_header_text(&parsed)?;
    if text2 != text {
        fails.push("c09.header.rewrite", format!("write(parse(t)) != t: {:?} vs {:?}", trunc(&String::from_utf8_lossy(&text2), 400), trunc(s, 400)));
    }
    // the reader must stop exactly after the header
    let mut rest = Vec::new();
    if std::io::Read::read_to_end(r.get_mut(), &mut rest).is_ok() && !rest.is_empty() {
        fails.push("c09.header.reader-position", format!("{} bytes left after read_header on a header-only text", rest.len()));
    }

    let maps = c.infos.len() + c.formats.len() + c.filters.len() + c.alts.len() + c.contigs.len() + c.others.len();
    let esc = |s: &str| s.contains('"') || s.contains('\\');
    let any_esc = c.infos.iter().chain(&c.formats).any(|d| esc(&d.description) || d.extra.iter().any(|(_, v)| esc(v))) || c.filters.iter().any(|d| esc(&d.description)) || c.alts.iter().any(|d| esc(&d.description));
    let nums: Vec<Num> = c.infos.iter().chain(&c.formats).map(|d| d.number).collect();
    let pass = Pass::new(maps >= 3, key_of(c))
        .label(["v4.2", "v4.3", "v4.4", "v4.5", "v?"][(c.minor as usize).saturating_sub(2).min(4)])
        .label_if(any_esc, "quote-or-backslash-in-string")
        .label_if(c.infos.iter().chain(&c.formats).any(|d| !d.extra.is_empty()), "extra-tags")
        .label_if(c.others.iter().any(|o| matches!(o.value, OtherValue::Text(_))), "other-unstructured")
        .label_if(c.others.iter().any(|o| matches!(o.value, OtherValue::Map { .. })), "other-structured")
        .label_if(c.others.iter().any(|o| o.key == "META"), "META")
        .label_if(c.others.iter().any(|o| o.key == "PEDIGREE"), "PEDIGREE")
        .label_if(has_idx(c), "idx-present")
        .label_if(!c.samples.is_empty(), "samples")
        .label_if(c.contigs.iter().any(|x| x.length.is_some() || x.md5.is_some() || x.url.is_some()), "contig-optional-fields")
        .label_if(nums.contains(&Num::A), "Number=A")
        .label_if(nums.contains(&Num::R), "Number=R")
        .label_if(nums.contains(&Num::G), "Number=G")
        .label_if(nums.contains(&Num::Unknown), "Number=.")
        .label_if(nums.contains(&Num::Count(0)), "Number=0")
        .label_if(nums.iter().any(|n| matches!(n, Num::Count(k) if *k >= 2)), "Number=n")
        .label_if(extended, "format-number-extended")
        .label_if(c.infos.iter().any(|d| reserved_info_def(c.minor.max(3), &d.id).is_some()), "reserved-info-id")
        .label_if(c.filters.iter().any(|d| d.id == "PASS"), "explicit-PASS-line")
        .label_if(maps == 0, "empty-header");
    fails.finish(pass)
}

const HARNESS_ERR: &str = "c09.harness.model-outside-domain";

// ------------------------------------------------------------------------------------------------
// independent line parser (VCF grammar; no noodles code)
// ------------------------------------------------------------------------------------------------

fn pct_decode(s: &str) -> Result<String, String> {
    let b = s.as_bytes();
    let mut out = Vec::with_capacity(b.len());
    let mut i = 0;
    let hex = |c: u8| (c as char).to_digit(16);
    while i < b.len() {
        if b[i] == b'%' && i + 2 < b.len() {
            if let (Some(h), Some(l)) = (hex(b[i + 1]), hex(b[i + 2])) {
                out.push((h * 16 + l) as u8);
                i += 3;
                continue;
            }
        }
        out.push(b[i]);
        i += 1;
    }
    String::from_utf8(out).map_err(|e| format!("percent-decoded bytes are not UTF-8: {e}"))
}

fn one_char(s: &str) -> Result<char, String> {
    let d = pct_decode(s)?;
    let mut it = d.chars();
    match (it.next(), it.next()) {
        (Some(c), None) => Ok(c),
        _ => Err(format!("{s:?} is not one (percent-encoded) character")),
    }
}

fn p_i32(s: &str) -> Result<i32, String> {
    s.parse::<i32>().map_err(|e| format!("integer {s:?}: {e}"))
}

fn p_f32(s: &str) -> Result<u32, String> {
    s.parse::<f32>().map(f32::to_bits).map_err(|e| format!("float {s:?}: {e}"))
}

fn arr<T>(s: &str, one: impl Fn(&str) -> Result<T, String>) -> Result<Vec<Option<T>>, String> {
    s.split(',').map(|e| if e == "." { Ok(None) } else { one(e).map(Some) }).collect()
}

fn indep_info_value(typing: Option<(Num, Ty)>, raw: Option<&str>) -> Result<Option<InfoValue>, String> {
    match (typing, raw) {
        (None, None) => Ok(Some(InfoValue::Flag)),
        (Some((_, Ty::Flag)), None) => Ok(Some(InfoValue::Flag)),
        (Some(_), None) => Err("typed non-Flag key without a value".into()),
        (_, Some(".")) => Ok(None),
        (None, Some(v)) => Ok(Some(InfoValue::String(pct_decode(v)?))),
        (Some((_, Ty::Flag)), Some(v)) => Err(format!("Flag with value {v:?}")),
        (Some((num, ty)), Some(v)) => {
            let scalar = num == Num::Count(1);
            Ok(Some(match (ty, scalar) {
                (Ty::Integer, true) => InfoValue::Integer(p_i32(v)?),
                (Ty::Float, true) => InfoValue::Float(p_f32(v)?),
                (Ty::Character, true) => InfoValue::Character(one_char(v)?),
                (Ty::String, true) => InfoValue::String(pct_decode(v)?),
                (Ty::Integer, false) => InfoValue::IntArray(arr(v, p_i32)?),
                (Ty::Float, false) => InfoValue::FloatArray(arr(v, p_f32)?),
                (Ty::Character, false) => InfoValue::CharArray(arr(v, one_char)?),
                (Ty::String, false) => InfoValue::StrArray(arr(v, pct_decode)?),
                (Ty::Flag, _) => unreachable!(),
            }))
        }
    }
}

fn indep_genotype(s: &str) -> Result<Vec<Allele>, String> {
    let mut alleles: Vec<(Option<u32>, Option<bool>)> = Vec::new();
    let mut cur = String::new();
    let mut pending: Option<bool> = None;
    let mut first = true;
    let flush = |cur: &mut String, ph: Option<bool>, out: &mut Vec<(Option<u32>, Option<bool>)>| -> Result<(), String> {
        let a = if cur == "." { None } else { Some(cur.parse::<u32>().map_err(|e| format!("allele {cur:?}: {e}"))?) };
        out.push((a, ph));
        cur.clear();
        Ok(())
    };
    for ch in s.chars() {
        if ch == '/' || ch == '|' {
            if first && cur.is_empty() {
                pending = Some(ch == '|');
            } else {
                flush(&mut cur, pending, &mut alleles)?;
                pending = Some(ch == '|');
            }
            first = false;
        } else {
            cur.push(ch);
            first = false;
        }
    }
    flush(&mut cur, pending, &mut alleles)?;
    let mut out: Vec<Allele> = alleles.iter().map(|(a, ph)| (*a, ph.unwrap_or(true))).collect();
    if alleles[0].1.is_none() {
        out[0].1 = implicit_first_phasing(&out);
    }
    Ok(out)
}

fn indep_sample_value(h: &VarHeader, key: &str, v: &str) -> Result<Option<SampleValue>, String> {
    if v == "." {
        return Ok(None);
    }
    if key == "GT" {
        return indep_genotype(v).map(|g| Some(SampleValue::Genotype(g)));
    }
    let (num, ty) = h.format_typing(key).unwrap_or((Num::Count(1), Ty::String));
    let scalar = num == Num::Count(1);
    Ok(Some(match (ty, scalar) {
        (Ty::Integer, true) => SampleValue::Integer(p_i32(v)?),
        (Ty::Float, true) => SampleValue::Float(p_f32(v)?),
        (Ty::Character, true) => SampleValue::Character(one_char(v)?),
        (Ty::String, true) | (Ty::Flag, true) => SampleValue::String(pct_decode(v)?),
        (Ty::Integer, false) => SampleValue::IntArray(arr(v, p_i32)?),
        (Ty::Float, false) => SampleValue::FloatArray(arr(v, p_f32)?),
        (Ty::Character, false) => SampleValue::CharArray(arr(v, one_char)?),
        (Ty::String, false) | (Ty::Flag, false) => SampleValue::StrArray(arr(v, pct_decode)?),
    }))
}

/// Parse one data line (without the newline) by the VCF grammar, typing values by `h`.
pub fn indep_parse_line(h: &VarHeader, line: &str) -> Result<VarRecord, String> {
    let f: Vec<&str> = line.split('\t').collect();
    let want = if h.samples.is_empty() { 8 } else { 9 + h.samples.len() };
    if f.len() != want {
        return Err(format!("{} tab-separated columns, the header implies {}", f.len(), want));
    }
    if f.iter().any(|x| x.is_empty()) {
        return Err("an empty column".into());
    }
    let list = |s: &str, d: char| -> Vec<String> { if s == "." { vec![] } else { s.split(d).map(String::from).collect() } };
    let mut info = Vec::new();
    if f[7] != "." {
        for field in f[7].split(';') {
            let (k, raw) = match field.split_once('=') {
                Some((k, v)) => (k, Some(v)),
                None => (field, None),
            };
            if k.is_empty() {
                return Err("INFO field without key".into());
            }
            info.push((k.to_string(), indep_info_value(h.info_typing(k), raw).map_err(|e| format!("INFO {k}: {e}"))?));
        }
    }
    let mut format = Vec::new();
    let mut samples = Vec::new();
    if !h.samples.is_empty() {
        format = list(f[8], ':');
        for (si, s) in f[9..].iter().enumerate() {
            let mut row = Vec::new();
            if *s != "." {
                let vals: Vec<&str> = s.split(':').collect();
                if vals.len() > format.len() {
                    return Err(format!("sample {si} has {} values for {} keys", vals.len(), format.len()));
                }
                for (k, v) in format.iter().zip(vals) {
                    if v.is_empty() {
                        return Err(format!("sample {si}: empty value for {k}"));
                    }
                    row.push(indep_sample_value(h, k, v).map_err(|e| format!("sample {si} {k}: {e}"))?);
                }
            }
            samples.push(row);
        }
    }
    Ok(VarRecord {
        chrom: f[0].to_string(),
        pos: f[1].parse::<u32>().map_err(|e| format!("POS {:?}: {e}", f[1]))?,
        ids: list(f[2], ';'),
        reference: f[3].to_string(),
        alts: list(f[4], ','),
        qual: if f[5] == "." { None } else { Some(p_f32(f[5])?) },
        filters: list(f[6], ';'),
        info,
        format,
        samples,
    })
}

// ------------------------------------------------------------------------------------------------
// record round trip
// ------------------------------------------------------------------------------------------------

fn doc_strategy(tier: Tier) -> BoxedStrategy<VarDoc> {
    // (VCF text has no gated value class; `hazard_permille` only concerns Target::Bcf)
    let full = Mode::vcf_full();
    let with_samples = Mode { samples: SamplesMode::Always, ..full.clone() };
    prop_oneof![2 => var::document(tier, &full), 1 => var::document(tier, &with_samples)].boxed()
}

fn field_sig(prefix: &str, field: &str) -> String {
    format!("{prefix}.{field}")
}

fn has_reserved_char(r: &VarRecord) -> bool {
    let bad_i = |c: &char| c.is_ascii_control() || matches!(c, ';' | '=' | '%' | ',' | '.');
    let bad_s = |c: &char| c.is_ascii_control() || matches!(c, ':' | '%' | ',' | '.');
    r.info.iter().any(|(_, v)| match v {
        Some(InfoValue::Character(c)) => bad_i(c),
        Some(InfoValue::CharArray(a)) => a.iter().flatten().any(bad_i),
        _ => false,
    }) || r.samples.iter().flatten().any(|v| match v {
        Some(SampleValue::Character(c)) => bad_s(c),
        Some(SampleValue::CharArray(a)) => a.iter().flatten().any(bad_s),
        _ => false,
    })
}

fn lazy_extra_sweep(header: &vcf::Header, lazy: &vcf::Record, eager: &VarRecord, fails: &mut Fails) {
    use vcf::variant::record::samples::Series as _;
    // Info::get for every key (and for an absent key)
    let info = lazy.info();
    for (k, v) in &eager.info {
        match info.get(header, k) {
            None => fails.push("c09.lazy.info-get", format!("Info::get({k:?}) = None for a key that iter() reports")),
            Some(Err(e)) => fails.push("c09.lazy.info-get", format!("Info::get({k:?}) = Err({e})")),
            Some(Ok(x)) => {
                let got = match x {
                    None => Ok(None),
                    Some(x) => InfoValue::from_lazy(&x).map(Some),
                };
                match got {
                    Ok(g) if &g == v => {}
                    Ok(g) => fails.push("c09.lazy.info-get", format!("Info::get({k:?}) = {g:?}, eager has {v:?}")),
                    Err(e) => fails.push("c09.lazy.info-get", format!("Info::get({k:?}) value: {e}")),
                }
            }
        }
    }
    if info.get(header, "\u{1}absent").is_some() {
        fails.push("c09.lazy.info-get", "Info::get of an absent key is Some".to_string());
    }
    // Samples::select / Series::iter / Series::get / Sample::get_index / Samples::get_index
    let samples = lazy.samples();
    let keys: Vec<&str> = samples.keys().iter().collect();
    if keys.iter().map(|s| s.to_string()).collect::<Vec<_>>() != eager.format {
        fails.push("c09.lazy.samples-keys", format!("Samples::keys() = {keys:?}, eager FORMAT = {:?}", eager.format));
        return;
    }
    for (ki, key) in eager.format.iter().enumerate() {
        let Some(series) = samples.select(key) else {
            fails.push("c09.lazy.samples-select", format!("select({key:?}) = None"));
            continue;
        };
        match series.name(header) {
            Ok(n) if n == key => {}
            other => fails.push("c09.lazy.samples-select", format!("select({key:?}).name() = {other:?}")),
        }
        let col: Vec<Result<Option<SampleValue>, String>> = series
            .iter(header)
            .map(|r| match r {
                Err(e) => Err(e.to_string()),
                Ok(None) => Ok(None),
                Ok(Some(v)) => SampleValue::from_lazy(&v).map(Some),
            })
            .collect();
        let want: Vec<Option<SampleValue>> = eager.samples.iter().map(|row| row.get(ki).cloned().flatten()).collect();
        let got: Result<Vec<Option<SampleValue>>, String> = col.into_iter().collect();
        match got {
            Ok(g) if g == want => {}
            Ok(g) => fails.push("c09.lazy.series-iter", format!("Series({key}).iter() = {} eager column = {}", trunc(&format!("{g:?}"), 300), trunc(&format!("{want:?}"), 300))),
            Err(e) => fails.push("c09.lazy.series-iter", format!("Series({key}).iter(): {e}")),
        }
        for (si, w) in want.iter().enumerate() {
            let g = match series.get(header, si) {
                None => Err("None".to_string()),
                Some(None) => Ok(None),
                Some(Some(Err(e))) => Err(e.to_string()),
                Some(Some(Ok(v))) => SampleValue::from_lazy(&v).map(Some),
            };
            // a dropped trailing field is reported as absent (None) by get(); the column view
            // shows it as missing
            let dropped = eager.samples[si].len() <= ki;
            match g {
                Ok(g) if &g == w => {}
                Err(ref e) if dropped && e == "None" => {}
                other => fails.push("c09.lazy.series-get", format!("Series({key}).get({si}) = {other:?}, eager = {w:?}")),
            }
        }
    }
    if samples.select("\u{1}absent").is_some() {
        fails.push("c09.lazy.samples-select", "select of an absent key is Some".to_string());
    }
    let n = samples.iter().count();
    if n != eager.samples.len() {
        fails.push("c09.lazy.samples-iter", format!("Samples::iter() yields {n} samples, eager has {}", eager.samples.len()));
    }
    for (si, row) in eager.samples.iter().enumerate() {
        let Some(sample) = samples.get_index(si) else {
            fails.push("c09.lazy.samples-get-index", format!("get_index({si}) = None"));
            continue;
        };
        for (ki, w) in row.iter().enumerate() {
            let g = match sample.get_index(header, ki) {
                None => Err("None".to_string()),
                Some(None) => Ok(None),
                Some(Some(Err(e))) => Err(e.to_string()),
                Some(Some(Ok(v))) => SampleValue::from_lazy(&v).map(Some),
            };
            match g {
                Ok(g) if &g == w => {}
                other => fails.push("c09.lazy.sample-get-index", format!("sample {si}.get_index({ki}) = {other:?}, eager = {w:?}")),
            }
        }
    }
    if samples.get_index(eager.samples.len()).is_some() && !eager.samples.is_empty() {
        fails.push("c09.lazy.samples-get-index", "get_index(len) is Some".to_string());
    }
}

fn end_of(r: &dyn vcf::variant::Record, h: &vcf::Header) -> (Result<u64, String>, Result<u64, String>) {
    (r.variant_end(h).map(|p| usize::from(p) as u64).map_err(|e| e.to_string()), r.variant_span(h).map(|s| s as u64).map_err(|e| e.to_string()))
}

fn check_doc(doc: &VarDoc) -> Verdict {
    let mut fails = Fails::new();
    let hm = &doc.header;
    let header = hm.to_noodles().map_err(|e| vec![Fail::new(HARNESS_ERR, e)])?;
    // write
    let mut w = vcf::io::Writer::new(Vec::new());
    w.write_header(&header).map_err(|e| vec![Fail::new("c09.header.write-error", format!("{e}"))])?;
    let mut line_bounds = Vec::new();
    let inputs: Vec<vcf::variant::RecordBuf> = doc.records.iter().map(|r| r.to_noodles()).collect();
    for (i, rb) in inputs.iter().enumerate() {
        let start = w.get_ref().len();
        if let Err(e) = w.write_variant_record(&header, rb) {
            let chain = std::error::Error::source(&e).map(|s| format!("{e}: {s}")).unwrap_or_else(|| e.to_string());
            return fail1("c09.record.write-rejected", format!("record {i}: the writer rejects a valid record: {chain}; canonical text {:?}", trunc(&canonical_text(&doc.records[i], hm), 400)));
        }
        line_bounds.push((start, w.get_ref().len()));
    }
    let text = w.into_inner();
    // read back
    let mut reader = vcf::io::Reader::new(&text[..]);
    let header2 = reader.read_header().map_err(|e| vec![Fail::new("c09.header.parse-error", format!("read_header on a document: {e}"))])?;
    let mut lazy_reader = vcf::io::Reader::new(&text[..]);
    let _ = lazy_reader.read_header().map_err(|e| vec![Fail::new("c09.header.parse-error", format!("{e}"))])?;
    // records are typed by the header that was read (what a user has); it must mean the same
    if VarHeader::from_noodles(&header2) != hm.normalised() {
        fails.push("c09.header.roundtrip", "header of the document does not round-trip (see the header sub-check)".to_string());
    }

    let mut labels: Vec<&'static str> = Vec::new();
    let mut nontrivial = false;
    // what a fresh buffer gives per record (None: rejected), for the reused-buffer pass below
    let mut fresh_eager: Vec<Option<VarRecord>> = Vec::new();
    let mut fresh_lazy: Vec<Option<VarRecord>> = Vec::new();
    for (i, model) in doc.records.iter().enumerate() {
        let want = model.normalised(Target::VcfText, hm);
        let (a, b) = line_bounds[i];
        let line_nl = &text[a..b];
        let line = match std::str::from_utf8(line_nl) {
            Ok(s) if s.ends_with('\n') && !s[..s.len() - 1].contains('\n') && !s.contains('\r') => &s[..s.len() - 1],
            _ => {
                fails.push("c09.writer.line-shape", format!("record {i}: written bytes are not one LF-terminated UTF-8 line: {:?}", trunc(&String::from_utf8_lossy(line_nl), 300)));
                break;
            }
        };
        let reserved_char = has_reserved_char(model);
        let empty_row = want.samples.iter().any(|r| r.is_empty());

        // oracle 2: independent parser on the writer's line
        match indep_parse_line(hm, line) {
            Ok(got) => {
                if let Some((field, msg)) = want.first_diff(&got) {
                    fails.push(field_sig("c09.writer", field), format!("record {i}: the written line does not say what the record holds (independent parser): {msg}; line {:?}", trunc(line, 400)));
                }
            }
            Err(e) => {
                fails.push("c09.writer.ungrammatical-line", format!("record {i}: the written line is not grammatical VCF: {e}; line {:?}", trunc(line, 400)));
            }
        }

        // oracle 1: eager read
        let mut rb = vcf::variant::RecordBuf::default();
        let eager = match reader.read_record_buf(&header2, &mut rb) {
            Ok(0) => {
                fails.push("c09.reader.early-eof", format!("record {i}: read_record_buf returned 0"));
                break;
            }
            Ok(_) => Some(VarRecord::from_record_buf(&rb)),
            Err(e) => {
                let chain = std::error::Error::source(&e).map(|s| format!("{e}: {s}")).unwrap_or_else(|| e.to_string());
                let sig = "c09.reader.rejects-written-line";
                fails.push(sig, format!("record {i}: read_record_buf rejects the writer's line: {chain}; line {:?}", trunc(line, 400)));
                None
            }
        };
        fresh_eager.push(eager.clone());
        if let Some(eager) = &eager {
            if let Some((field, msg)) = want.first_diff(&eager.normalised(Target::VcfText, hm)) {
                fails.push(field_sig("c09.roundtrip", field), format!("record {i}: parse(write(x)) != x: {msg}; line {:?}", trunc(line, 400)));
            }
            // oracle 5: write(parse(line)) = line
            let mut w2 = vcf::io::Writer::new(Vec::new());
            match w2.write_variant_record(&header2, &rb) {
                Ok(()) => {
                    if w2.get_ref() != line_nl {
                        fails.push("c09.rewrite", format!("record {i}: write(parse(line)) != line: {:?} vs {:?}", trunc(&String::from_utf8_lossy(w2.get_ref()), 300), trunc(line, 300)));
                    }
                }
                Err(e) => fails.push("c09.rewrite", format!("record {i}: the parsed record cannot be written: {e}")),
            }
        }

        // oracle 3: lazy record on the same line
        let mut lazy = vcf::Record::default();
        match lazy_reader.read_record(&mut lazy) {
            Ok(0) => {
                fails.push("c09.reader.early-eof", format!("record {i}: read_record returned 0"));
                break;
            }
            Err(e) => {
                fails.push("c09.lazy.read-error", format!("record {i}: read_record: {e}"));
                break;
            }
            Ok(n) => {
                if n != line_nl.len() {
                    fails.push("c09.lazy.read-count", format!("record {i}: read_record returned {n}, the line has {} bytes", line_nl.len()));
                }
            }
        }
        let lazy_model = VarRecord::from_variant_record(&header2, &lazy);
        fresh_lazy.push(lazy_model.as_ref().ok().cloned());
        match lazy_model {
            Ok(lz) => {
                // the lazy view decodes lazily: compare with the eager parse when there is one,
                // else with the input
                let reference = eager.clone().unwrap_or_else(|| want.clone());
                if let Some((field, msg)) = reference.normalised(Target::VcfText, hm).first_diff(&lz.normalised(Target::VcfText, hm)) {
                    fails.push(field_sig("c09.lazy-vs-eager", field), format!("record {i}: lazy accessors differ from the eager parse: {msg}; line {:?}", trunc(line, 400)));
                } else if let Some(e) = &eager {
                    // exact agreement (no normal form) between the two views of the same bytes
                    if e != &lz && e.normalised(Target::VcfText, hm) == lz.normalised(Target::VcfText, hm) {
                        // only NaN payloads / `[.]` can differ here, and both come from the same text
                        if let Some((field, msg)) = e.first_diff(&lz) {
                            let benign = field == "info-value" || field == "sample-value" || field == "sample-row-len";
                            if !benign {
                                fails.push(field_sig("c09.lazy-vs-eager", field), format!("record {i}: {msg}"));
                            }
                        }
                    }
                }
                if let Some(e) = &eager {
                    lazy_extra_sweep(&header2, &lazy, e, &mut fails);
                }
            }
            Err(e) => {
                fails.push("c09.lazy.accessor-error", format!("record {i}: a lazy accessor fails on the writer's line: {e}; line {:?}", trunc(line, 400)));
            }
        }
        match vcf::variant::RecordBuf::try_from_variant_record(&header2, &lazy) {
            Ok(conv) => {
                if let Some(e) = &eager {
                    if let Some((field, msg)) = e.first_diff(&VarRecord::from_record_buf(&conv)) {
                        // NaN != NaN bitwise cannot happen here: both are parsed from the same text
                        fails.push(field_sig("c09.lazy-convert", field), format!("record {i}: RecordBuf::try_from_variant_record(lazy) != eager parse: {msg}"));
                    }
                }
            }
            Err(e) => {
                if eager.is_some() {
                    fails.push("c09.lazy-convert.error", format!("record {i}: try_from_variant_record fails where read_record_buf succeeds: {e}"));
                }
            }
        }
        let mut w3 = vcf::io::Writer::new(Vec::new());
        match w3.write_record(&header2, &lazy) {
            Ok(()) => {
                if w3.get_ref() != line_nl {
                    fails.push("c09.lazy.rewrite", format!("record {i}: writing the lazy record gives {:?}, the line was {:?}", trunc(&String::from_utf8_lossy(w3.get_ref()), 300), trunc(line, 300)));
                }
            }
            Err(e) => {
                if eager.is_some() {
                    fails.push("c09.lazy.rewrite", format!("record {i}: writing the lazy record fails: {e}"));
                }
            }
        }

        // oracle 4: spans
        let (in_end, in_span) = end_of(&inputs[i], &header);
        let (lz_end, lz_span) = end_of(&lazy, &header2);
        if let Some(_) = &eager {
            let (eg_end, eg_span) = end_of(&rb, &header2);
            if eg_end.as_ref().ok() != lz_end.as_ref().ok() || eg_end.is_ok() != lz_end.is_ok() {
                fails.push("c09.span.lazy-vs-eager", format!("record {i}: variant_end eager={eg_end:?} lazy={lz_end:?}; line {:?}", trunc(line, 300)));
            }
            if eg_span.as_ref().ok() != lz_span.as_ref().ok() || eg_span.is_ok() != lz_span.is_ok() {
                fails.push("c09.span.lazy-vs-eager", format!("record {i}: variant_span eager={eg_span:?} lazy={lz_span:?}"));
            }
            if eg_end.as_ref().ok() != in_end.as_ref().ok() {
                fails.push("c09.span.input-vs-read", format!("record {i}: variant_end input={in_end:?} read back={eg_end:?}"));
            }
        }
        if let Some(h_end) = harness_end(model, hm) {
            let h_span = h_end as i64 - model.pos.max(1) as i64 + 1;
            for (who, e, s) in [("input", &in_end, &in_span), ("lazy", &lz_end, &lz_span)] {
                if e.as_ref().ok() != Some(&h_end) {
                    fails.push("c09.span.end", format!("record {i}: variant_end of the {who} record = {e:?}, expected {h_end} (POS {} REF {:?} fileformat 4.{})", model.pos, trunc(&model.reference, 40), hm.minor));
                } else if s.as_ref().ok().map(|x| *x as i64) != Some(h_span) {
                    fails.push("c09.span.span", format!("record {i}: variant_span of the {who} record = {s:?}, expected {h_span}"));
                }
            }
        }

        // accounting
        nontrivial |= !model.info.is_empty() || !model.samples.is_empty();
        let mut l = |c: bool, s: &'static str| {
            if c && !labels.contains(&s) {
                labels.push(s);
            }
        };
        l(model.pos == 0, "pos-telomere");
        l(model.ids.len() >= 2, "ids>=2");
        l(model.alts.is_empty(), "alt-missing");
        l(model.alts.len() >= 2, "alt>=2");
        l(model.alts.iter().any(|a| a.starts_with('<')), "alt-symbolic");
        l(model.alts.iter().any(|a| a.contains('[') || a.contains(']')), "alt-breakend");
        l(model.qual.map(|b| f32::from_bits(b).is_nan()).unwrap_or(false), "qual-nan");
        l(model.qual.map(|b| f32::from_bits(b).is_infinite()).unwrap_or(false), "qual-inf");
        l(model.qual.is_none(), "qual-missing");
        l(model.filters.is_empty(), "filter-missing");
        l(model.filters == ["PASS"], "filter-pass");
        l(model.filters.len() >= 2, "filters>=2");
        l(model.info.is_empty(), "info-missing");
        l(model.info.iter().any(|(_, v)| v.is_none()), "info-value-missing");
        l(model.info.iter().any(|(_, v)| matches!(v, Some(InfoValue::Flag))), "info-flag");
        l(model.info.iter().any(|(k, _)| hm.info(k).is_none()), "info-undeclared-key");
        l(model.info.iter().any(|(k, _)| hm.info(k).is_none() && reserved_info_def(hm.minor, k).is_some()), "info-reserved-undeclared");
        l(model.info.iter().any(|(_, v)| matches!(v, Some(InfoValue::IntArray(a)) if a.iter().any(|x| x.is_none()))), "info-array-missing-element");
        l(model.info.iter().any(|(_, v)| matches!(v, Some(InfoValue::StrArray(_)))), "info-string-array");
        l(model.info.iter().any(|(_, v)| matches!(v, Some(InfoValue::CharArray(_)) | Some(InfoValue::Character(_)))), "info-character");
        l(model.info.iter().any(|(_, v)| matches!(v, Some(InfoValue::FloatArray(_)) | Some(InfoValue::Float(_)))), "info-float");
        let strs = || {
            model
                .info
                .iter()
                .flat_map(|(_, v)| match v {
                    Some(InfoValue::String(s)) => vec![s.clone()],
                    Some(InfoValue::StrArray(a)) => a.iter().flatten().cloned().collect(),
                    _ => vec![],
                })
                .chain(model.samples.iter().flatten().flat_map(|v| match v {
                    Some(SampleValue::String(s)) => vec![s.clone()],
                    Some(SampleValue::StrArray(a)) => a.iter().flatten().cloned().collect(),
                    _ => vec![],
                }))
        };
        l(strs().any(|s| s.contains('%')), "string-with-percent");
        l(strs().any(|s| s.contains(';') || s.contains('=') || s.contains(',') || s.contains(':')), "string-with-delimiter");
        l(strs().any(|s| s.chars().any(|c| c.is_ascii_control())), "string-with-control");
        l(strs().any(|s| !s.is_ascii()), "string-non-ascii");
        l(strs().any(|s| s == "."), "string-lone-dot");
        l(reserved_char, "character-needs-percent-encoding");
        l(empty_row, "sample-column-dot");
        l(!model.samples.is_empty(), "samples");
        l(hm.samples.is_empty(), "no-samples");
        l(model.format.first().map(|k| k == "GT").unwrap_or(false), "GT");
        l(model.samples.iter().any(|r| r.len() < model.format.len() && !r.is_empty()), "trailing-fields-dropped");
        l(model.samples.iter().flatten().any(|v| v.is_none()), "sample-value-missing");
        let gts = || model.samples.iter().flatten().filter_map(|v| if let Some(SampleValue::Genotype(g)) = v { Some(g) } else { None });
        l(gts().any(|g| g.len() == 1), "gt-haploid");
        l(gts().any(|g| g.len() >= 3), "gt-ploidy>=3");
        l(gts().any(|g| g.iter().any(|a| a.0.is_none())), "gt-missing-allele");
        l(gts().any(|g| g.len() >= 2 && g.iter().skip(1).any(|a| a.1) && g.iter().skip(1).any(|a| !a.1)), "gt-mixed-phasing");
        l(hm.minor >= 4 && gts().any(|g| g[0].1 != implicit_first_phasing(g)), "gt-explicit-first-phasing");
        l(model.info.iter().any(|(k, _)| k == "END"), "END");
        l(model.info.iter().any(|(k, _)| k == "SVLEN"), "SVLEN");
        l(model.reference != want.reference, "ref-iupac");
        l(hm.minor == 5 && (model.info.iter().any(|(k, _)| k == "SVLEN") || model.format.iter().any(|k| k == "LEN")), "v4.5-svlen-or-len");
    }
    // oracle 6: one buffer reused for the whole file (what `record_bufs()`, `records()` and every
    // read loop do) gives what a fresh buffer gives, record by record
    if fresh_eager.len() == doc.records.len() && fresh_lazy.len() == doc.records.len() && doc.records.len() >= 2 {
        let mut r2 = vcf::io::Reader::new(&text[..]);
        let mut r3 = vcf::io::Reader::new(&text[..]);
        let mut r4 = vcf::io::Reader::new(&text[..]);
        if r2.read_header().is_ok() && r3.read_header().is_ok() && r4.read_header().is_ok() {
            let mut rb = vcf::variant::RecordBuf::default();
            let mut lz = vcf::Record::default();
            let mut it = r4.record_bufs(&header2);
            for i in 0..doc.records.len() {
                let got = match r2.read_record_buf(&header2, &mut rb) {
                    Ok(0) => {
                        fails.push("c09.reuse.eager", format!("record {i}: read_record_buf into a reused buffer returns 0"));
                        break;
                    }
                    Ok(_) => Some(VarRecord::from_record_buf(&rb)),
                    Err(_) => None,
                };
                match (&got, &fresh_eager[i]) {
                    (Some(g), Some(f)) => {
                        if let Some((field, msg)) = f.first_diff(g) {
                            fails.push(field_sig("c09.reuse.eager", field), format!("record {i}: read_record_buf into the buffer that held record {} differs from a read into a fresh buffer: {msg} (left = fresh, right = reused)", i - i.min(1)));
                        }
                    }
                    (None, None) => {}
                    (g, f) => fails.push("c09.reuse.eager-outcome", format!("record {i}: reused buffer accepted = {}, fresh buffer accepted = {}", g.is_some(), f.is_some())),
                }
                match it.next() {
                    Some(Ok(x)) => {
                        if let Some(f) = &fresh_eager[i] {
                            if let Some((field, msg)) = f.first_diff(&VarRecord::from_record_buf(&x)) {
                                fails.push(field_sig("c09.reuse.record-bufs", field), format!("record {i}: record_bufs() item differs from a read into a fresh buffer: {msg} (left = fresh, right = iterator)"));
                            }
                        } else {
                            fails.push("c09.reuse.eager-outcome", format!("record {i}: record_bufs() accepts what a fresh read_record_buf rejects"));
                        }
                    }
                    Some(Err(_)) => {
                        if fresh_eager[i].is_some() {
                            fails.push("c09.reuse.eager-outcome", format!("record {i}: record_bufs() rejects what a fresh read_record_buf accepts"));
                        }
                    }
                    None => fails.push("c09.reuse.record-bufs", format!("record {i}: record_bufs() ends early")),
                }
                match r3.read_record(&mut lz) {
                    Ok(0) | Err(_) => {
                        fails.push("c09.reuse.lazy", format!("record {i}: read_record into a reused record fails or returns 0"));
                        break;
                    }
                    Ok(_) => {}
                }
                match (VarRecord::from_variant_record(&header2, &lz).ok(), &fresh_lazy[i]) {
                    (Some(g), Some(f)) => {
                        if let Some((field, msg)) = f.first_diff(&g) {
                            fails.push(field_sig("c09.reuse.lazy", field), format!("record {i}: the reused lazy record differs from a fresh one: {msg} (left = fresh, right = reused)"));
                        }
                    }
                    (None, None) => {}
                    (g, f) => fails.push("c09.reuse.lazy-outcome", format!("record {i}: reused lazy record decodes = {}, fresh = {}", g.is_some(), f.is_some())),
                }
            }
        }
    }
    // after the last record both readers are at EOF
    if fails.is_empty() {
        let mut rb = vcf::variant::RecordBuf::default();
        match reader.read_record_buf(&header2, &mut rb) {
            Ok(0) => {}
            other => fails.push("c09.reader.trailing", format!("after the last record read_record_buf returns {other:?}")),
        }
    }
    let mut pass = Pass::new(nontrivial, key_of(doc)).label(["v4.2", "v4.3", "v4.4", "v4.5", "v?"][(hm.minor as usize).saturating_sub(2).min(4)]).evals(doc.records.len().max(1) as u64);
    for s in labels {
        pass = pass.label(s);
    }
    pass = pass.label_if(doc.records.is_empty(), "header-only");
    fails.finish(pass)
}

/// The contract of `Mode::vcf_safe()` towards the other properties that reuse the generator: such
/// documents pass every oracle above on the pinned tree — known findings included (their
/// signatures are re-labelled so that the known-findings list does not excuse them here).
fn safe_strategy(tier: Tier) -> BoxedStrategy<VarDoc> {
    var::document(tier, &Mode::vcf_safe())
}

fn check_safe(doc: &VarDoc) -> Verdict {
    check_doc(doc).map_err(|fails| fails.into_iter().map(|f| Fail::new(format!("c09.safe-domain:{}", f.sig), f.msg)).collect())
}

pub fn property() -> Property {
    Property {
        id: "C09",
        level: "exploration",
        rule: "VCF headers (fileformat 4.2–4.5; INFO/FORMAT with every Number×Type and reserved ids, FILTER, ALT, contig, other/META/PEDIGREE lines, extra tags, optional IDX, samples) and records consistent with them (gen::var, Mode::vcf_full)",
        assumptions: vec![
            "the harness's own line parser (props/c09.rs, written from the VCF grammar) and span arithmetic (gen::var::harness_end) are correct".into(),
            "Rust's std float parsing/formatting is correct (used by both noodles and the independent parser)".into(),
            "normal forms: NaN payload/sign not representable in text; `[.]` ≡ `.`; REF IUPAC codes reduced as VCF §1.6.1.4 prescribes; first-allele phasing implicit before 4.4".into(),
        ],
        subs: vec![
            sub("header", "non-trivial = ≥3 structured lines; distinct by hash of the header model", header_strategy, check_header, 80_000, 1_000_000).boxed(),
            sub(
                "records",
                "one case = header + 0..10 records, each record is one evaluation; non-trivial = some record has an INFO field or sample columns; distinct by hash of the document",
                doc_strategy,
                check_doc,
                60_000,
                800_000,
            )
            .boxed(),
            sub("safe_domain", "documents of Mode::vcf_safe() (what other properties reuse): must pass all record oracles with no known finding; non-trivial as in `records`", safe_strategy, check_safe, 12_000, 120_000).boxed(),
        ],
        max_parallel: 16,
    }
}
