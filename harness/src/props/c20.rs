//! C20 — format autodetection picks the written format; conversions keep content.
//!
//! Alignment: {SAM, SAM.gz, BAM, CRAM}; variant: {VCF, VCF.gz, BCF} — the full set of pairs is
//! enumerated per generated document. (1) the stream the generic writer produces starts with the
//! magic of the requested format/compression (independent check); (2) the generic reader, given only
//! the bytes, returns the written header and records — a mis-detection cannot produce equal records,
//! so equality decides detection; (3) reader(A) piped into writer(B) and read back (again by
//! detection) preserves every record at the SAM / VCF data-model level.

use crate::engine::*;
use crate::r#gen::cram as gcram;
use crate::r#gen::var as gvar;
use noodles_sam as sam;
use noodles_util::{alignment, variant};
use noodles_vcf as vcf;
use proptest::prelude::*;
use serde::{Deserialize, Serialize};
use std::io;

// ---------------------------------------------------------------------------------------------
// alignment

#[derive(Clone, Copy, Debug, PartialEq, Eq)]
pub enum AFmt {
    Sam,
    SamGz,
    Bam,
    Cram,
}

pub const AFMTS: [AFmt; 4] = [AFmt::Sam, AFmt::SamGz, AFmt::Bam, AFmt::Cram];

impl AFmt {
    pub fn name(self) -> &'static str {
        match self {
            AFmt::Sam => "sam",
            AFmt::SamGz => "sam.gz",
            AFmt::Bam => "bam",
            AFmt::Cram => "cram",
        }
    }
}

#[derive(Clone, Debug, Serialize, Deserialize)]
pub struct AlnCase {
    pub doc: gcram::CramDoc,
    /// empty header and no records (the degenerate file of every format)
    pub empty: bool,
}

pub fn write_aln(fmt: AFmt, header: &sam::Header, records: &[Box<dyn sam::alignment::Record>], repo: &noodles_fasta::Repository) -> io::Result<Vec<u8>> {
    let mut out = Vec::new();
    {
        let b = alignment::io::writer::Builder::default().set_reference_sequence_repository(repo.clone());
        let b = match fmt {
            AFmt::Sam => b.set_format(alignment::io::Format::Sam).set_compression_method(None),
            AFmt::SamGz => b.set_format(alignment::io::Format::Sam).set_compression_method(Some(alignment::io::CompressionMethod::Bgzf)),
            AFmt::Bam => b.set_format(alignment::io::Format::Bam).set_compression_method(Some(alignment::io::CompressionMethod::Bgzf)),
            AFmt::Cram => b.set_format(alignment::io::Format::Cram).set_compression_method(None),
        };
        let mut w = b.build_from_writer(&mut out)?;
        w.write_header(header)?;
        for r in records {
            w.write_record(header, r)?;
        }
        w.finish(header)?;
    }
    Ok(out)
}

pub fn read_aln(bytes: &[u8], repo: &noodles_fasta::Repository) -> io::Result<(sam::Header, Vec<sam::alignment::RecordBuf>)> {
    read_aln_from(bytes, repo)
}

pub fn read_aln_from<R: io::Read>(src: R, repo: &noodles_fasta::Repository) -> io::Result<(sam::Header, Vec<sam::alignment::RecordBuf>)> {
    // no format, no compression method: detection from the leading bytes alone
    let mut r = alignment::io::reader::Builder::default().set_reference_sequence_repository(repo.clone()).build_from_reader(src)?;
    let header = r.read_header()?;
    let mut v = Vec::new();
    for rec in r.records(&header) {
        let rec = rec?;
        v.push(sam::alignment::RecordBuf::try_from_alignment_record(&header, rec.as_ref())?);
    }
    Ok((header, v))
}

/// The other read API of the generic reader: `read_record` into one reused `alignment::Record`,
/// decoded through the record trait.
fn read_aln_lazy(bytes: &[u8], repo: &noodles_fasta::Repository) -> io::Result<Vec<sam::alignment::RecordBuf>> {
    let mut r = alignment::io::reader::Builder::default().set_reference_sequence_repository(repo.clone()).build_from_reader(bytes)?;
    let header = r.read_header()?;
    let mut rec = alignment::Record::default();
    let mut v = Vec::new();
    while r.read_record(&header, &mut rec)? != 0 {
        v.push(sam::alignment::RecordBuf::try_from_alignment_record(&header, &rec)?);
    }
    Ok(v)
}

/// A source that hands the file over in short reads (the first ones 1–5 bytes): what a pipe or a
/// socket does. Detection looks at the leading bytes only.
pub fn short_reads(bytes: &[u8], sel: u64) -> crate::io_adv::chunk::ChunkRead {
    use crate::io_adv::chunk::{ChunkRead, ReadScript};
    let sizes: Vec<u32> = match sel % 4 {
        0 => vec![1],
        1 => vec![2, 70_000],
        2 => vec![3, 1, 70_000],
        _ => vec![5, 70_000],
    };
    ChunkRead::new(std::sync::Arc::new(bytes.to_vec()), ReadScript { sizes, cuts: vec![], interrupts: vec![] })
}

fn magic_ok(fmt: AFmt, bytes: &[u8]) -> bool {
    match fmt {
        AFmt::Sam => bytes.is_empty() || bytes[0] == b'@' || !bytes.starts_with(&[0x1f, 0x8b]),
        AFmt::SamGz | AFmt::Bam => bytes.starts_with(&[0x1f, 0x8b, 0x08, 0x04]),
        AFmt::Cram => bytes.starts_with(b"CRAM"),
    }
}

fn dict_of(h: &sam::Header) -> Vec<(String, usize)> {
    h.reference_sequences().iter().map(|(n, m)| (n.to_string(), usize::from(m.length()))).collect()
}

fn check_aln(c: &AlnCase) -> Verdict {
    let mut doc = c.doc.clone();
    // the generic writer cannot set records per slice: one slice holds everything
    doc.opts.records_per_slice = 0;
    doc.opts.enc = None;
    let n = doc.to_noodles();
    let (header, mut input): (sam::Header, Vec<sam::alignment::RecordBuf>) = if c.empty { (sam::Header::default(), Vec::new()) } else { (n.header.clone(), n.records.clone()) };
    // stay inside what every one of the four formats can represent (SAM text is the narrowest):
    // finite floats; a one-base read whose only quality is 9 would render as "*" (= missing)
    for r in input.iter_mut() {
        use sam::alignment::record_buf::data::field::Value;
        use sam::alignment::record_buf::data::field::value::Array;
        let q = r.quality_scores().as_ref().to_vec();
        if q == [9] {
            *r.quality_scores_mut() = vec![10u8].into();
        }
        let keys: Vec<_> = r.data().iter().map(|(t, _)| t).collect();
        // CG is reserved for BAM's real-CIGAR convention (the BAM encoder drops a user-supplied one)
        if let Some(cg) = keys.iter().find(|k| k.as_ref() == b"CG") {
            r.data_mut().remove(cg);
        }
        for k in keys {
            match r.data_mut().get_mut(&k) {
                Some(Value::Float(f)) if !f.is_finite() => *f = 0.5,
                Some(Value::Array(Array::Float(v))) => {
                    for x in v.iter_mut() {
                        if !x.is_finite() {
                            *x = 0.25;
                        }
                    }
                }
                _ => {}
            }
        }
    }
    let hz = gcram::hazards(&doc, &n.flat);
    let want: Vec<gcram::Canon> = input.iter().map(gcram::canon_of_record).collect();
    let mut fails = Fails::new();
    let mut evals = 0u64;
    let boxed = |v: &[sam::alignment::RecordBuf]| -> Vec<Box<dyn sam::alignment::Record>> { v.iter().map(|r| Box::new(r.clone()) as Box<dyn sam::alignment::Record>).collect() };
    let compare = |got_h: &sam::Header, got: &[sam::alignment::RecordBuf], what: &str, involves_cram: bool, fails: &mut Fails| {
        // CRAM recomputes mate fields / TLEN for the listed in-slice chain classes (C07 findings)
        let relaxed = involves_cram && hz.any();
        if dict_of(got_h) != dict_of(&header) {
            fails.push(format!("c20.header.dictionary:{what}"), format!("reference dictionary read back {:?}, written {:?}", dict_of(got_h), dict_of(&header)));
        }
        if !involves_cram {
            let rg = |h: &sam::Header| -> Vec<String> { h.read_groups().keys().map(|k| k.to_string()).collect() };
            if rg(got_h) != rg(&header) {
                fails.push(format!("c20.header.read-groups:{what}"), format!("read groups read back {:?}, written {:?}", rg(got_h), rg(&header)));
            }
            if got_h.comments().len() != header.comments().len() {
                fails.push(format!("c20.header.comments:{what}"), format!("{} comments read back, {} written", got_h.comments().len(), header.comments().len()));
            }
        }
        if got.len() != want.len() {
            fails.push(format!("c20.records.count:{what}"), format!("{} records read back, {} written", got.len(), want.len()));
            return;
        }
        for (i, (g, w)) in got.iter().zip(want.iter()).enumerate() {
            let mut gc = gcram::canon_of_record(g);
            let mut wc = w.clone();
            // SAM text does not carry the storage width of integer tags: compare them by value
            for x in [&mut gc, &mut wc] {
                for (_, v) in x.aux.iter_mut() {
                    let n: Option<i64> = match v {
                        gcram::AuxVal::I8(a) => Some(*a as i64),
                        gcram::AuxVal::U8(a) => Some(*a as i64),
                        gcram::AuxVal::I16(a) => Some(*a as i64),
                        gcram::AuxVal::U16(a) => Some(*a as i64),
                        gcram::AuxVal::I32(a) => Some(*a as i64),
                        gcram::AuxVal::U32(a) => Some(*a as i64),
                        _ => None,
                    };
                    if let Some(n) = n {
                        *v = gcram::AuxVal::Z(format!("int:{n}"));
                    }
                }
            }
            if relaxed {
                for x in [&mut gc, &mut wc] {
                    x.tlen = 0;
                    x.mate_ref_id = None;
                    x.mate_start = None;
                    x.flags &= !(0x20 | 0x8);
                    x.name = None;
                }
            }
            if gc != wc {
                fails.push(format!("c20.record.differs:{what}"), format!("record {i}: read back {} | written {}", trunc(&gcram::canonical_text(&gc), 500), trunc(&gcram::canonical_text(&wc), 500)));
                return;
            }
        }
    };
    let mut files: Vec<(AFmt, Vec<u8>)> = Vec::new();
    for fmt in AFMTS {
        evals += 1;
        match write_aln(fmt, &header, &boxed(&input), &n.repository) {
            Err(e) => {
                if fmt == AFmt::Cram && hz.any() {
                    continue; // validated rejection of a listed hazard class
                }
                fails.push(format!("c20.write-error:{}", fmt.name()), format!("generic writer failed: {e}"));
            }
            Ok(bytes) => {
                if !magic_ok(fmt, &bytes) {
                    fails.push(format!("c20.wrong-magic:{}", fmt.name()), format!("requested {} but the stream starts with {:02x?}", fmt.name(), &bytes[..bytes.len().min(8)]));
                }
                match read_aln(&bytes, &n.repository) {
                    Err(e) => fails.push(format!("c20.detect-or-read-error:{}{}", fmt.name(), if c.empty { ":empty" } else { "" }), format!("generic reader failed on the generic writer's own {} output ({} bytes): {e}", fmt.name(), bytes.len())),
                    Ok((h, recs)) => {
                        compare(&h, &recs, &format!("{}{}", fmt.name(), if c.empty { ":empty" } else { "" }), fmt == AFmt::Cram, &mut fails);
                        // the same file through `read_record` (one reused generic record)
                        let canon = |v: &[sam::alignment::RecordBuf]| -> Vec<gcram::Canon> { v.iter().map(gcram::canon_of_record).collect() };
                        match read_aln_lazy(&bytes, &n.repository) {
                            Err(e) => fails.push(format!("c20.read-record-error:{}", fmt.name()), format!("Reader::read_record fails where records() succeeds: {e}")),
                            Ok(lz) => {
                                let (a, b) = (canon(&recs), canon(&lz));
                                if a != b {
                                    let i = a.iter().zip(b.iter()).position(|(x, y)| x != y).unwrap_or(a.len().min(b.len()));
                                    fails.push(
                                        format!("c20.read-record-differs:{}", fmt.name()),
                                        format!("record {i}: records() gives {} | read_record gives {}", a.get(i).map(|x| trunc(&gcram::canonical_text(x), 400)).unwrap_or("<none>".into()), b.get(i).map(|x| trunc(&gcram::canonical_text(x), 400)).unwrap_or("<none>".into())),
                                    );
                                }
                            }
                        }
                        files.push((fmt, bytes));
                    }
                }
            }
        }
    }
    // conversions: reader(A) piped into writer(B)
    for (a, bytes) in &files {
        for b in AFMTS {
            if *a == b {
                continue;
            }
            evals += 1;
            let piped = (|| -> io::Result<Vec<u8>> {
                let mut r = alignment::io::reader::Builder::default().set_reference_sequence_repository(n.repository.clone()).build_from_reader(&bytes[..])?;
                let h = r.read_header()?;
                let recs: Vec<Box<dyn sam::alignment::Record>> = r.records(&h).collect::<io::Result<_>>()?;
                write_aln(b, &h, &recs, &n.repository)
            })();
            let what = format!("{}->{}{}", a.name(), b.name(), if c.empty { ":empty" } else { "" });
            match piped {
                Err(e) => {
                    if b == AFmt::Cram && hz.any() {
                        continue;
                    }
                    fails.push(format!("c20.convert-error:{what}"), format!("{e}"));
                }
                Ok(out) => match read_aln(&out, &n.repository) {
                    Err(e) => fails.push(format!("c20.convert-unreadable:{what}"), format!("{e}")),
                    Ok((h, recs)) => compare(&h, &recs, &what, *a == AFmt::Cram || b == AFmt::Cram, &mut fails),
                },
            }
        }
    }
    fails.finish(
        Pass::new(!input.is_empty(), key_of(c))
            .evals(evals)
            .label_if(c.empty, "empty-file")
            .label_if(!c.empty && input.is_empty(), "header-only")
            .label_if(input.len() >= 2, "records>=2")
            .label_if(hz.any(), "cram-hazard-class(relaxed mate/TLEN/name)"),
    )
}

// ---------------------------------------------------------------------------------------------
// variant

#[derive(Clone, Copy, Debug, PartialEq, Eq)]
pub enum VFmt {
    Vcf,
    VcfGz,
    Bcf,
}

pub const VFMTS: [VFmt; 3] = [VFmt::Vcf, VFmt::VcfGz, VFmt::Bcf];

impl VFmt {
    pub fn name(self) -> &'static str {
        match self {
            VFmt::Vcf => "vcf",
            VFmt::VcfGz => "vcf.gz",
            VFmt::Bcf => "bcf",
        }
    }
}

#[derive(Clone, Debug, Serialize, Deserialize)]
pub struct VarCase {
    pub doc: gvar::VarDoc,
    pub header_only: bool,
}

pub fn write_var(fmt: VFmt, header: &vcf::Header, records: &[Box<dyn vcf::variant::Record>]) -> io::Result<Vec<u8>> {
    let mut out = Vec::new();
    {
        let b = variant::io::writer::Builder::default();
        let b = match fmt {
            VFmt::Vcf => b.set_format(variant::io::Format::Vcf).set_compression_method(None),
            VFmt::VcfGz => b.set_format(variant::io::Format::Vcf).set_compression_method(Some(variant::io::CompressionMethod::Bgzf)),
            VFmt::Bcf => b.set_format(variant::io::Format::Bcf).set_compression_method(Some(variant::io::CompressionMethod::Bgzf)),
        };
        let mut w = b.build_from_writer(&mut out);
        w.write_header(header)?;
        for r in records {
            w.write_record(header, r.as_ref())?;
        }
        // the generic variant writer has no finish(): dropping it completes the stream
    }
    Ok(out)
}

pub fn read_var(bytes: &[u8]) -> io::Result<(vcf::Header, Vec<vcf::variant::RecordBuf>)> {
    read_var_from(bytes)
}

pub fn read_var_from<R: io::Read>(src: R) -> io::Result<(vcf::Header, Vec<vcf::variant::RecordBuf>)> {
    let mut r = variant::io::reader::Builder::default().build_from_reader(src)?;
    let header = r.read_header()?;
    let mut v = Vec::new();
    for rec in r.records(&header) {
        let rec = rec?;
        v.push(vcf::variant::RecordBuf::try_from_variant_record(&header, rec.as_ref())?);
    }
    Ok((header, v))
}

/// `read_record` into one reused generic `variant::Record`.
fn read_var_lazy(bytes: &[u8]) -> io::Result<Vec<vcf::variant::RecordBuf>> {
    let mut r = variant::io::reader::Builder::default().build_from_reader(bytes)?;
    let header = r.read_header()?;
    let mut rec = variant::Record::default();
    let mut v = Vec::new();
    while r.read_record(&mut rec)? != 0 {
        v.push(vcf::variant::RecordBuf::try_from_variant_record(&header, &rec)?);
    }
    Ok(v)
}

fn check_var(c: &VarCase) -> Verdict {
    let hm = &c.doc.header;
    let header = hm.to_noodles().map_err(|e| vec![Fail::new(shard::HARNESS_PANIC, format!("generated header does not convert: {e}"))])?;
    let model: Vec<gvar::VarRecord> = if c.header_only { Vec::new() } else { c.doc.records.clone() };
    let input: Vec<vcf::variant::RecordBuf> = model.iter().map(|r| r.to_noodles()).collect();
    let boxed = |v: &[vcf::variant::RecordBuf]| -> Vec<Box<dyn vcf::variant::Record>> { v.iter().map(|r| Box::new(r.clone()) as Box<dyn vcf::variant::Record>).collect() };
    let mut fails = Fails::new();
    let mut evals = 0u64;
    // every path through BCF applies the BCF normal form; text-only paths the VCF one
    let compare = |got: &[vcf::variant::RecordBuf], what: &str, via_bcf: bool, via_text: bool, fails: &mut Fails| {
        if got.len() != model.len() {
            fails.push(format!("c20.records.count:{what}"), format!("{} records read back, {} written", got.len(), model.len()));
            return;
        }
        for (i, (g, w)) in got.iter().zip(model.iter()).enumerate() {
            // every path starts from or passes through the generic writer/reader of a text or a
            // binary format: apply the text normal form always reached by a text hop and the BCF one
            // when BCF is involved
            let norm = |r: gvar::VarRecord| -> gvar::VarRecord {
                let r = if via_text { r.normalised(gvar::Target::VcfText, hm) } else { r };
                if via_bcf { r.normalised(gvar::Target::Bcf, hm) } else { r }
            };
            let gm = norm(gvar::VarRecord::from_record_buf(g));
            let wm = norm(w.clone());
            if let Some((field, detail)) = gm.first_diff(&wm) {
                fails.push(format!("c20.record.differs:{what}"), format!("record {i} field {field}: {}", trunc(&detail, 600)));
                return;
            }
        }
    };
    let mut files: Vec<(VFmt, Vec<u8>)> = Vec::new();
    for fmt in VFMTS {
        evals += 1;
        match write_var(fmt, &header, &boxed(&input)) {
            Err(e) => fails.push(format!("c20.write-error:{}", fmt.name()), format!("generic writer failed: {e}")),
            Ok(bytes) => {
                let magic = match fmt {
                    VFmt::Vcf => bytes.starts_with(b"##fileformat"),
                    _ => bytes.starts_with(&[0x1f, 0x8b, 0x08, 0x04]),
                };
                if !magic {
                    fails.push(format!("c20.wrong-magic:{}", fmt.name()), format!("requested {} but the stream starts with {:02x?}", fmt.name(), &bytes[..bytes.len().min(8)]));
                }
                match read_var(&bytes) {
                    Err(e) => fails.push(format!("c20.detect-or-read-error:{}", fmt.name()), format!("generic reader failed on the generic writer's own {} output ({} bytes): {e}", fmt.name(), bytes.len())),
                    Ok((_, recs)) => {
                        compare(&recs, fmt.name(), fmt == VFmt::Bcf, fmt != VFmt::Bcf, &mut fails);
                        let models = |v: &[vcf::variant::RecordBuf]| -> Vec<gvar::VarRecord> { v.iter().map(gvar::VarRecord::from_record_buf).collect() };
                        match read_var_lazy(&bytes) {
                            Err(e) => fails.push(format!("c20.read-record-error:{}", fmt.name()), format!("Reader::read_record fails where records() succeeds: {e}")),
                            Ok(lz) => {
                                let (a, b) = (models(&recs), models(&lz));
                                if a.len() != b.len() {
                                    fails.push(format!("c20.read-record-differs:{}", fmt.name()), format!("records() gives {} records, read_record {}", a.len(), b.len()));
                                } else if let Some((i, (field, detail))) = a.iter().zip(b.iter()).enumerate().find_map(|(i, (x, y))| x.first_diff(y).map(|d| (i, d))) {
                                    fails.push(format!("c20.read-record-differs:{}", fmt.name()), format!("record {i} field {field}: {} (left = records(), right = read_record)", trunc(&detail, 500)));
                                }
                            }
                        }
                        files.push((fmt, bytes));
                    }
                }
            }
        }
    }
    for (a, bytes) in &files {
        for b in VFMTS {
            if *a == b {
                continue;
            }
            evals += 1;
            let what = format!("{}->{}", a.name(), b.name());
            let piped = (|| -> io::Result<Vec<u8>> {
                let mut r = variant::io::reader::Builder::default().build_from_reader(&bytes[..])?;
                let h = r.read_header()?;
                let recs: Vec<Box<dyn vcf::variant::Record>> = r.records(&h).collect::<io::Result<_>>()?;
                write_var(b, &h, &recs)
            })();
            match piped {
                Err(e) => {
                    // listed class: a sample whose GT consists of missing alleles only reads from VCF
                    // text as a value the BCF writer rejects
                    let gt_all_missing = serde_json::to_string(&model).map(|j| j.contains("\"Genotype\":[[null,")).unwrap_or(false)
                        && model.iter().any(|r| r.samples.iter().flatten().any(|v| matches!(v, Some(gvar::SampleValue::Genotype(g)) if !g.is_empty() && g.iter().all(|a| a.0.is_none()))));
                    let class = if gt_all_missing && b == VFmt::Bcf { ".gt-all-missing" } else { "" };
                    fails.push(format!("c20.convert-error{class}:{what}"), format!("{e}"));
                }
                Ok(out) => match read_var(&out) {
                    Err(e) => fails.push(format!("c20.convert-unreadable:{what}"), format!("{e}")),
                    Ok((_, recs)) => compare(&recs, &what, *a == VFmt::Bcf || b == VFmt::Bcf, *a != VFmt::Bcf || b != VFmt::Bcf, &mut fails),
                },
            }
        }
    }
    fails.finish(Pass::new(!model.is_empty(), key_of(c)).evals(evals).label_if(model.is_empty(), "header-only").label_if(model.len() >= 2, "records>=2"))
}

/// The files the generic writers produce for a case, per format (formats whose writer rejects the
/// document are left out). Used by C12 to deliver the same streams in short reads.
pub fn aln_files(c: &AlnCase) -> (noodles_fasta::Repository, Vec<(AFmt, Vec<u8>)>) {
    let mut doc = c.doc.clone();
    doc.opts.records_per_slice = 0;
    doc.opts.enc = None;
    let n = doc.to_noodles();
    let (header, input) = if c.empty { (sam::Header::default(), Vec::new()) } else { (n.header.clone(), n.records.clone()) };
    let boxed: Vec<Box<dyn sam::alignment::Record>> = input.iter().map(|r| Box::new(r.clone()) as Box<dyn sam::alignment::Record>).collect();
    let files = AFMTS.into_iter().filter_map(|f| write_aln(f, &header, &boxed, &n.repository).ok().map(|b| (f, b))).collect();
    (n.repository, files)
}

pub fn var_files(c: &VarCase) -> Vec<(VFmt, Vec<u8>)> {
    let Ok(header) = c.doc.header.to_noodles() else { return Vec::new() };
    let input: Vec<vcf::variant::RecordBuf> = if c.header_only { Vec::new() } else { c.doc.records.iter().map(|r| r.to_noodles()).collect() };
    let boxed: Vec<Box<dyn vcf::variant::Record>> = input.iter().map(|r| Box::new(r.clone()) as Box<dyn vcf::variant::Record>).collect();
    VFMTS.into_iter().filter_map(|f| write_var(f, &header, &boxed).ok().map(|b| (f, b))).collect()
}

pub fn aln_case_strategy() -> BoxedStrategy<AlnCase> {
    (gcram::doc_strategy(gcram::Params::robust()), prop_oneof![9 => Just(false), 1 => Just(true)]).prop_map(|(doc, empty)| AlnCase { doc, empty }).boxed()
}

pub fn var_case_strategy(tier: Tier) -> BoxedStrategy<VarCase> {
    (gvar::document(tier, &gvar::Mode::bcf_safe()), prop_oneof![9 => Just(false), 1 => Just(true)]).prop_map(|(doc, header_only)| VarCase { doc, header_only }).boxed()
}

// ---------------------------------------------------------------------------------------------
// SAM has no magic number: a stream without header lines starts with the first read name

#[derive(Clone, Debug, Serialize, Deserialize)]
pub struct HeaderlessCase {
    /// read names (the first one is what detection sees)
    pub names: Vec<String>,
    pub seq_len: Vec<u8>,
}

fn headerless_strategy() -> BoxedStrategy<HeaderlessCase> {
    // names that begin like another format's magic number, and ordinary ones
    let first = prop_oneof![
        3 => ("(BAM|CRAM|BCF|BA|CRA|bam|cram|SAM|VCF|GFF|1f8b|BAM1|CRAM3|BAM_|CRAM_)", "[!-?A-~]{0,12}").prop_map(|(a, b)| format!("{a}{b}")),
        2 => "[!-?A-~]{1,20}".prop_map(|s| s),
    ];
    (first, proptest::collection::vec("[!-?A-~]{1,20}", 0..4), proptest::collection::vec(0u8..40, 5))
        // `*` alone means "no name" in SAM text and is rejected as a name by the writers
        .prop_map(|(f, rest, seq_len)| HeaderlessCase { names: std::iter::once(f).chain(rest).map(|n| if n == "*" { "x".to_string() } else { n }).collect(), seq_len })
        .boxed()
}

fn check_headerless(c: &HeaderlessCase) -> Verdict {
    let header = sam::Header::default();
    let repo = noodles_fasta::Repository::default();
    let input: Vec<sam::alignment::RecordBuf> = c
        .names
        .iter()
        .enumerate()
        .map(|(i, name)| {
            let n = c.seq_len[i % c.seq_len.len()] as usize;
            let seq: Vec<u8> = (0..n).map(|k| b"ACGT"[(k + i) % 4]).collect();
            let qual: Vec<u8> = (0..n).map(|k| 10 + ((k * 7 + i) % 30) as u8).collect();
            sam::alignment::RecordBuf::builder()
                .set_name(name.as_bytes())
                .set_flags(sam::alignment::record::Flags::UNMAPPED)
                .set_sequence(seq.into())
                .set_quality_scores(qual.into())
                .build()
        })
        .collect();
    let want: Vec<gcram::Canon> = input.iter().map(gcram::canon_of_record).collect();
    let boxed: Vec<Box<dyn sam::alignment::Record>> = input.iter().map(|r| Box::new(r.clone()) as Box<dyn sam::alignment::Record>).collect();
    let mut fails = Fails::new();
    let mut evals = 0u64;
    for fmt in AFMTS {
        evals += 1;
        let bytes = match write_aln(fmt, &header, &boxed, &repo) {
            Ok(b) => b,
            Err(e) => {
                fails.push(format!("c20.headerless.write-error:{}", fmt.name()), format!("{e}"));
                continue;
            }
        };
        // magic-like prefix of the first name, for the signature (a class, not the input)
        let first = &c.names[0];
        let prefix = ["CRAM", "BAM", "BCF"].into_iter().find(|p| first.starts_with(p)).unwrap_or("other");
        match read_aln(&bytes, &repo) {
            Err(e) => fails.push(format!("c20.headerless.detect-or-read-error:{}:first-name-{prefix}", fmt.name()), format!("a {} stream without header lines whose first read is named {first:?} is not read back: {e}", fmt.name())),
            Ok((_, recs)) => {
                let got: Vec<gcram::Canon> = recs.iter().map(gcram::canon_of_record).collect();
                if got != want {
                    fails.push(format!("c20.headerless.differs:{}", fmt.name()), format!("{} records read back, {} written (or their contents differ); first name {first:?}", got.len(), want.len()));
                }
            }
        }
    }
    let magic_like = ["CRAM", "BAM", "BCF"].iter().any(|p| c.names[0].starts_with(p));
    fails.finish(Pass::new(true, key_of(c)).evals(evals).label_if(magic_like, "first-name-starts-like-a-magic-number").label_if(c.names.len() >= 2, "records>=2"))
}

// ---------------------------------------------------------------------------------------------
// records larger than a BGZF block (ultra-long reads): the readers then ask the block layer for
// more than one block at a time

#[derive(Clone, Debug, Serialize, Deserialize)]
pub struct LongReadCase {
    /// bases of the long read
    pub len: u32,
    pub seed: u32,
    /// number of short reads in front of and behind it
    pub before: u8,
    pub after: u8,
}

fn long_read_strategy(_tier: Tier) -> BoxedStrategy<LongReadCase> {
    let len = prop_oneof![2 => 60_000u32..70_000, 3 => 70_000u32..140_000, 2 => 140_000u32..300_000, 1 => proptest::sample::select(vec![65_280u32, 65_495, 65_536, 131_072, 196_608])];
    (len, any::<u32>(), 0u8..4, 0u8..4).prop_map(|(len, seed, before, after)| LongReadCase { len, seed, before, after }).boxed()
}

fn check_long_read(c: &LongReadCase) -> Verdict {
    let header = sam::Header::default();
    let repo = noodles_fasta::Repository::default();
    let mut rng = crate::r#gen::payload::XorShift::new(c.seed as u64 + 99);
    let mut mk = |name: String, n: usize| {
        let seq: Vec<u8> = (0..n).map(|_| b"ACGTN"[(rng.next() % 5) as usize]).collect();
        let qual: Vec<u8> = (0..n).map(|_| (rng.next() % 60) as u8 + 1).collect();
        sam::alignment::RecordBuf::builder().set_name(name.into_bytes()).set_flags(sam::alignment::record::Flags::UNMAPPED).set_sequence(seq.into()).set_quality_scores(qual.into()).build()
    };
    let mut input = Vec::new();
    for i in 0..c.before {
        input.push(mk(format!("s{i}"), 20 + i as usize * 7));
    }
    input.push(mk("long".to_string(), c.len as usize));
    for i in 0..c.after {
        input.push(mk(format!("t{i}"), 30 + i as usize * 5));
    }
    let want: Vec<gcram::Canon> = input.iter().map(gcram::canon_of_record).collect();
    let boxed = |v: &[sam::alignment::RecordBuf]| -> Vec<Box<dyn sam::alignment::Record>> { v.iter().map(|r| Box::new(r.clone()) as Box<dyn sam::alignment::Record>).collect() };
    let mut fails = Fails::new();
    let mut evals = 0u64;
    let mut files = Vec::new();
    for fmt in AFMTS {
        evals += 1;
        match write_aln(fmt, &header, &boxed(&input), &repo) {
            Err(e) => fails.push(format!("c20.long-read.write-error:{}", fmt.name()), format!("{e}")),
            Ok(bytes) => match read_aln(&bytes, &repo) {
                Err(e) => fails.push(format!("c20.long-read.detect-or-read-error:{}", fmt.name()), format!("a {} stream with a {}-base read ({} bytes) is not read back: {e}", fmt.name(), c.len, bytes.len())),
                Ok((_, recs)) => {
                    let got: Vec<gcram::Canon> = recs.iter().map(gcram::canon_of_record).collect();
                    if got != want {
                        let i = got.iter().zip(want.iter()).position(|(a, b)| a != b).unwrap_or(got.len().min(want.len()));
                        fails.push(format!("c20.long-read.differs:{}", fmt.name()), format!("{} records read back, {} written; first difference at record {i} (the long read is record {})", got.len(), want.len(), c.before));
                    }
                    files.push((fmt, bytes));
                }
            },
        }
    }
    // conversions out of the BGZF formats (where the record spans blocks)
    for (a, bytes) in &files {
        for b in AFMTS {
            if *a == b || !matches!(a, AFmt::Bam | AFmt::SamGz) {
                continue;
            }
            evals += 1;
            let piped = (|| -> io::Result<Vec<u8>> {
                let mut r = alignment::io::reader::Builder::default().set_reference_sequence_repository(repo.clone()).build_from_reader(&bytes[..])?;
                let h = r.read_header()?;
                let recs: Vec<Box<dyn sam::alignment::Record>> = r.records(&h).collect::<io::Result<_>>()?;
                write_aln(b, &h, &recs, &repo)
            })();
            let what = format!("{}->{}", a.name(), b.name());
            match piped.and_then(|out| read_aln(&out, &repo)) {
                Err(e) => fails.push(format!("c20.long-read.convert-error:{what}"), format!("{e}")),
                Ok((_, recs)) => {
                    let got: Vec<gcram::Canon> = recs.iter().map(gcram::canon_of_record).collect();
                    if got != want {
                        fails.push(format!("c20.long-read.convert-differs:{what}"), format!("{} records after the conversion, {} written (or their contents differ)", got.len(), want.len()));
                    }
                }
            }
        }
    }
    fails.finish(Pass::new(true, key_of(c)).evals(evals).label_if(c.len >= 131_072, "read>=128KiB").label_if(c.len >= 65_536, "read>=64KiB"))
}

// ---------------------------------------------------------------------------------------------
// CIGARs beyond 65 535 operations: SAM text writes them out, BAM parks them in a CG field behind a
// placeholder; conversions between the two must keep them

#[derive(Clone, Debug, Serialize, Deserialize)]
pub struct LongCigarCase {
    pub n_ops: u32,
    /// the sequence is stored (`false`: SEQ `*`, as for secondary alignments of long reads)
    pub with_seq: bool,
    pub seed: u32,
}

fn long_cigar_strategy(_tier: Tier) -> BoxedStrategy<LongCigarCase> {
    (prop_oneof![2 => proptest::sample::select(vec![65_535u32, 65_536, 65_537]), 3 => 65_536u32..72_000], any::<bool>(), any::<u32>()).prop_map(|(n_ops, with_seq, seed)| LongCigarCase { n_ops, with_seq, seed }).boxed()
}

fn check_long_cigar(c: &LongCigarCase) -> Verdict {
    use sam::alignment::record::cigar::{Op, op::Kind};
    use sam::header::record::value::{Map, map::ReferenceSequence};
    let header = sam::Header::builder().add_reference_sequence("sq0", Map::<ReferenceSequence>::new(std::num::NonZero::new(1usize << 28).unwrap())).build();
    let repo = noodles_fasta::Repository::default();
    // alternating 1M / 1I … (read length = n_ops), on the reference at position 100
    let ops: Vec<Op> = (0..c.n_ops).map(|i| Op::new(if i % 2 == 0 { Kind::Match } else { Kind::Insertion }, 1)).collect();
    let n = c.n_ops as usize;
    let mut rng = crate::r#gen::payload::XorShift::new(c.seed as u64 + 5);
    let mut b = sam::alignment::RecordBuf::builder()
        .set_name(&b"longcigar"[..])
        .set_flags(sam::alignment::record::Flags::SECONDARY)
        .set_reference_sequence_id(0)
        .set_alignment_start(noodles_core::Position::new(100).unwrap())
        .set_mapping_quality(sam::alignment::record::MappingQuality::new(30).unwrap())
        .set_cigar(ops.into_iter().collect());
    if c.with_seq {
        let seq: Vec<u8> = (0..n).map(|_| b"ACGT"[(rng.next() % 4) as usize]).collect();
        let qual: Vec<u8> = (0..n).map(|_| (rng.next() % 40) as u8 + 2).collect();
        b = b.set_sequence(seq.into()).set_quality_scores(qual.into());
    }
    let short = |name: &str| sam::alignment::RecordBuf::builder().set_name(name.as_bytes()).set_flags(sam::alignment::record::Flags::UNMAPPED).set_sequence(b"ACGT".to_vec().into()).set_quality_scores(vec![30u8; 4].into()).build();
    let input = vec![short("a"), b.build(), short("z")];
    let want: Vec<gcram::Canon> = input.iter().map(gcram::canon_of_record).collect();
    let boxed = |v: &[sam::alignment::RecordBuf]| -> Vec<Box<dyn sam::alignment::Record>> { v.iter().map(|r| Box::new(r.clone()) as Box<dyn sam::alignment::Record>).collect() };
    const FMTS: [AFmt; 3] = [AFmt::Sam, AFmt::SamGz, AFmt::Bam];
    let mut fails = Fails::new();
    let mut evals = 0u64;
    let mut files = Vec::new();
    // (class, detail): class "cg-visible" = the only difference is a CG field next to the restored
    // CIGAR — the lazy bam::Record shows it (C05 finding c05.lazy.convert.cg-visible) and the generic
    // reader hands out lazy records
    let same = |got: &[sam::alignment::RecordBuf]| -> Option<(&'static str, String)> {
        let g: Vec<gcram::Canon> = got.iter().map(gcram::canon_of_record).collect();
        if g.len() != want.len() {
            return Some(("differs", format!("{} records, {} written", g.len(), want.len())));
        }
        let i = g.iter().zip(want.iter()).position(|(a, b)| a != b)?;
        let detail = format!("record {i} differs: CIGAR has {} operations, {} written; {} aux fields, {} written", got[i].cigar().as_ref().len(), input[i].cigar().as_ref().len(), got[i].data().len(), input[i].data().len());
        let without_cg: Vec<gcram::Canon> = got
            .iter()
            .map(|r| {
                let mut r = r.clone();
                let cg = r.data().iter().map(|(t, _)| t).find(|t| t.as_ref() == b"CG");
                if let Some(t) = cg {
                    r.data_mut().remove(&t);
                }
                gcram::canon_of_record(&r)
            })
            .collect();
        Some((if without_cg == want { "cg-visible" } else { "differs" }, detail))
    };
    for fmt in FMTS {
        evals += 1;
        match write_aln(fmt, &header, &boxed(&input), &repo) {
            Err(e) => fails.push(format!("c20.long-cigar.write-error:{}", fmt.name()), format!("{e}")),
            Ok(bytes) => match read_aln(&bytes, &repo) {
                Err(e) => fails.push(format!("c20.long-cigar.detect-or-read-error:{}", fmt.name()), format!("{e}")),
                Ok((_, recs)) => {
                    if let Some((class, d)) = same(&recs) {
                        fails.push(format!("c20.long-cigar.{class}:{}", fmt.name()), d);
                    }
                    files.push((fmt, bytes));
                }
            },
        }
    }
    for (a, bytes) in &files {
        for bfmt in FMTS {
            if *a == bfmt {
                continue;
            }
            evals += 1;
            let what = format!("{}->{}", a.name(), bfmt.name());
            let piped = (|| -> io::Result<Vec<u8>> {
                let mut r = alignment::io::reader::Builder::default().set_reference_sequence_repository(repo.clone()).build_from_reader(&bytes[..])?;
                let h = r.read_header()?;
                let recs: Vec<Box<dyn sam::alignment::Record>> = r.records(&h).collect::<io::Result<_>>()?;
                write_aln(bfmt, &h, &recs, &repo)
            })();
            match piped.and_then(|out| read_aln(&out, &repo)) {
                Err(e) => fails.push(format!("c20.long-cigar.convert-error:{what}"), format!("{e}")),
                Ok((_, recs)) => {
                    if let Some((class, d)) = same(&recs) {
                        fails.push(format!("c20.long-cigar.convert-{class}:{what}"), d);
                    }
                }
            }
        }
    }
    fails.finish(Pass::new(true, key_of(c)).evals(evals).label_if(c.n_ops > 65_535, "cigar>65535").label_if(!c.with_seq, "seq-missing"))
}

pub fn property() -> Property {
    Property {
        id: "C20",
        level: "exploration",
        rule: "generated documents × all (format, compression) ∈ {SAM, SAM.gz, BAM, CRAM} / {VCF, VCF.gz, BCF} × all source→target pairs (enumerated per document), incl. empty files and header-only files; evaluations counts write/detect/convert runs",
        assumptions: vec![
            "equality of the records read back by the detecting reader decides detection (a mis-detected stream cannot parse to equal records); the stream's leading magic is checked independently".into(),
            "record comparison uses the SAM-level normal form of gen::cram (=/X→M, bases upper-cased, aux sorted by tag) and the VCF/BCF normal forms of gen::var; for the listed CRAM in-slice mate-chain classes (C07 findings) mate fields, TLEN and names are not compared on paths through CRAM".into(),
        ],
        subs: vec![
            sub(
                "alignment",
                "non-trivial = document with ≥1 record; distinct by hash of the document",
                |_tier| {
                    (gcram::doc_strategy(gcram::Params::robust()), prop_oneof![9 => Just(false), 1 => Just(true)]).prop_map(|(doc, empty)| AlnCase { doc, empty }).boxed()
                },
                check_aln,
                12_000,
                150_000,
            )
            .boxed(),
            sub("alignment_headerless", "SAM/SAM.gz/BAM/CRAM streams with an empty header and unmapped reads whose first name begins like a magic number (BAM, CRAM, BCF, …) or not; every case is non-trivial; distinct by hash", |_tier| headerless_strategy(), check_headerless, 10_000, 100_000).boxed(),
            sub("alignment_long_read", "0–3 short reads, one read of 60 000–300 000 bases, 0–3 short reads, through SAM/SAM.gz/BAM/CRAM and the conversions out of the BGZF formats; every case is non-trivial; distinct by hash", long_read_strategy, check_long_read, 600, 8_000).boxed(),
            sub("alignment_long_cigar", "a mapped secondary record with 65 535–72 000 CIGAR operations, with its sequence or with SEQ `*`, between two short reads, through SAM/SAM.gz/BAM and the six conversions among them; every case is non-trivial; distinct by hash", long_cigar_strategy, check_long_cigar, 40, 600).boxed(),
            sub(
                "variant",
                "non-trivial = document with ≥1 record; distinct by hash of the document",
                |tier| (gvar::document(tier, &gvar::Mode::bcf_safe()), prop_oneof![9 => Just(false), 1 => Just(true)]).prop_map(|(doc, header_only)| VarCase { doc, header_only }).boxed(),
                check_var,
                24_000,
                300_000,
            )
            .boxed(),
        ],
        max_parallel: 16,
    }
}
