//! C10 — BCF typed encoding round-trips every value and carries the same content as VCF.
//!
//! Sub-check `roundtrip` (document = header + 0..10 records, gen::var Mode::bcf_full):
//!   1. `bcf::io::Writer` (BGZF) → `Reader::read_record_buf` = input under the normal form of
//!      `VarRecord::normalised(Target::Bcf)` (floats by bit pattern; `[.]` ≡ `.`; dropped trailing
//!      sample fields ≡ missing);
//!   2. an independent BCF2 reader (`oracle::bcf_raw`, written from the specification) walks the
//!      inflated stream (`oracle::bgzf_walk`): dictionary indices per IDX / order of appearance,
//!      POS−1, rlen = harness span, QUAL bits, counts, and every typed value: no stored integer or
//!      float that stands for a value may equal a missing / end-of-vector / reserved code of its
//!      width, missing entries carry the missing code, shorter vectors are padded with
//!      end-of-vector codes only after their values;
//!   3. lazy `bcf::Record`: accessor sweep through the `variant::Record` trait (+ `Info::get`,
//!      `Samples::select`, `Series`, `reference_sequence_id`, `end`) = eager read;
//!   4. the VCF line of what BCF returns (eager and lazy) = the VCF line of the input;
//!   5. IDX: headers with arbitrary (non-contiguous, non-monotone) IDX assignments are written and
//!      read like any other; the dictionaries the reader builds and the indices stored in the
//!      records (raw walk) must be the IDX values.
//! Sub-check `reject`: one unrepresentable element (integer in [i32::MIN, i32::MIN+7], float
//! bit pattern 0x7F800001..7, undeclared contig / FILTER / INFO key / FORMAT key, POS 2^31) is put
//! into an otherwise valid document: the writer must return `Err`; a panic, an accepted record that
//! cannot be read, or a different value read back is a violation.

use crate::engine::*;
use crate::oracle::{bcf_raw, bgzf_walk};
use crate::r#gen::var::{self, *};
use noodles_bcf as bcf;
use noodles_vcf as vcf;
use proptest::prelude::*;
use serde::{Deserialize, Serialize};
use vcf::variant::io::Write as _;

// ------------------------------------------------------------------------------------------------
// classes of records that the pinned tree is known to mishandle (predicates on the input)
// ------------------------------------------------------------------------------------------------

fn gts(r: &VarRecord) -> impl Iterator<Item = &Vec<Allele>> {
    r.samples.iter().flatten().filter_map(|v| if let Some(SampleValue::Genotype(g)) = v { Some(g) } else { None })
}

fn all_strings(r: &VarRecord) -> Vec<(bool, bool, &str)> {
    // (in_array, is_format, s)
    let mut out = Vec::new();
    for (_, v) in &r.info {
        match v {
            Some(InfoValue::String(s)) => out.push((false, false, s.as_str())),
            Some(InfoValue::StrArray(a)) => out.extend(a.iter().flatten().map(|s| (true, false, s.as_str()))),
            _ => {}
        }
    }
    for v in r.samples.iter().flatten() {
        match v {
            Some(SampleValue::String(s)) => out.push((false, true, s.as_str())),
            Some(SampleValue::StrArray(a)) => out.extend(a.iter().flatten().map(|s| (true, true, s.as_str()))),
            _ => {}
        }
    }
    out
}

fn all_chars(r: &VarRecord) -> Vec<(bool, bool, char)> {
    let mut out = Vec::new();
    for (_, v) in &r.info {
        match v {
            Some(InfoValue::Character(c)) => out.push((false, false, *c)),
            Some(InfoValue::CharArray(a)) => out.extend(a.iter().flatten().map(|c| (true, false, *c))),
            _ => {}
        }
    }
    for v in r.samples.iter().flatten() {
        match v {
            Some(SampleValue::Character(c)) => out.push((false, true, *c)),
            Some(SampleValue::CharArray(a)) => out.extend(a.iter().flatten().map(|c| (true, true, *c))),
            _ => {}
        }
    }
    out
}

/// Known-defect classes a (normalised) record falls in, most specific first.
fn record_classes(r: &VarRecord) -> Vec<&'static str> {
    let mut c = Vec::new();
    let gt_col = r.format.first().map(|k| k == "GT").unwrap_or(false);
    if gt_col && r.samples.iter().any(|row| row.first().map(|v| v.is_none()).unwrap_or(true)) {
        c.push("gt-missing");
    }
    for (ki, key) in r.format.iter().enumerate() {
        if key != "GT" && r.samples.iter().all(|row| row.get(ki).map(|v| v.is_none()).unwrap_or(true)) {
            c.push("format-column-all-missing");
            break;
        }
    }
    if all_strings(r).iter().any(|(arr, _, s)| *arr && s.contains(',')) {
        c.push("string-array-element-with-comma");
    }
    if all_strings(r).iter().any(|(arr, fmt, s)| *s == "." && (*arr || *fmt)) || all_chars(r).iter().any(|(arr, fmt, ch)| (*ch == '.' && (*arr || *fmt)) || (*ch == ',' && *arr)) {
        c.push("dot-or-comma-value");
    }
    if all_strings(r).iter().any(|(arr, _, s)| *arr && has_percent_escape(s)) {
        c.push("string-array-percent-escape");
    }
    if all_chars(r).iter().any(|(_, _, ch)| !ch.is_ascii()) {
        c.push("character-non-ascii");
    }
    c
}

/// Classes for which a writer `Err` is an acceptable outcome (the statement speaks of records the
/// writer accepts).
const REJECT_OK: [&str; 2] = ["gt-missing", "format-column-all-missing"];

// ------------------------------------------------------------------------------------------------
// raw oracle
// ------------------------------------------------------------------------------------------------

fn plain(s: &str) -> bool {
    !s.is_empty() && s != "." && s.chars().all(|c| c.is_ascii_alphanumeric() || "_-+/|.()[]<>*#@!?^~{}$&'\" \\".contains(c))
}

fn int_scan(cells: &[bcf_raw::IntCell], want: &[Option<i32>], padded_to: usize, what: &str, out: &mut Vec<String>) {
    use bcf_raw::IntCell as C;
    if cells.len() != padded_to {
        out.push(format!("{what}: {} stored cells, expected {}", cells.len(), padded_to));
        return;
    }
    for (i, c) in cells.iter().enumerate() {
        let ok = match (want.get(i), c) {
            (Some(Some(n)), C::Value(m)) => n == m,
            (Some(None), C::Missing) => true,
            (None, C::EndOfVector) => true,
            _ => false,
        };
        if !ok {
            out.push(format!("{what}: cell {i} is {c:?}, the value there is {:?} (None = padding) — stored {:?}", want.get(i), cells));
            return;
        }
    }
}

fn float_scan(bits: &[u32], want: &[Option<u32>], padded_to: usize, what: &str, out: &mut Vec<String>) {
    if bits.len() != padded_to {
        out.push(format!("{what}: {} stored floats, expected {}", bits.len(), padded_to));
        return;
    }
    for (i, b) in bits.iter().enumerate() {
        let ok = match want.get(i) {
            Some(Some(w)) => b == w,
            Some(None) => *b == bcf_raw::FLOAT_MISSING,
            None => *b == bcf_raw::FLOAT_EOV,
        };
        if !ok {
            out.push(format!("{what}: float {i} is {b:#010x}, the value there is {:?} (None = padding)", want.get(i).map(|o| o.map(|w| format!("{w:#010x}")))));
            return;
        }
    }
}

fn str_scan(bytes: &[u8], want: Option<&str>, what: &str, out: &mut Vec<String>) {
    let end = bytes.iter().rposition(|&b| b != 0).map(|p| p + 1).unwrap_or(0);
    let got = &bytes[..end];
    match want {
        Some(w) if plain(w) || w.split(',').all(|e| e == "." || plain(e)) => {
            if got != w.as_bytes() {
                out.push(format!("{what}: stored characters {:?}, expected {:?}", String::from_utf8_lossy(got), w));
            }
        }
        _ => {}
    }
}

fn join<T>(a: &[Option<T>], f: impl Fn(&T) -> String) -> String {
    a.iter().map(|e| e.as_ref().map(&f).unwrap_or_else(|| ".".to_string())).collect::<Vec<_>>().join(",")
}

/// Compare one raw record with the (normalised) input. `hm` carries the IDX that the *file's*
/// header text carries.
fn raw_check(want: &VarRecord, hm: &VarHeader, raw: &bcf_raw::RawRecord) -> Vec<(&'static str, String)> {
    let mut out: Vec<(&'static str, String)> = Vec::new();
    let (strings, contigs) = expected_string_indices(hm);
    let sidx = |id: &str| strings.iter().find(|(s, _)| s == id).map(|(_, i)| *i as usize);
    let mut site = Vec::new();
    match contigs.iter().find(|(s, _)| s == &want.chrom) {
        Some((_, i)) if raw.chrom == *i as i32 => {}
        other => site.push(format!("CHROM stored as {}, contig {:?} has dictionary index {:?}", raw.chrom, want.chrom, other.map(|x| x.1))),
    }
    if raw.pos as i64 != want.pos as i64 - 1 {
        site.push(format!("POS stored as {}, expected {}", raw.pos, want.pos as i64 - 1));
    }
    if let Some(end) = harness_end(want, hm) {
        let span = end as i64 - want.pos.max(1) as i64 + 1;
        if raw.rlen as i64 != span {
            site.push(format!("rlen stored as {}, the record spans {} (POS {} end {})", raw.rlen, span, want.pos, end));
        }
    }
    if raw.qual != want.qual.unwrap_or(bcf_raw::FLOAT_MISSING) {
        site.push(format!("QUAL stored as {:#010x}, expected {:?}", raw.qual, want.qual.map(|b| format!("{b:#010x}"))));
    }
    if raw.n_info as usize != want.info.len() || raw.n_allele as usize != want.alts.len() + 1 || raw.n_sample as usize != hm.samples.len() || raw.n_fmt as usize != want.format.len() {
        site.push(format!("counts n_info={} n_allele={} n_sample={} n_fmt={} for a record with {} INFO fields, {} ALT, {} samples, {} FORMAT keys", raw.n_info, raw.n_allele, raw.n_sample, raw.n_fmt, want.info.len(), want.alts.len(), hm.samples.len(), want.format.len()));
    }
    match (&raw.id, want.ids.is_empty()) {
        (bcf_raw::Typed::Str(b), true) if b.is_empty() => {}
        (bcf_raw::Typed::Missing, true) => {}
        (bcf_raw::Typed::Str(b), false) if b == want.ids.join(";").as_bytes() => {}
        (other, _) => site.push(format!("ID stored as {other:?}, expected {:?}", want.ids)),
    }
    let alleles: Vec<&str> = std::iter::once(want.reference.as_str()).chain(want.alts.iter().map(|s| s.as_str())).collect();
    for (i, (a, w)) in raw.alleles.iter().zip(&alleles).enumerate() {
        if !matches!(a, bcf_raw::Typed::Str(b) if b == w.as_bytes()) {
            site.push(format!("allele {i} stored as {a:?}, expected {w:?}"));
        }
    }
    let want_filters: Option<Vec<usize>> = want.filters.iter().map(|f| sidx(f)).collect();
    match (&raw.filter, want_filters) {
        (f, Some(w)) if w.is_empty() => {
            if !f.is_empty() {
                site.push(format!("FILTER stored as {f:?} for a missing FILTER"));
            }
        }
        (f, Some(w)) => match f.int_cells() {
            Some(cells) if cells == w.iter().map(|i| bcf_raw::IntCell::Value(*i as i32)).collect::<Vec<_>>() => {}
            _ => site.push(format!("FILTER stored as {f:?}, expected dictionary indices {w:?} for {:?}", want.filters)),
        },
        (_, None) => {}
    }
    for s in site {
        out.push(("site", s));
    }
    // INFO
    let mut info = Vec::new();
    for (i, ((k, v), (rk, rv))) in want.info.iter().zip(&raw.info).enumerate() {
        if rk.as_index() != sidx(k) || sidx(k).is_none() {
            info.push(format!("INFO field {i}: key stored as {rk:?}, {k:?} has dictionary index {:?}", sidx(k)));
            continue;
        }
        let what = format!("INFO {k}");
        match v {
            None => {}
            Some(InfoValue::Flag) => {
                if !(matches!(rv, bcf_raw::Typed::Missing) || matches!(rv, bcf_raw::Typed::Int8(x) if x == &[1])) {
                    info.push(format!("{what}: Flag stored as {rv:?}"));
                }
            }
            Some(InfoValue::Integer(n)) => match rv.int_cells() {
                Some(c) => int_scan(&c, &[Some(*n)], 1, &what, &mut info),
                None => info.push(format!("{what}: Integer stored as {}", rv.type_name())),
            },
            Some(InfoValue::IntArray(a)) => match rv.int_cells() {
                Some(c) => int_scan(&c, a, a.len(), &what, &mut info),
                None => info.push(format!("{what}: Integer array stored as {}", rv.type_name())),
            },
            Some(InfoValue::Float(b)) => match rv {
                bcf_raw::Typed::Float(x) => float_scan(x, &[Some(*b)], 1, &what, &mut info),
                _ => info.push(format!("{what}: Float stored as {}", rv.type_name())),
            },
            Some(InfoValue::FloatArray(a)) => match rv {
                bcf_raw::Typed::Float(x) => float_scan(x, a, a.len(), &what, &mut info),
                _ => info.push(format!("{what}: Float array stored as {}", rv.type_name())),
            },
            Some(InfoValue::Character(c)) => match rv {
                bcf_raw::Typed::Str(b) => str_scan(b, Some(&c.to_string()), &what, &mut info),
                _ => info.push(format!("{what}: Character stored as {}", rv.type_name())),
            },
            Some(InfoValue::String(s)) => match rv {
                bcf_raw::Typed::Str(b) => str_scan(b, Some(s), &what, &mut info),
                _ => info.push(format!("{what}: String stored as {}", rv.type_name())),
            },
            Some(InfoValue::CharArray(a)) => match rv {
                bcf_raw::Typed::Str(b) => {
                    if a.iter().flatten().all(|c| c.is_ascii_alphanumeric()) {
                        str_scan(b, Some(&join(a, |c| c.to_string())), &what, &mut info)
                    }
                }
                _ => info.push(format!("{what}: Character array stored as {}", rv.type_name())),
            },
            Some(InfoValue::StrArray(a)) => match rv {
                bcf_raw::Typed::Str(b) => {
                    if a.iter().flatten().all(|s| plain(s)) {
                        str_scan(b, Some(&join(a, |s| s.clone())), &what, &mut info)
                    }
                }
                _ => info.push(format!("{what}: String array stored as {}", rv.type_name())),
            },
        }
    }
    for s in info {
        out.push(("info", s));
    }
    // FORMAT
    let mut fmt = Vec::new();
    for (ki, (key, rf)) in want.format.iter().zip(&raw.format).enumerate() {
        if rf.key.as_index() != sidx(key) || sidx(key).is_none() {
            fmt.push(format!("FORMAT field {ki}: key stored as {:?}, {key:?} has dictionary index {:?}", rf.key, sidx(key)));
            continue;
        }
        for (si, cell) in rf.samples.iter().enumerate() {
            let v = want.samples.get(si).and_then(|row| row.get(ki)).cloned().flatten();
            let what = format!("FORMAT {key} sample {si}");
            match v {
                Some(SampleValue::Genotype(g)) => match cell.int_cells() {
                    Some(c) => {
                        use bcf_raw::IntCell as C;
                        if c.len() != rf.len || c.len() < g.len() {
                            fmt.push(format!("{what}: {} cells for ploidy {}", c.len(), g.len()));
                            continue;
                        }
                        for (i, cc) in c.iter().enumerate() {
                            let ok = match (g.get(i), cc) {
                                (Some((a, ph)), C::Value(n)) => {
                                    let allele_ok = (*n >> 1) == a.map(|x| x as i32 + 1).unwrap_or(0);
                                    // the first allele's phase bit is not asserted here (its meaning
                                    // depends on the VCF version); the others are
                                    allele_ok && (i == 0 || ((*n & 1) == 1) == *ph)
                                }
                                (None, C::EndOfVector) => true,
                                _ => false,
                            };
                            if !ok {
                                fmt.push(format!("{what}: GT cell {i} is {cc:?} for genotype {g:?} — stored {c:?}"));
                                break;
                            }
                        }
                    }
                    None => fmt.push(format!("{what}: GT stored as {}", cell.type_name())),
                },
                Some(SampleValue::Integer(n)) => match cell.int_cells() {
                    Some(c) => int_scan(&c, &[Some(n)], rf.len, &what, &mut fmt),
                    None => fmt.push(format!("{what}: Integer stored as {}", cell.type_name())),
                },
                Some(SampleValue::IntArray(a)) => match cell.int_cells() {
                    Some(c) => int_scan(&c, &a, rf.len, &what, &mut fmt),
                    None => fmt.push(format!("{what}: Integer array stored as {}", cell.type_name())),
                },
                Some(SampleValue::Float(b)) => match cell {
                    bcf_raw::Typed::Float(x) => float_scan(x, &[Some(b)], rf.len, &what, &mut fmt),
                    _ => fmt.push(format!("{what}: Float stored as {}", cell.type_name())),
                },
                Some(SampleValue::FloatArray(a)) => match cell {
                    bcf_raw::Typed::Float(x) => float_scan(x, &a, rf.len, &what, &mut fmt),
                    _ => fmt.push(format!("{what}: Float array stored as {}", cell.type_name())),
                },
                Some(SampleValue::Character(c)) => match cell {
                    bcf_raw::Typed::Str(b) => str_scan(b, Some(&c.to_string()), &what, &mut fmt),
                    _ => fmt.push(format!("{what}: Character stored as {}", cell.type_name())),
                },
                Some(SampleValue::String(s)) => match cell {
                    bcf_raw::Typed::Str(b) => str_scan(b, Some(&s), &what, &mut fmt),
                    _ => fmt.push(format!("{what}: String stored as {}", cell.type_name())),
                },
                Some(SampleValue::CharArray(a)) => {
                    if !matches!(cell, bcf_raw::Typed::Str(_)) {
                        fmt.push(format!("{what}: Character array stored as {}", cell.type_name()));
                    }
                    let _ = a;
                }
                Some(SampleValue::StrArray(a)) => match cell {
                    bcf_raw::Typed::Str(b) => {
                        if a.iter().flatten().all(|s| plain(s)) {
                            str_scan(b, Some(&join(&a, |s| s.clone())), &what, &mut fmt)
                        }
                    }
                    _ => fmt.push(format!("{what}: String array stored as {}", cell.type_name())),
                },
                None => {
                    // a missing sample value: first cell missing, rest padding (numeric types)
                    match cell {
                        bcf_raw::Typed::Float(x) => float_scan(x, &[None], rf.len, &what, &mut fmt),
                        bcf_raw::Typed::Str(_) => {}
                        c => match c.int_cells() {
                            Some(cells) if key != "GT" => int_scan(&cells, &[None], rf.len, &what, &mut fmt),
                            _ => {}
                        },
                    }
                }
            }
        }
    }
    for s in fmt {
        out.push(("format", s));
    }
    out
}

// ------------------------------------------------------------------------------------------------
// writing / reading helpers
// ------------------------------------------------------------------------------------------------

enum WriteOutcome {
    Ok,
    Err(String),
    Panic(panics::PanicInfo),
}

struct Written {
    /// BGZF file as produced by `bcf::io::Writer::new`
    file: Vec<u8>,
    /// per input record
    outcomes: Vec<WriteOutcome>,
}

fn write_bcf(header: &vcf::Header, records: &[vcf::variant::RecordBuf]) -> Result<Written, Vec<Fail>> {
    let mut w = bcf::io::Writer::new(Vec::new());
    w.write_header(header).map_err(|e| vec![Fail::new("c10.header.write-error", format!("bcf write_header: {e}"))])?;
    let mut outcomes = Vec::new();
    for rb in records {
        let res = panics::catch(|| w.write_variant_record(header, rb));
        outcomes.push(match res {
            Ok(Ok(())) => WriteOutcome::Ok,
            Ok(Err(e)) => WriteOutcome::Err(e.to_string()),
            Err(p) => WriteOutcome::Panic(p),
        });
    }
    w.try_finish().map_err(|e| vec![Fail::new("c10.write.finish-error", format!("try_finish: {e}"))])?;
    let file = w.into_inner().finish().map_err(|e| vec![Fail::new("c10.write.finish-error", format!("finish: {e}"))])?;
    Ok(Written { file, outcomes })
}

fn inflate(file: &[u8]) -> Result<Vec<u8>, Vec<Fail>> {
    let members = bgzf_walk::walk(file).map_err(|e| vec![Fail::new("c10.bgzf-malformed", e)])?;
    Ok(bgzf_walk::concat(&members))
}

fn vcf_line(header: &vcf::Header, r: &dyn vcf::variant::Record) -> Result<Vec<u8>, String> {
    let mut w = vcf::io::Writer::new(Vec::new());
    match panics::catch(|| w.write_variant_record(header, r)) {
        Ok(Ok(())) => Ok(w.into_inner()),
        Ok(Err(e)) => Err(std::error::Error::source(&e).map(|s| format!("{e}: {s}")).unwrap_or_else(|| e.to_string())),
        Err(p) => Err(p.describe()),
    }
}

fn io_chain(e: &std::io::Error) -> String {
    let mut s = e.to_string();
    let mut cur: Option<&(dyn std::error::Error + 'static)> = e.get_ref().map(|x| x as &(dyn std::error::Error + 'static));
    let mut depth = 0;
    while let Some(c) = cur {
        s.push_str(&format!(": {c}"));
        cur = c.source();
        depth += 1;
        if depth > 6 {
            break;
        }
    }
    s
}

#[derive(Clone, Debug, Serialize, Deserialize)]
pub struct Case {
    pub doc: VarDoc,
    /// unused (kept so that older replay files still load)
    #[serde(default)]
    pub as_written: bool,
}

fn strategy(tier: Tier) -> BoxedStrategy<Case> {
    let full = Mode { hazard_permille: 8, ..Mode::bcf_full() };
    let samples = Mode { samples: SamplesMode::Always, ..full.clone() };
    (prop_oneof![1 => var::document(tier, &full), 1 => var::document(tier, &samples)], 0u8..100).prop_map(|(doc, d)| Case { doc, as_written: d < 4 }).boxed()
}

/// Known-defect classes that only affect the lazy `bcf::Record` path.
const LAZY_ONLY: [&str; 2] = ["string-array-percent-escape", "character-non-ascii"];

/// The signature of a discrepancy on a record: the record's known-defect class when it is in one
/// (one signature per class — what exactly goes wrong is in the message), generic otherwise.
/// Classes that only concern the lazy reader do not cover discrepancies of the eager path.
fn sig_for(classes: &[&'static str], kind: &str, generic: &str) -> String {
    let lazy_kind = kind.starts_with("lazy");
    match classes.iter().find(|c| lazy_kind || !LAZY_ONLY.contains(c)) {
        Some(c) => format!("c10.{c}"),
        None => generic.to_string(),
    }
}

fn lazy_extra(header2: &vcf::Header, lazy: &bcf::Record, eager: &VarRecord, hm_eff: &VarHeader, classes: &[&'static str], i: usize, fails: &mut Fails) {
    use vcf::variant::record::Info as _;
    let (_, contigs) = expected_string_indices(hm_eff);
    match lazy.reference_sequence_id() {
        Ok(id) => {
            if contigs.iter().find(|(s, _)| s == &eager.chrom).map(|(_, x)| *x as usize) != Some(id) {
                fails.push("c10.lazy.reference-sequence-id", format!("record {i}: reference_sequence_id() = {id}, contig {:?}", eager.chrom));
            }
        }
        Err(e) => fails.push("c10.lazy.reference-sequence-id", format!("record {i}: {e}")),
    }
    // Record::end()
    if eager.pos == 0 {
        match panics::catch(|| lazy.end()) {
            Ok(_) => {}
            Err(p) => fails.push("c10.pos-telomere.lazy-end-panic", format!("record {i}: bcf::Record::end() on a record with POS 0: {}", p.describe())),
        }
    } else {
        match panics::catch(|| lazy.end()) {
            Ok(Ok(end)) => {
                if let Some(h) = harness_end(eager, hm_eff) {
                    if usize::from(end) as u64 != h {
                        fails.push(sig_for(classes, "lazy-end", "c10.lazy.end"), format!("record {i}: bcf::Record::end() = {end}, expected {h}"));
                    }
                }
            }
            Ok(Err(e)) => fails.push(sig_for(classes, "lazy-end", "c10.lazy.end"), format!("record {i}: bcf::Record::end(): {e}")),
            Err(p) => fails.push(sig_for(classes, "lazy-end-panic", &p.sig()), format!("record {i}: bcf::Record::end(): {}", p.describe())),
        }
    }
    // Info::get per key
    let info = lazy.info();
    for (k, v) in &eager.info {
        let got = panics::catch(|| match info.get(header2, k) {
            None => Err("None".to_string()),
            Some(Err(e)) => Err(e.to_string()),
            Some(Ok(None)) => Ok(None),
            Some(Ok(Some(x))) => InfoValue::from_lazy(&x).map(Some),
        });
        match got {
            Ok(Ok(g)) => {
                let g = VarRecord { info: vec![(k.clone(), g)], ..empty_record() }.normalised(Target::Bcf, hm_eff).info.remove(0).1;
                if &g != v {
                    fails.push(sig_for(classes, "lazy-info-get", "c10.lazy.info-get"), format!("record {i}: Info::get({k:?}) = {g:?}, eager = {v:?}"));
                }
            }
            Ok(Err(e)) => fails.push(sig_for(classes, "lazy-info-get", "c10.lazy.info-get"), format!("record {i}: Info::get({k:?}): {e}")),
            Err(p) => fails.push(sig_for(classes, "lazy-panic", &p.sig()), format!("record {i}: Info::get({k:?}): {}", p.describe())),
        }
    }
    if info.len() != eager.info.len() {
        fails.push("c10.lazy.info-len", format!("record {i}: Info::len() = {}, {} fields", info.len(), eager.info.len()));
    }
    // Samples::select → Series
    let samples = match lazy.samples() {
        Ok(s) => s,
        Err(e) => {
            fails.push("c10.lazy.samples", format!("record {i}: samples(): {e}"));
            return;
        }
    };
    if samples.format_count() != eager.format.len() {
        fails.push("c10.lazy.format-count", format!("record {i}: format_count() = {}, {} keys", samples.format_count(), eager.format.len()));
    }
    for (ki, key) in eager.format.iter().enumerate() {
        let want: Vec<Option<SampleValue>> = eager.samples.iter().map(|row| row.get(ki).cloned().flatten()).collect();
        let got = panics::catch(|| -> Result<Vec<Option<SampleValue>>, String> {
            use vcf::variant::record::samples::Series as _;
            let series = match samples.select(header2, key) {
                None => return Err("select = None".into()),
                Some(Err(e)) => return Err(format!("select: {e}")),
                Some(Ok(s)) => s,
            };
            series
                .iter(header2)
                .map(|r| match r {
                    Err(e) => Err(e.to_string()),
                    Ok(None) => Ok(None),
                    Ok(Some(v)) => SampleValue::from_lazy(&v).map(Some),
                })
                .collect()
        });
        match got {
            Ok(Ok(g)) => {
                let g = VarRecord { format: vec![key.clone()], samples: g.into_iter().map(|v| vec![v]).collect(), ..empty_record() }.normalised(Target::Bcf, hm_eff);
                let g: Vec<Option<SampleValue>> = g.samples.into_iter().map(|mut r| r.remove(0)).collect();
                if g != want {
                    fails.push(sig_for(classes, "lazy-series", "c10.lazy.series"), format!("record {i}: select({key:?}).iter() = {}, eager column = {}", trunc(&format!("{g:?}"), 300), trunc(&format!("{want:?}"), 300)));
                }
            }
            Ok(Err(e)) => fails.push(sig_for(classes, "lazy-series", "c10.lazy.series"), format!("record {i}: select({key:?}): {e}")),
            Err(p) => fails.push(sig_for(classes, "lazy-panic", &p.sig()), format!("record {i}: select({key:?}): {}", p.describe())),
        }
    }
}

fn empty_record() -> VarRecord {
    VarRecord { chrom: String::new(), pos: 1, ids: vec![], reference: "N".into(), alts: vec![], qual: None, filters: vec![], info: vec![], format: vec![], samples: vec![] }
}

fn check(case: &Case) -> Verdict {
    let mut fails = Fails::new();
    let hm = &case.doc.header;
    let header = hm.to_noodles().map_err(|e| vec![Fail::new("c10.harness.model-outside-domain", e)])?;
    let wants: Vec<VarRecord> = case.doc.records.iter().map(|r| r.normalised(Target::Bcf, hm)).collect();
    let inputs: Vec<vcf::variant::RecordBuf> = case.doc.records.iter().map(|r| r.to_noodles()).collect();
    let classes: Vec<Vec<&'static str>> = wants.iter().map(record_classes).collect();
    let natural = idx_is_natural(hm);

    // ---- write
    let written = write_bcf(&header, &inputs)?;
    let mut rejected_ok = 0usize;
    let mut kept: Vec<usize> = Vec::new();
    for (i, o) in written.outcomes.iter().enumerate() {
        match o {
            WriteOutcome::Ok => kept.push(i),
            WriteOutcome::Err(e) => {
                if classes[i].iter().any(|c| REJECT_OK.contains(c)) {
                    rejected_ok += 1;
                } else {
                    fails.push(sig_for(&classes[i], "write-error", "c10.write-rejected"), format!("record {i}: the BCF writer rejects a valid record: {e}; record: {}", trunc(&canonical_text(&wants[i], hm), 400)));
                }
            }
            WriteOutcome::Panic(p) => {
                fails.push(sig_for(&classes[i], "write-panic", &p.sig()), format!("record {i}: the BCF writer panics: {}; record: {}", p.describe(), trunc(&canonical_text(&wants[i], hm), 400)));
            }
        }
    }

    // ---- inflate + raw walk
    let stream = inflate(&written.file)?;
    let raw = bcf_raw::parse(&stream).map_err(|e| vec![Fail::new("c10.raw.file-structure", format!("independent reader: {e}"))])?;
    if (raw.major, raw.minor) != (2, 2) && (raw.major, raw.minor) != (2, 1) {
        fails.push("c10.raw.version", format!("magic version {}.{}", raw.major, raw.minor));
    }
    if raw.records.len() != kept.len() {
        fails.push("c10.raw.record-count", format!("{} records in the stream, {} were accepted by the writer", raw.records.len(), kept.len()));
        return fails.finish(Pass::new(false, key_of(case)));
    }

    // ---- the file is read as written (BGZF)
    let arbitrary_idx = has_idx(hm) && !natural;
    let hm_read: &VarHeader = hm;
    let header2 = match bcf::io::Reader::new(&written.file[..]).read_header() {
        Ok(h) => h,
        Err(e) => return fail1("c10.header.read-error", format!("bcf read_header: {}; header text {:?}", io_chain(&e), trunc(&String::from_utf8_lossy(&raw.text), 500))),
    };
    let back = VarHeader::from_noodles(&header2);
    if back != hm_read.normalised() {
        fails.push(if has_idx(hm) { "c10.idx.header-roundtrip" } else { "c10.header.roundtrip" }, format!("header read from BCF differs from the header written (model level); text {:?}", trunc(&String::from_utf8_lossy(&raw.text), 400)));
    }
    // dictionary of strings / contigs as the reader built them
    {
        let (strings, contigs) = expected_string_indices(hm_read);
        for (name, idx) in &strings {
            let got = header2.string_maps().strings().get_index_of(name);
            if got != Some(*idx as usize) || header2.string_maps().strings().get_index(*idx as usize) != Some(name.as_str()) {
                fails.push("c10.idx.string-map", format!("string {name:?} must have dictionary index {idx}; reader's map says index_of = {got:?}, get_index({idx}) = {:?}", header2.string_maps().strings().get_index(*idx as usize)));
                break;
            }
        }
        for (name, idx) in &contigs {
            let got = header2.string_maps().contigs().get_index_of(name);
            if got != Some(*idx as usize) {
                fails.push("c10.idx.contig-map", format!("contig {name:?} must have dictionary index {idx}; reader's map says {got:?}"));
                break;
            }
        }
    }
    let read_stream: &[u8] = &stream;
    let raw_read = &raw;

    // ---- per record
    let mut labels: Vec<&'static str> = Vec::new();
    let mut nontrivial = false;
    let mut all_clean = fails.is_empty();
    for (slot, &i) in kept.iter().enumerate() {
        let want = &wants[i];
        let cls = &classes[i];
        let before = fails.0.len();
        // raw oracle
        match &raw.records[slot] {
            Ok(rr) => {
                for (part, msg) in raw_check(want, hm, rr) {
                    fails.push(sig_for(cls, &format!("raw-{part}"), &format!("c10.raw.{part}")), format!("record {i}: independent reader: {msg}"));
                }
            }
            Err(e) => fails.push(sig_for(cls, "raw-structure", "c10.raw.record-structure"), format!("record {i}: independent reader cannot walk the record: {e}")),
        }
        // eager read of exactly this record
        let bytes = &read_stream[raw_read.ranges[slot].clone()];
        let mut rb = vcf::variant::RecordBuf::default();
        let eager: Option<VarRecord> = match panics::catch(|| bcf::io::Reader::from(bytes).read_record_buf(&header2, &mut rb)) {
            Ok(Ok(n)) if n > 0 => Some(VarRecord::from_record_buf(&rb)),
            Ok(Ok(_)) => {
                fails.push("c10.read.eof", format!("record {i}: read_record_buf returned 0"));
                None
            }
            Ok(Err(e)) => {
                fails.push(sig_for(cls, "read-error", "c10.read-error"), format!("record {i}: read_record_buf fails on what the writer accepted: {}; record: {}", io_chain(&e), trunc(&canonical_text(want, hm), 400)));
                None
            }
            Err(p) => {
                fails.push(sig_for(cls, "read-panic", &p.sig()), format!("record {i}: read_record_buf panics: {}; record: {}", p.describe(), trunc(&canonical_text(want, hm), 400)));
                None
            }
        };
        if let Some(e) = &eager {
            if let Some((field, msg)) = want.first_diff(&e.normalised(Target::Bcf, hm)) {
                fails.push(sig_for(cls, &format!("mismatch-{field}"), &format!("c10.roundtrip.{field}")), format!("record {i}: BCF read back differs: {msg}"));
            }
        }
        // lazy read
        let mut lazy = bcf::Record::default();
        let lazy_ok = match panics::catch(|| bcf::io::Reader::from(bytes).read_record(&mut lazy)) {
            Ok(Ok(n)) if n > 0 => true,
            Ok(Ok(_)) => {
                fails.push("c10.read.eof", format!("record {i}: read_record returned 0"));
                false
            }
            Ok(Err(e)) => {
                fails.push(sig_for(cls, "lazy-read-error", "c10.lazy.read-error"), format!("record {i}: read_record: {}", io_chain(&e)));
                false
            }
            Err(p) => {
                fails.push(sig_for(cls, "lazy-panic", &p.sig()), format!("record {i}: read_record panics: {}", p.describe()));
                false
            }
        };
        if lazy_ok {
            let reference = eager.clone().map(|e| e.normalised(Target::Bcf, hm)).unwrap_or_else(|| want.clone());
            match panics::catch(|| VarRecord::from_variant_record(&header2, &lazy)) {
                Ok(Ok(lz)) => {
                    if let Some((field, msg)) = reference.first_diff(&lz.normalised(Target::Bcf, hm)) {
                        fails.push(sig_for(cls, &format!("lazy-mismatch-{field}"), &format!("c10.lazy-vs-eager.{field}")), format!("record {i}: lazy bcf::Record accessors differ from the eager read: {msg}"));
                    } else if let Some(e) = &eager {
                        // genotypes exactly, without the normal form: before VCF 4.4 the phasing of
                        // the first allele is not stored but inferred, and the two decoders must infer
                        // the same thing from the same bytes
                        let gts = |r: &VarRecord| -> Vec<Vec<Allele>> { r.samples.iter().flatten().filter_map(|v| if let Some(SampleValue::Genotype(g)) = v { Some(g.clone()) } else { None }).collect() };
                        let (a, b) = (gts(e), gts(&lz));
                        if a != b {
                            let k = a.iter().zip(b.iter()).position(|(x, y)| x != y).unwrap_or(a.len().min(b.len()));
                            fails.push(sig_for(cls, "lazy-mismatch-genotype-exact", "c10.lazy-vs-eager.genotype-exact"), format!("record {i}: genotype #{k} of the record: eager decoder {:?}, lazy decoder {:?} (fileformat 4.{})", a.get(k), b.get(k), hm.minor));
                        }
                    }
                }
                Ok(Err(e)) => fails.push(sig_for(cls, "lazy-accessor-error", "c10.lazy.accessor-error"), format!("record {i}: a lazy accessor fails: {e}; record: {}", trunc(&canonical_text(want, hm), 300))),
                Err(p) => fails.push(sig_for(cls, "lazy-panic", &p.sig()), format!("record {i}: a lazy accessor panics: {}; record: {}", p.describe(), trunc(&canonical_text(want, hm), 300))),
            }
            lazy_extra(&header2, &lazy, &reference, hm, cls, i, &mut fails);
            // variant_end through the trait, lazy vs eager
            if eager.is_some() {
                use vcf::variant::Record as _;
                let a = panics::catch(|| lazy.variant_end(&header2).map(usize::from).map_err(|e| e.to_string()));
                let b = rb.variant_end(&header2).map(usize::from).map_err(|e| e.to_string());
                match a {
                    Ok(a) => {
                        if a.as_ref().ok() != b.as_ref().ok() || a.is_ok() != b.is_ok() {
                            fails.push(sig_for(cls, "lazy-variant-end", "c10.lazy.variant-end"), format!("record {i}: variant_end lazy = {a:?}, eager = {b:?}"));
                        }
                    }
                    Err(p) => fails.push(sig_for(cls, "lazy-panic", &p.sig()), format!("record {i}: lazy variant_end panics: {}", p.describe())),
                }
            }
        }
        // VCF rendering
        let want_rb = want.to_noodles();
        match vcf_line(&header, &want_rb) {
            Ok(line_in) => {
                if eager.is_some() {
                    match vcf_line(&header2, &rb) {
                        Ok(l) if l == line_in => {}
                        Ok(l) => {
                            // rendering differences that are only the normal form (`[.]` vs `.`) are not differences
                            let same_nf = eager.as_ref().map(|e| &e.normalised(Target::Bcf, hm) == want).unwrap_or(false);
                            let l2 = if same_nf { vcf_line(&header2, &eager.as_ref().unwrap().normalised(Target::Bcf, hm).to_noodles()).unwrap_or_default() } else { l.clone() };
                            if l2 != line_in {
                                fails.push(sig_for(cls, "vcf-rendering", "c10.vcf-rendering"), format!("record {i}: VCF line of the BCF read {:?} != VCF line of the input {:?}", trunc(&String::from_utf8_lossy(&l), 300), trunc(&String::from_utf8_lossy(&line_in), 300)));
                            }
                        }
                        Err(e) => fails.push(sig_for(cls, "vcf-rendering", "c10.vcf-rendering"), format!("record {i}: the record read from BCF cannot be written as VCF: {e}")),
                    }
                }
                if lazy_ok && fails.0.len() == before {
                    match vcf_line(&header2, &lazy) {
                        Ok(l) if l == line_in => {}
                        Ok(l) => {
                            // lazy views keep `[.]`; re-render through the normal form
                            let nf = VarRecord::from_variant_record(&header2, &lazy).map(|x| x.normalised(Target::Bcf, hm)).ok();
                            let l2 = nf.and_then(|x| vcf_line(&header2, &x.to_noodles()).ok()).unwrap_or(l.clone());
                            if l2 != line_in {
                                fails.push(sig_for(cls, "lazy-vcf-rendering", "c10.lazy.vcf-rendering"), format!("record {i}: VCF line of the lazy BCF record {:?} != VCF line of the input {:?}", trunc(&String::from_utf8_lossy(&l), 300), trunc(&String::from_utf8_lossy(&line_in), 300)));
                            }
                        }
                        Err(e) => fails.push(sig_for(cls, "lazy-vcf-rendering", "c10.lazy.vcf-rendering"), format!("record {i}: the lazy BCF record cannot be written as VCF: {e}")),
                    }
                }
            }
            Err(e) => fails.push("c10.harness.vcf-writer-rejects-input", format!("record {i}: {e}")),
        }
        if fails.0.len() != before {
            all_clean = false;
        }

        // accounting
        nontrivial |= !want.info.is_empty() || !want.samples.is_empty();
        let mut l = |c: bool, s: &'static str| {
            if c && !labels.contains(&s) {
                labels.push(s);
            }
        };
        let ints: Vec<i32> = want
            .info
            .iter()
            .flat_map(|(_, v)| match v {
                Some(InfoValue::Integer(n)) => vec![*n],
                Some(InfoValue::IntArray(a)) => a.iter().flatten().copied().collect(),
                _ => vec![],
            })
            .chain(want.samples.iter().flatten().flat_map(|v| match v {
                Some(SampleValue::Integer(n)) => vec![*n],
                Some(SampleValue::IntArray(a)) => a.iter().flatten().copied().collect(),
                _ => vec![],
            }))
            .collect();
        l(ints.iter().any(|n| [-120, 127].contains(n)), "int8-edge(-120|127)");
        l(ints.iter().any(|n| [-121, 128].contains(n)), "int16-first(-121|128)");
        l(ints.iter().any(|n| [-32760, 32767].contains(n)), "int16-edge(-32760|32767)");
        l(ints.iter().any(|n| [-32761, 32768].contains(n)), "int32-first(-32761|32768)");
        l(ints.iter().any(|n| (-128..=-121).contains(n)), "int-in-int8-sentinel-range");
        l(ints.iter().any(|n| (-32768..=-32761).contains(n)), "int-in-int16-sentinel-range");
        l(ints.iter().any(|n| *n == i32::MAX || *n == BCF_INT_MIN), "int32-extreme");
        let mixed = |a: &Vec<Option<i32>>| a.iter().flatten().any(|n| (-120..=127).contains(n)) && a.iter().flatten().any(|n| !(-120..=127).contains(n));
        l(want.info.iter().any(|(_, v)| matches!(v, Some(InfoValue::IntArray(a)) if mixed(a))) || want.samples.iter().flatten().any(|v| matches!(v, Some(SampleValue::IntArray(a)) if mixed(a))), "int-vector-mixed-widths");
        l(want.info.iter().any(|(_, v)| matches!(v, Some(InfoValue::IntArray(a)) if a.iter().any(|x| x.is_none()))), "info-int-array-with-missing");
        l(want.info.iter().any(|(_, v)| matches!(v, Some(InfoValue::FloatArray(a)) if a.iter().any(|x| x.is_none()))), "info-float-array-with-missing");
        let fbits: Vec<u32> = want
            .info
            .iter()
            .flat_map(|(_, v)| match v {
                Some(InfoValue::Float(b)) => vec![*b],
                Some(InfoValue::FloatArray(a)) => a.iter().flatten().copied().collect(),
                _ => vec![],
            })
            .chain(want.samples.iter().flatten().flat_map(|v| match v {
                Some(SampleValue::Float(b)) => vec![*b],
                Some(SampleValue::FloatArray(a)) => a.iter().flatten().copied().collect(),
                _ => vec![],
            }))
            .chain(want.qual)
            .collect();
        l(fbits.iter().any(|b| *b == CANONICAL_NAN), "float-canonical-nan");
        l(fbits.iter().any(|b| is_nan_bits(*b) && *b != CANONICAL_NAN), "float-other-nan");
        l(fbits.iter().any(|b| f32::from_bits(*b).is_infinite()), "float-inf");
        l(fbits.iter().any(|b| f32::from_bits(*b).is_subnormal()), "float-subnormal");
        let ragged = |ki: usize| {
            let lens: Vec<usize> = want
                .samples
                .iter()
                .filter_map(|row| match row.get(ki) {
                    Some(Some(SampleValue::IntArray(a))) => Some(a.len()),
                    Some(Some(SampleValue::FloatArray(a))) => Some(a.len()),
                    Some(Some(SampleValue::StrArray(a))) => Some(a.len()),
                    Some(Some(SampleValue::CharArray(a))) => Some(a.len()),
                    _ => None,
                })
                .collect();
            lens.iter().min() != lens.iter().max()
        };
        l((0..want.format.len()).any(ragged), "ragged-sample-vectors");
        l(want.samples.iter().flatten().any(|v| v.is_none()) && !want.samples.is_empty(), "sample-value-missing");
        l(case.doc.records[i].samples.iter().any(|r| r.len() < want.format.len()), "trailing-fields-dropped");
        l(gts(want).any(|g| g.len() == 1) && gts(want).any(|g| g.len() >= 2), "gt-ploidy-max-and-1");
        l(gts(want).any(|g| g.len() >= 3), "gt-ploidy>=3");
        l(gts(want).any(|g| g.iter().any(|a| a.0.is_none())), "gt-missing-allele");
        l(gts(want).any(|g| g.len() >= 2 && g[0].1 != implicit_first_phasing(g)), "gt-explicit-first-phasing");
        l(gts(want).any(|g| g.iter().skip(1).any(|a| a.1)), "gt-phased");
        let max_ploidy = gts(want).map(|g| g.len()).max().unwrap_or(0);
        l(gts(want).any(|g| g.len() >= 2 && g.len() < max_ploidy), "gt-ragged(2<=ploidy<max)");
        l(gts(want).any(|g| g.iter().any(|a| a.0.is_none() && a.1)), "gt-phased-missing-allele");
        l(want.info.iter().any(|(_, v)| v.is_none()), "info-value-missing(KEY=.)");
        l(want.info.iter().any(|(_, v)| matches!(v, Some(InfoValue::IntArray(a)) if a.len() == 1 && a[0].map(|x| !(-120..=127).contains(&x)).unwrap_or(false))), "info-int-array-len1-int16/32");
        l(want.filters.len() >= 2, "filters>=2");
        l(want.filters == ["PASS"], "filter-pass");
        l(want.filters.is_empty(), "filter-missing");
        l(want.pos == 0, "pos-telomere");
        l(want.info.iter().any(|(k, _)| k == "END"), "END");
        let long = |n: usize| want.info.iter().any(|(_, v)| matches!(v, Some(InfoValue::String(s)) if s.len() >= n) || matches!(v, Some(InfoValue::IntArray(a)) if a.len() >= n) || matches!(v, Some(InfoValue::StrArray(a)) if a.iter().flatten().map(|s| s.len() + 1).sum::<usize>() >= n)) || want.reference.len() >= n;
        l(long(15), "typed-length>=15");
        l(long(128), "typed-length>=128");
        l(long(32768), "typed-length>=32768");
        l(!want.samples.is_empty(), "samples");
        l(want.alts.len() >= 2, "alt>=2");
        for c in cls {
            l(true, match *c {
                "gt-missing" => "hazard:gt-missing",
                "format-column-all-missing" => "hazard:format-column-all-missing",
                "string-array-element-with-comma" => "hazard:string-array-element-with-comma",
                "dot-or-comma-value" => "hazard:dot-or-comma-value",
                "character-non-ascii" => "hazard:character-non-ascii",
                _ => "hazard:string-array-percent-escape",
            });
        }
    }

    // ---- sequential pass over the BGZF file (the ordinary way to read), when nothing else is wrong
    if all_clean && fails.is_empty() {
        let mut r = bcf::io::Reader::new(&written.file[..]);
        match r.read_header() {
            Ok(h) => {
                let mut n = 0usize;
                for (slot, res) in r.record_bufs(&h).enumerate() {
                    match res {
                        Ok(rb) => {
                            let got = VarRecord::from_record_buf(&rb).normalised(Target::Bcf, hm);
                            if kept.get(slot).map(|&i| &wants[i]) != Some(&got) {
                                fails.push("c10.sequential-read", format!("record slot {slot}: sequential read differs from the isolated read"));
                            }
                            n += 1;
                        }
                        Err(e) => {
                            fails.push("c10.sequential-read", format!("record slot {slot}: {}", io_chain(&e)));
                            break;
                        }
                    }
                }
                if n != kept.len() && fails.is_empty() {
                    fails.push("c10.sequential-read", format!("{n} records read sequentially, {} written", kept.len()));
                }
            }
            Err(e) => fails.push("c10.header.read-error", format!("{}", io_chain(&e))),
        }
    }
    // ---- the same with one lazy record reused for the whole file (`read_record(&mut record)` in a
    // loop, what `records()` does): each record reads as it does in isolation
    if all_clean && fails.is_empty() && kept.len() >= 2 {
        let mut r = bcf::io::Reader::new(&written.file[..]);
        if let Ok(h) = r.read_header() {
            let mut record = bcf::Record::default();
            for (slot, &i) in kept.iter().enumerate() {
                match panics::catch(|| r.read_record(&mut record)) {
                    Ok(Ok(n)) if n > 0 => {}
                    other => {
                        fails.push("c10.sequential-lazy-read", format!("record slot {slot}: read_record into a reused record: {:?}", other.map(|r| r.map_err(|e| io_chain(&e))).map_err(|p| p.describe())));
                        break;
                    }
                }
                let bytes = &read_stream[raw_read.ranges[slot].clone()];
                let mut fresh = bcf::Record::default();
                if !matches!(panics::catch(|| bcf::io::Reader::from(bytes).read_record(&mut fresh)), Ok(Ok(n)) if n > 0) {
                    continue;
                }
                let a = panics::catch(|| VarRecord::from_variant_record(&h, &fresh));
                let b = panics::catch(|| VarRecord::from_variant_record(&h, &record));
                match (a, b) {
                    (Ok(Ok(a)), Ok(Ok(b))) => {
                        if let Some((field, msg)) = a.first_diff(&b) {
                            fails.push(format!("c10.sequential-lazy-read.{field}"), format!("record {i} (slot {slot}): the lazy record reused from slot {} differs from the same bytes read into a fresh record: {msg} (left = fresh, right = reused)", slot.saturating_sub(1)));
                        }
                    }
                    (Ok(Err(_)), Ok(Err(_))) | (Err(_), Err(_)) => {}
                    (a, b) => fails.push("c10.sequential-lazy-read.outcome", format!("record {i} (slot {slot}): fresh record decodes = {}, reused record decodes = {}", matches!(a, Ok(Ok(_))), matches!(b, Ok(Ok(_))))),
                }
            }
        }
    }

    let mut pass = Pass::new(nontrivial, key_of(case))
        .label(["v4.2", "v4.3", "v4.4", "v4.5", "v?"][(hm.minor as usize).saturating_sub(2).min(4)])
        .label_if(!has_idx(hm), "idx-none")
        .label_if(has_idx(hm) && natural, "idx-natural")
        .label_if(arbitrary_idx, "idx-arbitrary")
        .label_if(arbitrary_idx && expected_string_indices(hm).0.iter().any(|(_, i)| *i > 127), "idx>127")
        .label_if(arbitrary_idx && expected_string_indices(hm).0.iter().any(|(_, i)| *i > 32767), "idx>32767")
        .label_if(rejected_ok > 0, "writer-rejected(acceptable-class)")
        .label_if(case.doc.records.is_empty(), "header-only")
        .evals(case.doc.records.len().max(1) as u64);
    for s in labels {
        pass = pass.label(s);
    }
    fails.finish(pass)
}

// ------------------------------------------------------------------------------------------------
// unrepresentable ⇒ Err
// ------------------------------------------------------------------------------------------------

#[derive(Clone, Copy, Debug, PartialEq, Eq, Serialize, Deserialize)]
pub enum RejectKind {
    InfoInt,
    InfoIntArray,
    FormatInt,
    FormatIntArray,
    InfoFloat,
    InfoFloatArray,
    FormatFloat,
    FormatFloatArray,
    Qual,
    UndeclaredInfoKey,
    UndeclaredFilter,
    UndeclaredFormatKey,
    UndeclaredContig,
    PosBeyondInt32,
    /// not unrepresentable (BCF has int16 genotypes) but beyond what the encoder's int8 path holds:
    /// a GT allele index in {62, 63, 64, 100, 126, 127, 128, 129} with 130 ALT alleles — accepted ⇒
    /// read back equal, else `Err`, never a panic
    GtHighAlleleIndex,
}

#[derive(Clone, Debug, Serialize, Deserialize)]
pub struct RejectCase {
    pub doc: VarDoc,
    pub rec_sel: u16,
    pub kind: RejectKind,
    /// which of the 8 reserved integers / 7 reserved float patterns
    pub k: u8,
    pub at: u16,
    pub filler: Vec<i32>,
}

fn reject_strategy(tier: Tier) -> BoxedStrategy<RejectCase> {
    use RejectKind::*;
    let mode = Mode { samples: SamplesMode::Always, max_records: 3, ..Mode::bcf_safe() };
    (
        var::document(tier, &mode),
        any::<u16>(),
        proptest::sample::select(vec![
            InfoInt,
            InfoIntArray,
            FormatInt,
            FormatIntArray,
            InfoFloat,
            InfoFloatArray,
            FormatFloat,
            FormatFloatArray,
            Qual,
            UndeclaredInfoKey,
            UndeclaredFilter,
            UndeclaredFormatKey,
            UndeclaredContig,
            PosBeyondInt32,
            GtHighAlleleIndex,
        ]),
        0u8..8,
        any::<u16>(),
        proptest::collection::vec(prop_oneof![-100i32..100, proptest::sample::select(vec![127, 128, -120, -121, 32767, 32768, 70000])], 3),
    )
        .prop_map(|(doc, rec_sel, kind, k, at, filler)| RejectCase { doc, rec_sel, kind, k, at, filler })
        .boxed()
}

fn float_class(k: u8) -> &'static str {
    match k {
        1 => "missing-bits",
        2 => "eov-bits",
        _ => "reserved-bits",
    }
}

fn check_reject(c: &RejectCase) -> Verdict {
    use RejectKind::*;
    let mut hm = c.doc.header.clone();
    if hm.samples.is_empty() {
        hm.samples.push("S1".into());
    }
    let ns = hm.samples.len();
    let def = |id: &str, number: Num, ty: Ty| FieldDef { id: id.into(), number, ty, description: "reject test host".into(), idx: None, extra: vec![] };
    for (id, n, t) in [("RJI", Num::Count(1), Ty::Integer), ("RJIA", Num::Unknown, Ty::Integer), ("RJF", Num::Count(1), Ty::Float), ("RJFA", Num::Unknown, Ty::Float)] {
        if hm.info(id).is_none() {
            hm.infos.push(def(id, n, t));
        }
        if hm.format(id).is_none() {
            hm.formats.push(def(id, n, t));
        }
    }
    if c.kind == GtHighAlleleIndex && hm.format("GT").is_none() {
        hm.formats.insert(0, def("GT", Num::Count(1), Ty::String));
    }
    // a dictionary carries IDX on all of its entries or on none: give the host definitions fresh
    // indices when the generated header has IDX
    if has_idx(&c.doc.header) {
        let mut next = expected_string_indices(&c.doc.header).0.iter().map(|(_, i)| *i).max().unwrap_or(0) + 1;
        let mut assigned: Vec<(String, u32)> = Vec::new();
        for d in hm.infos.iter_mut().chain(hm.formats.iter_mut()) {
            if d.idx.is_none() {
                let i = match assigned.iter().find(|(id, _)| id == &d.id) {
                    Some((_, i)) => *i,
                    None => {
                        assigned.push((d.id.clone(), next));
                        next += 1;
                        next - 1
                    }
                };
                d.idx = Some(i);
            }
        }
    }
    let mut records = c.doc.records.clone();
    if records.is_empty() {
        records.push(VarRecord { chrom: hm.contigs[0].id.clone(), ..empty_record() });
        records[0].reference = "A".into();
    }
    // rows of the original header may be narrower than the new sample list
    for r in records.iter_mut() {
        if !r.format.is_empty() {
            while r.samples.len() < ns {
                r.samples.push(vec![]);
            }
        }
    }
    let ri = pick_idx(c.rec_sel, records.len());
    let int_bad = i32::MIN + c.k as i32;
    let fk = c.k.clamp(1, 7);
    let float_bad = 0x7F80_0000u32 + fk as u32;
    let at3 = pick_idx(c.at, 3);
    let ints3: Vec<Option<i32>> = (0..3).map(|j| Some(if j == at3 { int_bad } else { c.filler[j] })).collect();
    let floats3: Vec<Option<u32>> = (0..3).map(|j| Some(if j == at3 { float_bad } else { (c.filler[j] as f32).to_bits() })).collect();
    let si_bad = pick_idx(c.at, ns);
    let add_format = |r: &mut VarRecord, key: &str, bad: SampleValue, good: SampleValue| {
        if r.format.is_empty() {
            r.samples = vec![vec![]; ns];
        }
        let n = r.format.len();
        r.format.push(key.to_string());
        for (si, row) in r.samples.iter_mut().enumerate() {
            while row.len() < n {
                row.push(None);
            }
            row.push(Some(if si == si_bad { bad.clone() } else { good.clone() }));
        }
    };
    let (class, sub): (&str, &str) = {
        let r = &mut records[ri];
        match c.kind {
            InfoInt => {
                r.info.push(("RJI".into(), Some(InfoValue::Integer(int_bad))));
                ("info-int", "")
            }
            InfoIntArray => {
                r.info.push(("RJIA".into(), Some(InfoValue::IntArray(ints3.clone()))));
                ("info-int-array", "")
            }
            FormatInt => {
                add_format(r, "RJI", SampleValue::Integer(int_bad), SampleValue::Integer(c.filler[0]));
                ("format-int", "")
            }
            FormatIntArray => {
                add_format(r, "RJIA", SampleValue::IntArray(ints3.clone()), SampleValue::IntArray(vec![Some(c.filler[0])]));
                ("format-int-array", "")
            }
            InfoFloat => {
                r.info.push(("RJF".into(), Some(InfoValue::Float(float_bad))));
                ("info-float", float_class(fk))
            }
            InfoFloatArray => {
                r.info.push(("RJFA".into(), Some(InfoValue::FloatArray(floats3.clone()))));
                ("info-float-array", float_class(fk))
            }
            FormatFloat => {
                add_format(r, "RJF", SampleValue::Float(float_bad), SampleValue::Float(1.5f32.to_bits()));
                ("format-float", float_class(fk))
            }
            FormatFloatArray => {
                add_format(r, "RJFA", SampleValue::FloatArray(floats3.clone()), SampleValue::FloatArray(vec![Some(2.5f32.to_bits())]));
                ("format-float-array", float_class(fk))
            }
            Qual => {
                r.qual = Some(float_bad);
                ("qual", float_class(fk))
            }
            UndeclaredInfoKey => {
                r.info.push(("UNDECLARED_KEY".into(), Some(InfoValue::Integer(c.filler[0]))));
                ("undeclared-info-key", "")
            }
            UndeclaredFilter => {
                r.filters = vec!["undeclared_filter".into()];
                ("undeclared-filter", "")
            }
            UndeclaredFormatKey => {
                add_format(r, "UNDECLARED_FMT", SampleValue::Integer(c.filler[0]), SampleValue::Integer(c.filler[1]));
                ("undeclared-format-key", "")
            }
            UndeclaredContig => {
                r.chrom = "undeclared_contig".into();
                ("undeclared-contig", "")
            }
            PosBeyondInt32 => {
                r.pos = 1u32 << 31;
                r.info.retain(|(k, _)| k != "END");
                ("pos-beyond-int32", "")
            }
            GtHighAlleleIndex => {
                let idx = [62u32, 63, 64, 100, 126, 127, 128, 129][(c.k % 8) as usize];
                let mut alts = Vec::new();
                'outer: for len in 1..=4usize {
                    for n in 0..4usize.pow(len as u32) {
                        let a: String = (0..len).map(|j| ['A', 'C', 'G', 'T'][(n / 4usize.pow(j as u32)) % 4]).collect();
                        if a != "A" {
                            alts.push(a);
                        }
                        if alts.len() == 130 {
                            break 'outer;
                        }
                    }
                }
                *r = VarRecord { chrom: r.chrom.clone(), pos: r.pos.max(1), reference: "A".into(), alts, format: vec!["GT".into()], ..empty_record() };
                r.samples = (0..ns).map(|si| vec![Some(SampleValue::Genotype(if si == si_bad { vec![(Some(0), hm.minor < 4), (Some(idx), c.at % 2 == 0)] } else { vec![(Some(0), hm.minor < 4 || c.at % 3 == 0), (Some(1), true)] }))]).collect();
                ("gt-high-allele-index", "")
            }
        }
    };
    // one signature per site and per way of not rejecting: the writer panics, or it accepts the
    // record (what happens afterwards — a different value, an unreadable record, a reader panic —
    // is the consequence and goes into the message)
    let sig = |what: &str| {
        let what = if what == "panic" { "writer-panic" } else { "not-rejected" };
        format!("c10.reject.{class}.{what}")
    };
    let _ = sub;
    let header = hm.to_noodles().map_err(|e| vec![Fail::new("c10.harness.model-outside-domain", e)])?;
    let inputs: Vec<vcf::variant::RecordBuf> = records.iter().map(|r| r.to_noodles()).collect();
    let written = write_bcf(&header, &inputs)?;
    let describe = || trunc(&canonical_text(&records[ri], &hm), 300);
    let mut verdict_label = "rejected-with-err";
    // the other records must be accepted
    for (i, o) in written.outcomes.iter().enumerate() {
        if i != ri {
            match o {
                WriteOutcome::Ok => {}
                WriteOutcome::Err(e) => return fail1("c10.reject.harness.host-record-rejected", format!("record {i} (not the injected one) was not accepted: {e}; {}", trunc(&canonical_text(&records[i], &hm), 400))),
                WriteOutcome::Panic(p) => return fail1("c10.reject.harness.host-record-rejected", format!("record {i} (not the injected one) panics: {}; {}", p.describe(), trunc(&canonical_text(&records[i], &hm), 400))),
            }
        }
    }
    match &written.outcomes[ri] {
        WriteOutcome::Err(_) => {
            // a rejection leaves no trace: the records accepted before and after it on the same
            // writer are stored exactly as a writer that never saw the rejected record stores them
            let others: Vec<vcf::variant::RecordBuf> = inputs.iter().enumerate().filter(|(i, _)| *i != ri).map(|(_, r)| r.clone()).collect();
            let control = write_bcf(&header, &others)?;
            if control.outcomes.iter().all(|o| matches!(o, WriteOutcome::Ok)) {
                let (a, b) = (inflate(&written.file)?, inflate(&control.file)?);
                if a != b {
                    let at = a.iter().zip(b.iter()).position(|(x, y)| x != y).unwrap_or(a.len().min(b.len()));
                    return fail1(
                        format!("c10.reject.{class}.trace-left"),
                        format!("after the writer rejected record {ri} ({}), the stream holds {} bytes where a writer that was only given the other {} records writes {} (first difference at byte {at}): the accepted records are not stored as written", describe(), a.len(), others.len(), b.len()),
                    );
                }
            }
        }
        WriteOutcome::Panic(p) => return fail1(sig("panic"), format!("the writer panics instead of returning Err: {}; record: {}", p.describe(), describe())),
        WriteOutcome::Ok => {
            verdict_label = "accepted";
            // accepted: then it must read back as the same record
            let stream = inflate(&written.file)?;
            let raw = bcf_raw::parse(&stream).map_err(|e| vec![Fail::new(sig("accepted-then-malformed"), e)])?;
            let header2 = bcf::io::Reader::new(&written.file[..]).read_header().map_err(|e| vec![Fail::new("c10.header.read-error", io_chain(&e))])?;
            let slot = ri;
            let Some(range) = raw.ranges.get(slot) else { return fail1(sig("accepted-then-missing"), "the accepted record is not in the stream".to_string()) };
            let bytes = &stream[range.clone()];
            let mut rb = vcf::variant::RecordBuf::default();
            let want = records[ri].normalised(Target::Bcf, &hm);
            match panics::catch(|| bcf::io::Reader::from(bytes).read_record_buf(&header2, &mut rb)) {
                Ok(Ok(_)) => {
                    let got = VarRecord::from_record_buf(&rb).normalised(Target::Bcf, &hm);
                    if let Some((_, msg)) = want.first_diff(&got) {
                        return fail1(sig("silently-different"), format!("the writer accepts a value BCF cannot represent ({sub}) and a different value is read back: {msg}"));
                    }
                }
                Ok(Err(e)) => return fail1(sig("accepted-then-unreadable"), format!("the writer accepts the record, the reader then fails: {}; record: {}", io_chain(&e), describe())),
                Err(p) => return fail1(sig("accepted-then-read-panic"), format!("the writer accepts the record, the reader then panics: {}; record: {}", p.describe(), describe())),
            }
            // lazy view of the same bytes must not panic either
            let mut lazy = bcf::Record::default();
            if let Ok(Ok(_)) = panics::catch(|| bcf::io::Reader::from(bytes).read_record(&mut lazy)) {
                if let Err(p) = panics::catch(|| VarRecord::from_variant_record(&header2, &lazy)) {
                    return fail1(sig("accepted-then-lazy-panic"), format!("lazy accessors panic: {}", p.describe()));
                }
            }
        }
    }
    Ok(Pass::new(true, key_of(c))
        .label(match c.kind {
            InfoInt => "info-int",
            InfoIntArray => "info-int-array",
            FormatInt => "format-int",
            FormatIntArray => "format-int-array",
            InfoFloat => "info-float",
            InfoFloatArray => "info-float-array",
            FormatFloat => "format-float",
            FormatFloatArray => "format-float-array",
            Qual => "qual",
            UndeclaredInfoKey => "undeclared-info-key",
            UndeclaredFilter => "undeclared-filter",
            UndeclaredFormatKey => "undeclared-format-key",
            UndeclaredContig => "undeclared-contig",
            PosBeyondInt32 => "pos-beyond-int32",
            GtHighAlleleIndex => "gt-high-allele-index",
        })
        .label(verdict_label))
}

/// The contract of `Mode::bcf_safe()` towards the other properties that reuse the generator (see
/// the same sub-check in C09).
fn safe_strategy(tier: Tier) -> BoxedStrategy<Case> {
    var::document(tier, &Mode::bcf_safe()).prop_map(|doc| Case { doc, as_written: true }).boxed()
}

fn check_safe(c: &Case) -> Verdict {
    check(c).map_err(|fails| fails.into_iter().map(|f| Fail::new(format!("c10.safe-domain:{}", f.sig), f.msg)).collect())
}

pub fn property() -> Property {
    Property {
        id: "C10",
        level: "exploration",
        rule: "VCF headers with arbitrary (non-contiguous, non-monotone) IDX assignments or none, and records consistent with them over the BCF domain: integers in [-2^31+8, 2^31-1] dense at the int8/int16 boundaries, scalars and mixed-width vectors, float bit patterns except 0x7F800001..7, missing entries, ragged per-sample vectors, GT ploidy 1..4 with missing alleles and phasing, Number=A/R/G/./n, typed lengths across 15/128/32768 (gen::var, Mode::bcf_full)",
        assumptions: vec![
            "the harness's BCF2 reader (oracle/bcf_raw.rs, from the specification), BGZF walker (miniz_oxide) and span arithmetic are correct".into(),
            "normal forms: `[.]` ≡ `.`; dropped trailing sample fields ≡ missing; first-allele phasing implicit before VCF 4.4".into(),
            "strings are compared as noodles stores them (raw, not percent-encoded); characters with a meaning in BCF string vectors (`,`, lone `.`, NUL) are outside the asserted domain except as labelled known-defect classes".into(),
        ],
        subs: vec![
            sub(
                "roundtrip",
                "one case = header + 0..10 records, each record one evaluation; non-trivial = some record has an INFO field or sample columns; distinct by hash of the case",
                strategy,
                check,
                60_000,
                800_000,
            )
            .boxed(),
            sub("reject", "one unrepresentable element injected into a valid document; every case non-trivial; distinct by hash of the case", reject_strategy, check_reject, 40_000, 500_000).boxed(),
            sub("safe_domain", "documents of Mode::bcf_safe() (what other properties reuse): must pass all round-trip oracles with no known finding", safe_strategy, check_safe, 12_000, 120_000).boxed(),
        ],
        max_parallel: 16,
    }
}
