//! C18 — GFF3, GTF and BED lines round-trip, including escaping of reserved characters; the lazy
//! line views return the same field values as the owned record built from them.
//!
//! For each format two inputs are read back and compared with the model, field by field:
//!   (a) what the noodles writer produced from the model (`parse(write(x)) = x`);
//!   (b) text the harness built from the format rules (`gen::text::*::render`, own escaping, other
//!       hex case, raw UTF-8, CRLF, blank lines / comment lines) — so a writer and a reader that are
//!       wrong in the same way do not cancel out.
//! All discrepancies of a case are collected (`Fails`): a recorded finding in one column does not
//! hide another column.

use crate::engine::*;
use crate::r#gen::text::{self, BedDoc, BedRec, FeatRec, FeatStrand, GffDirective, GffDoc, GffLine, GtfDoc, GtfLine};
use bstr::BString;
use noodles_bed as bed;
use noodles_gff as gff;
use noodles_gtf as gtf;
use proptest::prelude::*;
use serde::{Deserialize, Serialize};
use std::io::{BufRead, BufReader};

pub const SIG_SEQID: &str = "gff.seqid.not-decoded";
pub const SIG_GFF_COMMENT: &str = "gff.comment.prefix-kept";
pub const SIG_GTF_QUOTE: &str = "gtf.attr.escaped-quote-ends-string";

fn bs(b: &[u8]) -> BString {
    BString::from(b)
}

fn with_cap<'a>(bytes: &'a [u8], cap: u8) -> Box<dyn BufRead + 'a> {
    if cap == 0 { Box::new(bytes) } else { Box::new(BufReader::with_capacity(cap as usize, bytes)) }
}

fn cap_strategy() -> BoxedStrategy<u8> {
    prop_oneof![3 => Just(0u8), 1 => 1u8..=64].boxed()
}

// ------------------------------------------------------------------------------------------------
// feature records (GFF3 and GTF share `gff::feature::RecordBuf`)

/// The owned record as plain data (bytes, not lossy strings).
#[derive(Debug, PartialEq, Clone)]
struct Feat {
    seqid: Vec<u8>,
    source: Vec<u8>,
    ty: Vec<u8>,
    start: usize,
    end: usize,
    score: Option<f32>,
    strand: FeatStrand,
    phase: Option<u8>,
    attrs: Vec<(Vec<u8>, Vec<Vec<u8>>)>,
    /// per attribute: read back as an array (`true`) or a string
    is_array: Vec<bool>,
}

fn phase_n(p: gff::feature::record::Phase) -> u8 {
    use gff::feature::record::Phase as P;
    match p {
        P::Zero => 0,
        P::One => 1,
        P::Two => 2,
    }
}

fn feat_of_buf(r: &gff::feature::RecordBuf) -> Feat {
    use gff::feature::record_buf::attributes::field::Value;
    Feat {
        seqid: r.reference_sequence_name().to_vec(),
        source: r.source().to_vec(),
        ty: r.ty().to_vec(),
        start: usize::from(r.start()),
        end: usize::from(r.end()),
        score: r.score(),
        strand: FeatStrand::from_noodles(r.strand()),
        phase: r.phase().map(phase_n),
        attrs: r.attributes().as_ref().iter().map(|(k, v)| (k.to_vec(), v.iter().map(|x| x.to_vec()).collect())).collect(),
        is_array: r.attributes().as_ref().values().map(|v| matches!(v, Value::Array(_))).collect(),
    }
}

/// The same data through the accessors of any `feature::Record` (lazy line views implement it).
fn feat_of_dyn(r: &dyn gff::feature::Record) -> Result<Feat, String> {
    use gff::feature::record::attributes::field::Value;
    let e = |what: &str, e: std::io::Error| format!("{what}: {e}");
    let mut attrs = Vec::new();
    let mut is_array = Vec::new();
    let a = r.attributes();
    for item in a.iter() {
        let (k, v) = item.map_err(|x| e("attributes", x))?;
        let vals: Result<Vec<Vec<u8>>, std::io::Error> = v.iter().map(|x| x.map(|c| c.to_vec())).collect();
        is_array.push(matches!(v, Value::Array(_)));
        attrs.push((k.to_vec(), vals.map_err(|x| e("attribute value", x))?));
    }
    Ok(Feat {
        seqid: r.reference_sequence_name().to_vec(),
        source: r.source().to_vec(),
        ty: r.ty().to_vec(),
        start: usize::from(r.feature_start().map_err(|x| e("start", x))?),
        end: usize::from(r.feature_end().map_err(|x| e("end", x))?),
        score: r.score().transpose().map_err(|x| e("score", x))?,
        strand: FeatStrand::from_noodles(r.strand().map_err(|x| e("strand", x))?),
        phase: r.phase().transpose().map_err(|x| e("phase", x))?.map(phase_n),
        attrs,
        is_array,
    })
}

fn seqid_needs_escape(s: &str) -> bool {
    s.bytes().any(|b| !(b.is_ascii_alphanumeric() || b".:^*$@!+_?-|".contains(&b)))
}

/// Compare a record read back with the model. `p` prefixes the signatures (`gff` / `gtf`),
/// `seqid_known` marks the recorded GFF3 seqid class.
fn compare_feat(p: &str, via: &str, i: usize, want: &FeatRec, got: &Feat, seqid_known: bool, fails: &mut Fails) {
    let ctx = format!("{via} line #{i}");
    if got.seqid != want.seqid.as_bytes() {
        let sig = if seqid_known { SIG_SEQID.to_string() } else { format!("{p}.seqid") };
        fails.push(sig, format!("{ctx}: seqid {:?} read back as {:?}", want.seqid, bs(&got.seqid)));
    }
    if got.source != want.source.as_bytes() {
        fails.push(format!("{p}.source"), format!("{ctx}: source {:?} read back as {:?}", want.source, bs(&got.source)));
    }
    if got.ty != want.ty.as_bytes() {
        fails.push(format!("{p}.type"), format!("{ctx}: type {:?} read back as {:?}", want.ty, bs(&got.ty)));
    }
    if got.start as u64 != want.start || got.end as u64 != want.end {
        fails.push(format!("{p}.position"), format!("{ctx}: {}-{} read back as {}-{}", want.start, want.end, got.start, got.end));
    }
    if got.score != want.score() {
        fails.push(format!("{p}.score"), format!("{ctx}: score {:?} read back as {:?}", want.score(), got.score));
    }
    if got.strand != want.strand {
        fails.push(format!("{p}.strand"), format!("{ctx}: strand {:?} read back as {:?}", want.strand, got.strand));
    }
    if got.phase != want.phase {
        fails.push(format!("{p}.phase"), format!("{ctx}: phase {:?} read back as {:?}", want.phase, got.phase));
    }
    // attributes: the same tag → values map (the owned type is an insertion-ordered map whose
    // equality ignores tag order, so tag order is not asserted); values in order
    if got.attrs.len() != want.attrs.len() {
        fails.push(format!("{p}.attrs.count"), format!("{ctx}: {} attributes written, {} read: {:?} vs {:?}", want.attrs.len(), got.attrs.len(), want.attrs, show_attrs(&got.attrs)));
        return;
    }
    for (k, vs) in &want.attrs {
        match got.attrs.iter().position(|(gk, _)| gk == k.as_bytes()) {
            None => fails.push(format!("{p}.attrs.tag"), format!("{ctx}: tag {k:?} not found among {:?}", show_attrs(&got.attrs))),
            Some(j) => {
                let gv = &got.attrs[j].1;
                let same: bool = gv.len() == vs.len() && gv.iter().zip(vs).all(|(a, b)| a == b.as_bytes());
                if !same {
                    let mut sorted_g: Vec<&[u8]> = gv.iter().map(|v| &v[..]).collect();
                    let mut sorted_w: Vec<&[u8]> = vs.iter().map(|v| v.as_bytes()).collect();
                    sorted_g.sort();
                    sorted_w.sort();
                    let sig = if sorted_g == sorted_w { "attrs.value-order" } else { "attrs.value" };
                    fails.push(format!("{p}.{sig}"), format!("{ctx}: tag {k:?} values {vs:?} read back as {:?}", gv.iter().map(|v| bs(v)).collect::<Vec<_>>()));
                } else if got.is_array[j] != (vs.len() >= 2) {
                    fails.push(format!("{p}.attrs.kind"), format!("{ctx}: tag {k:?} with {} value(s) read back as {}", vs.len(), if got.is_array[j] { "an array" } else { "a string" }));
                }
            }
        }
    }
}

fn show_attrs(a: &[(Vec<u8>, Vec<Vec<u8>>)]) -> Vec<(BString, Vec<BString>)> {
    a.iter().map(|(k, v)| (bs(k), v.iter().map(|x| bs(x)).collect())).collect()
}

// ------------------------------------------------------------------------------------------------
// GFF3

#[derive(Clone, Debug, Serialize, Deserialize)]
pub struct GffCase {
    pub doc: GffDoc,
    pub cap: u8,
    /// harness-built text: CRLF terminators
    pub crlf: bool,
    /// harness-built text: an empty line after every n-th line
    pub blank_every: Option<u8>,
}

fn gff_strategy(tier: Tier) -> BoxedStrategy<GffCase> {
    // One document in ten may carry seqids that need escaping, one in ten comment lines: both are
    // recorded findings of the pinned tree, and the rest of the search must go on behind them.
    let doc = (prop_oneof![9 => Just(true), 1 => Just(false)], prop_oneof![9 => Just(false), 1 => Just(true)]).prop_flat_map(move |(plain, comments)| text::gff_doc(tier.pick(6, 10), plain, comments));
    (doc, cap_strategy(), any::<bool>(), proptest::option::weighted(0.3, 1u8..=3)).prop_map(|(doc, cap, crlf, blank_every)| GffCase { doc, cap, crlf, blank_every }).boxed()
}

fn compare_directive(via: &str, i: usize, want: &GffDirective, got: &gff::DirectiveBuf, fails: &mut Fails) {
    use gff::directive_buf::{Value, value};
    let (k, v) = want.key_value();
    let ctx = format!("{via} line #{i}");
    if got.key() != k.as_bytes() {
        fails.push("gff.directive.key", format!("{ctx}: key {k:?} read back as {:?}", got.key()));
        return;
    }
    // the reader hands every value back as text; a typed value written must parse back to itself
    let text: Option<Vec<u8>> = match got.value() {
        None => None,
        Some(Value::String(s)) => Some(s.to_vec()),
        Some(Value::GffVersion(x)) => Some(x.to_string().into_bytes()),
        Some(Value::SequenceRegion(x)) => Some(x.to_string().into_bytes()),
        Some(Value::GenomeBuild(x)) => Some(x.to_string().into_bytes()),
    };
    if text.as_deref() != v.as_ref().map(|s| s.as_bytes()) {
        fails.push("gff.directive.value", format!("{ctx}: ##{k} value {v:?} read back as {:?}", text.as_ref().map(|t| bs(t))));
        return;
    }
    let Some(t) = text.and_then(|t| String::from_utf8(t).ok()) else { return };
    let Ok(wantbuf) = want.to_noodles() else { return };
    let typed_equal = match wantbuf.value() {
        Some(Value::GffVersion(x)) => t.parse::<value::GffVersion>().ok().as_ref() == Some(x),
        Some(Value::SequenceRegion(x)) => t.parse::<value::SequenceRegion>().ok().as_ref() == Some(x),
        Some(Value::GenomeBuild(x)) => t.parse::<value::GenomeBuild>().ok().as_ref() == Some(x),
        _ => true,
    };
    if !typed_equal {
        fails.push("gff.directive.typed", format!("{ctx}: ##{k} {t:?} does not parse back to the value written ({:?})", wantbuf.value()));
    }
}

/// Read `bytes` with `line_bufs()` and with the lazy `lines()`, compare both with the model.
fn gff_read_and_compare(via: &str, c: &GffCase, bytes: &[u8], fails: &mut Fails) {
    let mut reader = gff::io::Reader::new(with_cap(bytes, c.cap));
    let owned: Vec<Result<gff::LineBuf, String>> = reader.line_bufs().map(|r| r.map_err(|e| e.to_string())).collect();
    if owned.len() != c.doc.lines.len() {
        fails.push("gff.line-count", format!("{via}: {} lines written, {} read ({:?})", c.doc.lines.len(), owned.len(), bs(&bytes[..bytes.len().min(300)])));
        return;
    }
    let mut reader2 = gff::io::Reader::new(with_cap(bytes, c.cap));
    let lazy: Vec<Result<gff::Line, String>> = reader2.lines().map(|r| r.map_err(|e| e.to_string())).collect();
    if lazy.len() != owned.len() {
        fails.push("gff.lazy.line-count", format!("{via}: lines() yields {} lines, line_bufs() {}", lazy.len(), owned.len()));
    }
    for (i, (want, got)) in c.doc.lines.iter().zip(&owned).enumerate() {
        let got = match got {
            Ok(g) => g,
            Err(e) => {
                fails.push("gff.read.error", format!("{via} line #{i} ({}): {e}", want.canonical_text()));
                continue;
            }
        };
        match (want, got) {
            (GffLine::Record(w), gff::LineBuf::Record(g)) => {
                let gf = feat_of_buf(g);
                compare_feat("gff", via, i, w, &gf, seqid_needs_escape(&w.seqid), fails);
                // lazy view of the same line
                if let Some(Ok(line)) = lazy.get(i) {
                    match line.as_record() {
                        Some(Ok(rec)) => {
                            match feat_of_dyn(&rec) {
                                Ok(lf) => {
                                    if lf != gf {
                                        fails.push("gff.lazy.differs", format!("{via} line #{i}: lazy accessors give {lf:?}, owned record {gf:?}"));
                                    }
                                }
                                Err(e) => fails.push("gff.lazy.error", format!("{via} line #{i}: lazy accessor fails where the owned record was built: {e}")),
                            }
                            // inherent accessors and keyed lookup
                            let a = rec.attributes();
                            if a.is_empty() != gf.attrs.is_empty() {
                                fails.push("gff.lazy.attributes-is-empty", format!("{via} line #{i}: is_empty() = {} with {} attributes", a.is_empty(), gf.attrs.len()));
                            }
                            for (k, vs) in &gf.attrs {
                                if gf.attrs.iter().filter(|(k2, _)| k2 == k).count() != 1 {
                                    continue;
                                }
                                let got: Option<Vec<Vec<u8>>> = match a.get(k) {
                                    Some(Ok(gff::record::attributes::field::Value::String(s))) => Some(vec![s.to_vec()]),
                                    Some(Ok(gff::record::attributes::field::Value::Array(arr))) => Some(arr.iter().map(|x| x.to_vec()).collect()),
                                    _ => None,
                                };
                                if got.as_ref() != Some(vs) {
                                    fails.push("gff.lazy.attributes-get", format!("{via} line #{i}: attributes().get({:?}) = {:?}, iteration gives {:?}", bs(k), got.map(|g| g.iter().map(|x| bs(x)).collect::<Vec<_>>()), vs.iter().map(|x| bs(x)).collect::<Vec<_>>()));
                                }
                            }
                            match gff::feature::RecordBuf::try_from_feature_record(&rec) {
                                Ok(rb) => {
                                    if rb != *g {
                                        fails.push("gff.lazy.differs", format!("{via} line #{i}: RecordBuf built from the lazy record {rb:?} differs from line_bufs() {g:?}"));
                                    }
                                }
                                Err(e) => fails.push("gff.lazy.error", format!("{via} line #{i}: try_from_feature_record: {e}")),
                            }
                        }
                        Some(Err(e)) => fails.push("gff.lazy.error", format!("{via} line #{i}: as_record: {e}")),
                        None => fails.push("gff.lazy.kind", format!("{via} line #{i}: lazy line is {:?}, owned line is a record", line.kind())),
                    }
                }
            }
            (GffLine::Directive(w), gff::LineBuf::Directive(g)) => {
                compare_directive(via, i, w, g, fails);
                if let Some(Ok(line)) = lazy.get(i) {
                    match line.as_directive() {
                        Some(d) => {
                            if d.key() != g.key() || d.value().map(|v| v.to_vec()) != g.value().and_then(|v| if let gff::directive_buf::Value::String(s) = v { Some(s.to_vec()) } else { None }) {
                                fails.push("gff.lazy.differs", format!("{via} line #{i}: lazy directive ({:?}, {:?}) differs from owned {g:?}", d.key(), d.value()));
                            }
                        }
                        None => fails.push("gff.lazy.kind", format!("{via} line #{i}: lazy line is {:?}, owned line is a directive", line.kind())),
                    }
                }
            }
            (GffLine::Comment(w), gff::LineBuf::Comment(g)) => {
                if g.as_slice() != w.as_bytes() {
                    let mut prefixed = b"#".to_vec();
                    prefixed.extend_from_slice(w.as_bytes());
                    let sig = if g.as_slice() == &prefixed[..] { SIG_GFF_COMMENT } else { "gff.comment" };
                    fails.push(sig, format!("{via} line #{i}: comment {w:?} read back as {g:?}"));
                }
                if let Some(Ok(line)) = lazy.get(i) {
                    if line.as_comment().map(|s| s.to_vec()) != Some(w.as_bytes().to_vec()) {
                        fails.push("gff.lazy.comment", format!("{via} line #{i}: Line::as_comment() = {:?} for comment {w:?}", line.as_comment()));
                    }
                }
            }
            (w, g) => fails.push("gff.line-kind", format!("{via} line #{i}: wrote {}, read {g:?}", w.canonical_text())),
        }
    }
    // record_bufs(): the records only, in order
    let mut reader3 = gff::io::Reader::new(with_cap(bytes, c.cap));
    let recs: Vec<Result<gff::feature::RecordBuf, String>> = reader3.record_bufs().map(|r| r.map_err(|e| e.to_string())).collect();
    let owned_recs: Vec<&gff::feature::RecordBuf> = owned.iter().filter_map(|l| if let Ok(gff::LineBuf::Record(r)) = l { Some(r) } else { None }).collect();
    let all_ok = owned.iter().all(|l| l.is_ok());
    if all_ok && (recs.len() != owned_recs.len() || recs.iter().zip(&owned_recs).any(|(a, b)| a.as_ref().ok() != Some(*b))) {
        fails.push("gff.record-bufs.differs", format!("{via}: record_bufs() yields {} records, line_bufs() {} record lines (or they differ)", recs.len(), owned_recs.len()));
    }
}

/// The statement's output half: reserved characters are percent-encoded on output. Checked on the
/// structure of the written line, independently of the reader: nine tab-separated columns; the
/// seqid column holds only `[a-zA-Z0-9.:^*$@!+_?-|]` and `%XX`; the attribute column holds no raw
/// control character or `&`, exactly the structural `;` `=` `,` the model implies, and every `%`
/// starts an escape. (`source`/`type` are written raw by design of the pinned tree — not asserted.)
fn gff_written_form(i: usize, want: &FeatRec, line: &[u8], fails: &mut Fails) {
    let cols: Vec<&[u8]> = line.split(|b| *b == b'\t').collect();
    if cols.len() != 9 {
        fails.push("gff.write.columns", format!("line #{i}: {} tab-separated columns in {:?}", cols.len(), bs(line)));
        return;
    }
    let escapes_ok = |col: &[u8]| {
        let mut k = 0;
        while k < col.len() {
            if col[k] == b'%' {
                if !(col.get(k + 1).is_some_and(|b| b.is_ascii_hexdigit()) && col.get(k + 2).is_some_and(|b| b.is_ascii_hexdigit())) {
                    return false;
                }
                k += 3;
            } else {
                k += 1;
            }
        }
        true
    };
    let seqid = cols[0];
    if !seqid.iter().all(|b| b.is_ascii_alphanumeric() || b".:^*$@!+_?-|%".contains(b)) || !escapes_ok(seqid) {
        fails.push("gff.write.seqid-unescaped", format!("line #{i}: seqid {:?} written as {:?}", want.seqid, bs(seqid)));
    }
    let a = cols[8];
    if want.attrs.is_empty() {
        if a != b"." {
            fails.push("gff.write.attr-form", format!("line #{i}: no attributes written as {:?}", bs(a)));
        }
        return;
    }
    let count = |ch: u8| a.iter().filter(|b| **b == ch).count();
    let n = want.attrs.len();
    let commas: usize = want.attrs.iter().map(|(_, vs)| vs.len() - 1).sum();
    let raw_reserved = a.iter().any(|b| *b < 0x20 || *b == 0x7f || *b == b'&');
    if raw_reserved || count(b';') != n - 1 || count(b'=') != n || count(b',') != commas || !escapes_ok(a) {
        fails.push("gff.write.attr-unescaped", format!("line #{i}: attributes {:?} written as {:?}: a reserved character is not percent-encoded (or the structure is off)", want.attrs, bs(a)));
    }
}

fn gff_check(c: &GffCase) -> Verdict {
    let mut fails = Fails::new();
    let recs: Vec<&FeatRec> = c.doc.records().collect();
    let mut pass = Pass::new(false, key_of(c));

    // (a) through the noodles writer. A CDS without phase is documented as rejected; it is
    // generated never, so every document must be written.
    match c.doc.write_with_noodles() {
        Err(e) => fails.push("gff.write.error", format!("gff::io::Writer rejects {:?}: {e}", c.doc.lines.iter().map(|l| l.canonical_text()).collect::<Vec<_>>())),
        Ok(bytes) => {
            let nlines = bytes.iter().filter(|b| **b == b'\n').count();
            if nlines != c.doc.lines.len() {
                fails.push("gff.write.line-structure", format!("{} lines written as {nlines} text lines: a field carried a raw line terminator: {:?}", c.doc.lines.len(), bs(&bytes[..bytes.len().min(300)])));
            } else {
                for (i, (l, text)) in c.doc.lines.iter().zip(bytes.split(|b| *b == b'\n')).enumerate() {
                    if let GffLine::Record(r) = l {
                        gff_written_form(i, r, text, &mut fails);
                    }
                }
                gff_read_and_compare("noodles-written", c, &bytes, &mut fails);
            }
        }
    }
    // (b) harness-built text
    let text = c.doc.render(c.crlf, c.blank_every.map(|n| n as usize));
    gff_read_and_compare("harness-rendered", c, &text, &mut fails);

    if fails.is_empty() {
        let (t, e) = text::gff_read_transcript(&text[..]);
        let want: Vec<String> = c.doc.lines.iter().map(|l| l.canonical_text()).collect();
        if e.is_some() || t != want {
            fails.push("c18.harness.transcript", format!("gff_read_transcript = {t:?} / {e:?}, canonical texts {want:?}"));
        }
    }

    let reserved = |s: &str| s.chars().any(|ch| "\t\n\r;=&,%".contains(ch));
    let any_attr = |f: &dyn Fn(&str) -> bool| recs.iter().any(|r| r.attrs.iter().any(|(k, vs)| f(k) || vs.iter().any(|v| f(v))));
    let escapes = any_attr(&reserved);
    let multi = recs.iter().any(|r| r.attrs.iter().any(|(_, vs)| vs.len() >= 2));
    pass.nontrivial = escapes || multi;
    pass = pass
        .label_if(escapes, "attr-reserved-char")
        .label_if(any_attr(&|s: &str| s.contains(',')), "attr-comma")
        .label_if(any_attr(&|s: &str| s.contains('&')), "attr-ampersand")
        .label_if(any_attr(&|s: &str| s.contains('%')), "attr-percent")
        .label_if(any_attr(&|s: &str| s.contains('\n') || s.contains('\r')), "attr-newline")
        .label_if(any_attr(&|s: &str| s.contains('\t')), "attr-tab")
        .label_if(any_attr(&|s: &str| !s.is_ascii()), "attr-non-ascii")
        .label_if(any_attr(&|s: &str| s.starts_with('>') || s.starts_with('#')), "attr-leading->#")
        .label_if(any_attr(&|s: &str| s.is_empty()), "attr-empty-string")
        .label_if(multi, "attr-multi-valued")
        .label_if(recs.iter().any(|r| r.attrs.is_empty()), "no-attributes")
        .label_if(recs.iter().any(|r| seqid_needs_escape(&r.seqid)), "seqid-needs-escape")
        .label_if(recs.iter().any(|r| r.seqid.is_empty() || r.source.is_empty() || r.ty.is_empty()), "empty-plain-column")
        .label_if(recs.iter().any(|r| r.ty == "CDS"), "type-CDS")
        .label_if(recs.iter().any(|r| r.score_bits.is_none()), "score-missing")
        .label_if(recs.iter().any(|r| r.score_bits.is_some()), "score-present")
        .label_if(recs.iter().any(|r| r.phase.is_some()), "phase-present")
        .label_if(recs.iter().any(|r| r.strand == FeatStrand::Unknown), "strand-unknown")
        .label_if(recs.iter().any(|r| r.end > u32::MAX as u64), "position>2^32")
        .label_if(c.doc.lines.iter().any(|l| matches!(l, GffLine::Directive(_))), "directive")
        .label_if(c.doc.lines.iter().any(|l| matches!(l, GffLine::Directive(GffDirective::Version { .. } | GffDirective::SequenceRegion { .. } | GffDirective::GenomeBuild { .. }))), "typed-directive")
        .label_if(c.doc.lines.iter().any(|l| matches!(l, GffLine::Comment(_))), "comment")
        .label_if(c.cap != 0 && c.cap <= 3, "cap<=3");
    fails.finish(pass.label("passed-without-known-finding"))
}

// ------------------------------------------------------------------------------------------------
// GTF

#[derive(Clone, Debug, Serialize, Deserialize)]
pub struct GtfCase {
    pub doc: GtfDoc,
    pub cap: u8,
    /// harness-built text: CRLF terminators
    pub crlf: bool,
    /// harness-built text: all-digit values without quotes
    pub bare_numbers: bool,
}

fn gtf_strategy(tier: Tier) -> BoxedStrategy<GtfCase> {
    // `"` inside a value is a recorded finding (the reader ends the string at the escaped quote):
    // seven documents in eight are generated without it so that the search goes on behind it.
    (prop_oneof![7 => Just(false), 1 => Just(true)].prop_flat_map(move |quotes| text::gtf_doc(tier.pick(6, 10), quotes)), cap_strategy(), any::<bool>(), any::<bool>())
        .prop_map(|(doc, cap, crlf, bare_numbers)| GtfCase { doc, cap, crlf, bare_numbers })
        .boxed()
}

fn has_quote(r: &FeatRec) -> bool {
    r.attrs.iter().any(|(_, vs)| vs.iter().any(|v| v.contains('"')))
}

enum Lost {
    Error(String),
    Panic(String, String),
}

fn gtf_read_and_compare(via: &str, c: &GtfCase, bytes: &[u8], fails: &mut Fails) {
    // The lazy GTF record's `feature::Record::attributes` unwraps the attribute parse, so a line
    // can panic inside `line_bufs()`: catch per line and keep reading.
    let mut reader = gtf::io::Reader::new(with_cap(bytes, c.cap));
    let mut it = reader.line_bufs();
    let mut owned: Vec<Result<gtf::LineBuf, Lost>> = Vec::new();
    while owned.len() <= c.doc.lines.len() + 4 {
        match crate::engine::panics::catch(std::panic::AssertUnwindSafe(|| it.next())) {
            Ok(None) => break,
            Ok(Some(r)) => owned.push(r.map_err(|e| Lost::Error(e.to_string()))),
            Err(p) => owned.push(Err(Lost::Panic(p.sig(), p.describe()))),
        }
    }
    drop(it);
    if owned.len() != c.doc.lines.len() {
        fails.push("gtf.line-count", format!("{via}: {} lines written, {} read ({:?})", c.doc.lines.len(), owned.len(), bs(&bytes[..bytes.len().min(300)])));
        return;
    }
    let mut reader2 = gtf::io::Reader::new(with_cap(bytes, c.cap));
    let lazy: Vec<Result<gtf::Line, String>> = reader2.lines().map(|r| r.map_err(|e| e.to_string())).collect();
    for (i, (want, got)) in c.doc.lines.iter().zip(&owned).enumerate() {
        let quote_class = matches!(want, GtfLine::Record(r) if has_quote(r));
        let got = match got {
            Ok(g) => g,
            Err(Lost::Error(e)) => {
                fails.push(if quote_class { SIG_GTF_QUOTE } else { "gtf.read.error" }, format!("{via} line #{i} ({}): {e}", want.canonical_text()));
                continue;
            }
            Err(Lost::Panic(sig, desc)) => {
                fails.push(if quote_class { format!("{SIG_GTF_QUOTE}/{sig}") } else { sig.clone() }, format!("{via} line #{i} ({}): {desc}", want.canonical_text()));
                continue;
            }
        };
        match (want, got) {
            (GtfLine::Record(w), gtf::LineBuf::Record(g)) => {
                let gf = feat_of_buf(g);
                if quote_class {
                    // compare the columns the finding cannot touch, and the attributes under its signature
                    let mut sub = Fails::new();
                    compare_feat("gtf", via, i, w, &gf, false, &mut sub);
                    for f in sub.0 {
                        let sig = if f.sig.starts_with("gtf.attrs") { SIG_GTF_QUOTE.to_string() } else { f.sig };
                        fails.push(sig, f.msg);
                    }
                } else {
                    compare_feat("gtf", via, i, w, &gf, false, fails);
                }
                if let Some(Ok(line)) = lazy.get(i) {
                    match line.as_record() {
                        Some(Ok(rec)) => {
                            // inherent lazy accessors (the trait impl unwraps the attribute parse)
                            let attrs = rec.attributes();
                            let lazy_attrs: Result<Vec<(Vec<u8>, Vec<Vec<u8>>)>, String> = match &attrs {
                                Ok(a) => a.iter().map(|item| item.map(|(k, v)| (k.to_vec(), v.iter().map(|x| x.to_vec()).collect())).map_err(|e| e.to_string())).collect(),
                                Err(e) => Err(e.to_string()),
                            };
                            let scalar = (|| -> Result<_, std::io::Error> {
                                Ok((rec.reference_sequence_name().to_vec(), rec.source().to_vec(), rec.ty().to_vec(), usize::from(rec.start()?), usize::from(rec.end()?), rec.score().transpose()?, FeatStrand::from_noodles(rec.strand()?), rec.phase().transpose()?.map(phase_n)))
                            })();
                            match (scalar, lazy_attrs) {
                                (Ok(s), Ok(a)) => {
                                    let same = s == (gf.seqid.clone(), gf.source.clone(), gf.ty.clone(), gf.start, gf.end, gf.score, gf.strand, gf.phase) && a == gf.attrs;
                                    if !same {
                                        fails.push("gtf.lazy.differs", format!("{via} line #{i}: lazy accessors give {s:?} {:?}, owned record {gf:?}", show_attrs(&a)));
                                    }
                                }
                                (s, a) => fails.push("gtf.lazy.error", format!("{via} line #{i}: lazy accessor fails where the owned record was built: {:?} {:?}", s.err().map(|e| e.to_string()), a.err())),
                            }
                        }
                        Some(Err(e)) => fails.push("gtf.lazy.error", format!("{via} line #{i}: as_record: {e}")),
                        None => fails.push("gtf.lazy.kind", format!("{via} line #{i}: lazy line is a comment, owned line is a record")),
                    }
                }
            }
            (GtfLine::Comment(w), gtf::LineBuf::Comment(g)) => {
                if g.as_slice() != w.as_bytes() {
                    fails.push("gtf.comment", format!("{via} line #{i}: comment {w:?} read back as {g:?}"));
                }
            }
            (w, g) => fails.push("gtf.line-kind", format!("{via} line #{i}: wrote {}, read {g:?}", w.canonical_text())),
        }
    }
}

fn gtf_check(c: &GtfCase) -> Verdict {
    let mut fails = Fails::new();
    match c.doc.write_with_noodles() {
        Err(e) => fails.push("gtf.write.error", format!("gtf::io::Writer rejects {:?}: {e}", c.doc.lines.iter().map(|l| l.canonical_text()).collect::<Vec<_>>())),
        Ok(bytes) => gtf_read_and_compare("noodles-written", c, &bytes, &mut fails),
    }
    let text = c.doc.render_with(c.crlf, c.bare_numbers);
    gtf_read_and_compare("harness-rendered", c, &text, &mut fails);
    if fails.is_empty() && !c.doc.records().any(has_quote) {
        let (t, e) = text::gtf_read_transcript(&text[..]);
        let want: Vec<String> = c.doc.lines.iter().map(|l| l.canonical_text()).collect();
        if e.is_some() || t != want {
            fails.push("c18.harness.transcript", format!("gtf_read_transcript = {t:?} / {e:?}, canonical texts {want:?}"));
        }
    }

    let recs: Vec<&FeatRec> = c.doc.records().collect();
    let any_val = |f: &dyn Fn(&str) -> bool| recs.iter().any(|r| r.attrs.iter().any(|(_, vs)| vs.iter().any(|v| f(v))));
    let bslash = any_val(&|s: &str| s.contains('\\'));
    let quote = any_val(&|s: &str| s.contains('"'));
    let multi = recs.iter().any(|r| r.attrs.iter().any(|(_, vs)| vs.len() >= 2));
    let pass = Pass::new(bslash || quote || multi, key_of(c))
        .label_if(bslash, "value-backslash")
        .label_if(quote, "value-quote")
        .label_if(any_val(&|s: &str| s.ends_with('\\')), "value-trailing-backslash")
        .label_if(any_val(&|s: &str| s.contains(';')), "value-semicolon")
        .label_if(any_val(&|s: &str| s.contains(' ')), "value-space")
        .label_if(any_val(&|s: &str| s.is_empty()), "value-empty")
        .label_if(any_val(&|s: &str| !s.is_ascii()), "value-non-ascii")
        .label_if(multi, "attr-multi-valued")
        .label_if(recs.iter().any(|r| r.attrs.is_empty()), "no-attributes")
        .label_if(recs.iter().any(|r| r.score_bits.is_none()), "score-missing")
        .label_if(recs.iter().any(|r| r.phase.is_some()), "phase-present")
        .label_if(recs.iter().any(|r| r.source.is_empty() || r.ty.is_empty()), "empty-plain-column")
        .label_if(c.doc.lines.iter().any(|l| matches!(l, GtfLine::Comment(_))), "comment")
        .label_if(c.bare_numbers && any_val(&|s: &str| !s.is_empty() && s.bytes().all(|b| b.is_ascii_digit())), "bare-number-value")
        .label_if(c.cap != 0 && c.cap <= 3, "cap<=3");
    fails.finish(pass.label("passed-without-known-finding"))
}

// ------------------------------------------------------------------------------------------------
// BED

#[derive(Clone, Debug, Serialize, Deserialize)]
pub struct BedCase {
    pub doc: BedDoc,
    /// standard-field count the reader is instantiated with (≤ doc.n: the remaining standard
    /// columns must then come back as other fields)
    pub read_n: u8,
    pub cap: u8,
    pub crlf: bool,
}

fn bed_strategy(tier: Tier) -> BoxedStrategy<BedCase> {
    (text::bed_doc(tier.pick(6, 10)), any::<u16>(), cap_strategy(), any::<bool>())
        .prop_map(|(doc, sel, cap, crlf)| {
            // mostly the same arity as written
            let read_n = if sel % 4 == 0 { 3 + pick_idx(sel, (doc.n - 2) as usize) as u8 } else { doc.n };
            BedCase { doc, read_n, cap, crlf }
        })
        .boxed()
}

/// What one lazily read BED line exposes, as plain data.
#[derive(Debug, Clone, PartialEq)]
struct BedSeen {
    chrom: Vec<u8>,
    start: usize,
    end: Option<usize>,
    name: Option<Option<Vec<u8>>>,
    score: Option<u16>,
    strand: Option<Option<bool>>,
    other: Vec<Vec<u8>>,
}

fn strand_b(s: bed::feature::record::Strand) -> bool {
    matches!(s, bed::feature::record::Strand::Forward)
}

fn other_texts(o: &dyn bed::feature::record::OtherFields) -> Vec<Vec<u8>> {
    use bed::feature::record::other_fields::Value as V;
    o.iter()
        .map(|v| match v {
            V::String(s) => s.to_vec(),
            V::Int64(n) => n.to_string().into_bytes(),
            V::UInt64(n) => n.to_string().into_bytes(),
            V::Float64(n) => n.to_string().into_bytes(),
            V::Character(c) => vec![c],
        })
        .collect()
}

macro_rules! bed_reader {
    ($fname:ident, $n:literal, |$rec:ident| $name:expr, $score:expr, $strand:expr, |$buf:ident| $bname:expr, $bscore:expr, $bstrand:expr) => {
        /// (lazy accessors, owned record built from the lazy one) per line
        fn $fname(bytes: &[u8], cap: u8) -> Result<Vec<(BedSeen, BedSeen)>, String> {
            let mut reader = bed::io::Reader::<$n, _>::new(with_cap(bytes, cap));
            let mut $rec = bed::Record::<$n>::default();
            let mut out = Vec::new();
            loop {
                match reader.read_record(&mut $rec) {
                    Ok(0) => break,
                    Ok(_) => {}
                    Err(e) => return Err(format!("read_record (line #{}): {e}", out.len())),
                }
                let e = |what: &str, e: std::io::Error| format!("line #{}: {what}: {e}", out.len());
                let lazy = BedSeen {
                    chrom: $rec.reference_sequence_name().to_vec(),
                    start: usize::from($rec.feature_start().map_err(|x| e("feature_start", x))?),
                    end: $rec.feature_end().transpose().map_err(|x| e("feature_end", x))?.map(usize::from),
                    name: $name,
                    score: $score.map_err(|x| e("score", x))?,
                    strand: $strand.map_err(|x| e("strand", x))?,
                    other: $rec.other_fields().iter().map(|s| s.to_vec()).collect(),
                };
                let $buf = bed::feature::RecordBuf::<$n>::try_from_feature_record(&$rec).map_err(|x| e("try_from_feature_record", x))?;
                let owned = BedSeen {
                    chrom: $buf.reference_sequence_name().to_vec(),
                    start: usize::from($buf.feature_start()),
                    end: $buf.feature_end().map(usize::from),
                    name: $bname,
                    score: $bscore,
                    strand: $bstrand,
                    other: other_texts(&$buf.other_fields()),
                };
                if $buf.standard_field_count() != $n || $rec.standard_field_count() != $n {
                    return Err(format!("standard_field_count() is not {}", $n));
                }
                out.push((lazy, owned));
            }
            Ok(out)
        }
    };
}

type IoR<T> = Result<T, std::io::Error>;

bed_reader!(read_bed3, 3, |r| None, IoR::Ok(None), IoR::Ok(None), |b| None, None, None);
bed_reader!(read_bed4, 4, |r| Some(r.name().map(|s| s.to_vec())), IoR::Ok(None), IoR::Ok(None), |b| Some(b.name().map(|s| s.to_vec())), None, None);
bed_reader!(read_bed5, 5, |r| Some(r.name().map(|s| s.to_vec())), r.score().map(Some), IoR::Ok(None), |b| Some(b.name().map(|s| s.to_vec())), Some(b.score()), None);
bed_reader!(read_bed6, 6, |r| Some(r.name().map(|s| s.to_vec())), r.score().map(Some), r.strand().map(|s| Some(s.map(strand_b))), |b| Some(b.name().map(|s| s.to_vec())), Some(b.score()), Some(b.strand().map(strand_b)));

fn bed_expected(r: &BedRec, n: u8, read_n: u8) -> BedSeen {
    let cols = r.columns(n);
    BedSeen {
        chrom: r.chrom.as_bytes().to_vec(),
        start: r.start as usize,
        end: r.end.map(|e| e as usize),
        name: if read_n >= 4 { Some(r.name.as_ref().map(|s| s.as_bytes().to_vec())) } else { None },
        score: if read_n >= 5 { Some(r.score) } else { None },
        strand: if read_n >= 6 { Some(r.strand) } else { None },
        other: cols[read_n as usize..].iter().map(|s| s.as_bytes().to_vec()).collect(),
    }
}

fn bed_read_and_compare(via: &str, c: &BedCase, bytes: &[u8], fails: &mut Fails) {
    let seen = crate::engine::panics::catch(|| match c.read_n {
        3 => read_bed3(bytes, c.cap),
        4 => read_bed4(bytes, c.cap),
        5 => read_bed5(bytes, c.cap),
        _ => read_bed6(bytes, c.cap),
    });
    let seen = match seen {
        Ok(Ok(s)) => s,
        Ok(Err(e)) => {
            fails.push("bed.read.error", format!("{via} (BED{} read as BED{}): {e}; text {:?}", c.doc.n, c.read_n, bs(&bytes[..bytes.len().min(300)])));
            return;
        }
        Err(p) => {
            fails.push(p.sig(), format!("{via}: {}", p.describe()));
            return;
        }
    };
    if seen.len() != c.doc.records.len() {
        fails.push("bed.record-count", format!("{via}: {} records written, {} read", c.doc.records.len(), seen.len()));
        return;
    }
    for (i, (want, (lazy, owned))) in c.doc.records.iter().zip(&seen).enumerate() {
        let exp = bed_expected(want, c.doc.n, c.read_n);
        if *lazy != exp {
            let sig = if lazy.chrom != exp.chrom {
                "bed.chrom"
            } else if lazy.start != exp.start || lazy.end != exp.end {
                "bed.coordinates"
            } else if lazy.name != exp.name {
                "bed.name"
            } else if lazy.score != exp.score {
                "bed.score"
            } else if lazy.strand != exp.strand {
                "bed.strand"
            } else if lazy.other.len() != exp.other.len() {
                "bed.other-fields.count"
            } else {
                "bed.other-fields.value"
            };
            fails.push(sig, format!("{via} line #{i} (BED{} read as BED{}): wrote {}, read {}", c.doc.n, c.read_n, show_seen(&exp), show_seen(lazy)));
        }
        if lazy != owned {
            fails.push("bed.lazy.differs", format!("{via} line #{i}: lazy accessors {}, owned record built from them {}", show_seen(lazy), show_seen(owned)));
        }
    }
}

fn show_seen(s: &BedSeen) -> String {
    format!(
        "{{chrom {:?} start {} end {:?} name {:?} score {:?} strand {:?} other {:?}}}",
        bs(&s.chrom),
        s.start,
        s.end,
        s.name.as_ref().map(|n| n.as_ref().map(|x| bs(x))),
        s.score,
        s.strand,
        s.other.iter().map(|x| bs(x)).collect::<Vec<_>>()
    )
}

fn bed_check(c: &BedCase) -> Verdict {
    let mut fails = Fails::new();
    match c.doc.write_with_noodles() {
        Err(e) => fails.push("bed.write.error", format!("bed::io::Writer<{}> rejects {:?}: {e}", c.doc.n, c.doc.records.iter().map(|r| r.canonical_text(c.doc.n)).collect::<Vec<_>>())),
        Ok(bytes) => {
            // the byte form is defined by the column list (tab separated, LF)
            let want: Vec<u8> = BedDoc { comments: vec![], ..c.doc.clone() }.render(false);
            if bytes != want {
                fails.push("bed.write.bytes", format!("bed::io::Writer<{}> wrote {:?}, columns are {:?}", c.doc.n, bs(&bytes[..bytes.len().min(300)]), bs(&want[..want.len().min(300)])));
            }
            bed_read_and_compare("noodles-written", c, &bytes, &mut fails);
            // the shared transcript helper must agree with the model's canonical text
            if fails.is_empty() {
                let (t, e) = text::bed_read_transcript(c.doc.n, &bytes[..]);
                let want: Vec<String> = c.doc.records.iter().map(|r| r.canonical_text(c.doc.n)).collect();
                if e.is_some() || t != want {
                    fails.push("c18.harness.transcript", format!("bed_read_transcript = {t:?} / {e:?}, canonical texts {want:?}"));
                }
            }
        }
    }
    let text = c.doc.render(c.crlf);
    bed_read_and_compare("harness-rendered", c, &text, &mut fails);

    let recs = &c.doc.records;
    let pass = Pass::new(recs.iter().any(|r| !r.other.is_empty()) || c.doc.n >= 4, key_of(c))
        .label(match c.doc.n {
            3 => "BED3",
            4 => "BED4",
            5 => "BED5",
            _ => "BED6",
        })
        .label_if(c.read_n < c.doc.n, "read-at-lower-arity")
        .label_if(recs.iter().any(|r| !r.other.is_empty()), "other-fields")
        .label_if(c.doc.n == 6 && recs.iter().any(|r| r.other.len() == 6), "BED12")
        .label_if(recs.iter().any(|r| r.other.iter().any(|v| matches!(v, text::BedValue::Str(s) if s.is_empty()))), "other-empty-string")
        .label_if(recs.iter().any(|r| r.other.iter().any(|v| !matches!(v, text::BedValue::Str(_)))), "other-typed-value")
        .label_if(recs.iter().any(|r| r.end.is_none()), "end-missing")
        .label_if(c.doc.n >= 4 && recs.iter().any(|r| r.name.is_none()), "name-missing")
        .label_if(c.doc.n >= 6 && recs.iter().any(|r| r.strand.is_none()), "strand-missing")
        .label_if(c.doc.n >= 5 && recs.iter().any(|r| r.score > 1000), "score>1000")
        .label_if(recs.iter().any(|r| r.start > u32::MAX as u64), "position>2^32")
        .label_if(!c.doc.comments.is_empty(), "comment-lines")
        .label_if(c.crlf, "crlf")
        .label_if(c.cap != 0 && c.cap <= 3, "cap<=3");
    fails.finish(pass.label("passed-without-known-finding"))
}

pub fn property() -> Property {
    Property {
        id: "C18",
        level: "exploration",
        rule: "GFF3 documents (records with arbitrary UTF-8 / reserved characters in seqid, attribute tags and values, 0..5 attributes × 1..4 ordered values, all strands/phases/finite scores incl. missing, typed and free directives, comments), GTF documents (values with quotes, backslashes, `;`, spaces; repeated keys), BED3..BED6 documents with 0..8 further columns incl. BED12 — each written by noodles and, independently, rendered by the harness from the format rules; read back owned and lazily",
        assumptions: vec![
            "the harness's own GFF3/GTF/BED renderers (gen/text.rs) follow the format rules they cite".into(),
            "attribute tag order is not asserted (the owned attribute map's equality ignores it); value order inside an attribute is".into(),
            "values no format can carry are not generated: BED name `.`, GTF seqid starting with `#`, non-finite scores, tab/CR/LF in raw columns".into(),
        ],
        subs: vec![
            sub("gff3", "non-trivial = an attribute tag/value with a reserved character (tab LF CR ; = & , %) or a multi-valued attribute; distinct by hash of the case", gff_strategy, gff_check, 80_000, 1_500_000).boxed(),
            sub("gtf", "non-trivial = a value with a backslash or quote, or a repeated key; distinct by hash of the case", gtf_strategy, gtf_check, 80_000, 1_500_000).boxed(),
            sub("bed", "non-trivial = ≥4 standard fields or ≥1 further column; distinct by hash of the case", bed_strategy, bed_check, 80_000, 1_500_000).boxed(),
        ],
        max_parallel: 16,
    }
}
