//! Property registry.

use crate::engine::Property;

pub mod c01;

pub fn ids() -> Vec<&'static str> {
    vec!["C01"]
}

pub fn lookup(id: &str) -> Option<Property> {
    match id {
        "C01" => Some(c01::property()),
        _ => None,
    }
}
