//! C01 — BGZF write/read is the identity and every emitted file is well-formed BGZF.

use crate::engine::*;
use crate::r#gen::payload::{Payload, payload};
use crate::io_adv::sink::SharedSink;
use crate::oracle::{bgzf_walk, pyzlib};
use crate::{ensure, ensure_eq};
use noodles_bgzf as bgzf;
use proptest::prelude::*;
use serde::{Deserialize, Serialize};
use std::io::{Read, Write};

#[derive(Clone, Debug, Serialize, Deserialize)]
pub enum Op {
    /// one raw `write()` call offered `n` bytes; the returned count is honoured
    Write(u32),
    /// `write_all` of `n` bytes
    WriteAll(u32),
    Flush,
}

#[derive(Clone, Debug, Serialize, Deserialize)]
pub enum End {
    Finish,
    TryFinishThenDrop,
    Drop,
}

#[derive(Clone, Debug, Serialize, Deserialize)]
pub struct Case {
    pub payload: Payload,
    /// None = writer default
    pub level: Option<u8>,
    pub ops: Vec<Op>,
    pub end: End,
}

fn op_len() -> BoxedStrategy<u32> {
    prop_oneof![
        3 => 0u32..200,
        2 => 60_000u32..70_000,
        1 => proptest::sample::select(vec![0u32, 1, 65279, 65280, 65281, 65494, 65495, 65496, 65535, 65536, 65537, 130990]),
        1 => 0u32..250_000,
    ]
    .boxed()
}

fn op() -> BoxedStrategy<Op> {
    prop_oneof![
        3 => op_len().prop_map(Op::Write),
        3 => op_len().prop_map(Op::WriteAll),
        2 => Just(Op::Flush),
    ]
    .boxed()
}

fn strategy(tier: Tier) -> BoxedStrategy<Case> {
    let max = tier.pick(300_000, 420_000);
    (
        payload(max),
        prop_oneof![1 => Just(None), 5 => (0u8..=9).prop_map(Some)],
        proptest::collection::vec(op(), 0..12),
        prop_oneof![Just(End::Finish), Just(End::TryFinishThenDrop), Just(End::Drop)],
    )
        .prop_map(|(payload, level, ops, end)| Case { payload, level, ops, end })
        .boxed()
}

fn check(c: &Case) -> Verdict {
    let data = c.payload.expand();
    let sink = SharedSink::new();
    let mut builder = bgzf::io::writer::Builder::default();
    if let Some(l) = c.level {
        let level = bgzf::io::writer::CompressionLevel::new(l).ok_or_else(|| vec![Fail::new("c01.level-rejected", format!("level {l} rejected"))])?;
        builder = builder.set_compression_level(level);
    }
    let mut w = builder.build_from_writer(sink.clone());
    let mut off = 0usize;
    let mut interior_flush = false;
    for op in &c.ops {
        match op {
            Op::Write(n) => {
                let end = (off + *n as usize).min(data.len());
                let buf = &data[off..end];
                let k = w.write(buf).map_err(|e| vec![Fail::new("c01.write-error", format!("write returned {e}"))])?;
                ensure!(k <= buf.len(), "c01.write-count", "write({}) returned {}", buf.len(), k);
                ensure!(buf.is_empty() || k > 0, "c01.write-zero", "write of {} bytes returned 0", buf.len());
                off += k;
            }
            Op::WriteAll(n) => {
                let end = (off + *n as usize).min(data.len());
                w.write_all(&data[off..end]).map_err(|e| vec![Fail::new("c01.write-error", format!("write_all returned {e}"))])?;
                off = end;
            }
            Op::Flush => {
                w.flush().map_err(|e| vec![Fail::new("c01.write-error", format!("flush returned {e}"))])?;
                if off > 0 && off < data.len() {
                    interior_flush = true;
                }
            }
        }
    }
    w.write_all(&data[off..]).map_err(|e| vec![Fail::new("c01.write-error", format!("final write_all returned {e}"))])?;
    match c.end {
        End::Finish => {
            let _ = w.finish().map_err(|e| vec![Fail::new("c01.write-error", format!("finish returned {e}"))])?;
        }
        End::TryFinishThenDrop => {
            w.try_finish().map_err(|e| vec![Fail::new("c01.write-error", format!("try_finish returned {e}"))])?;
            drop(w);
        }
        End::Drop => drop(w),
    }
    let file = sink.bytes();

    // Oracle 1: noodles' own reader returns the payload
    let mut back = Vec::new();
    let mut r = bgzf::io::Reader::new(&file[..]);
    r.read_to_end(&mut back).map_err(|e| vec![Fail::new("c01.reader-error", format!("Reader::read_to_end: {e}"))])?;
    ensure!(back == data, "c01.roundtrip", "reader returned {} bytes, payload has {} (first difference at {:?})", back.len(), data.len(), first_diff(&back, &data));

    // Oracle 1b: the same through read_exact and read with request sizes taken from the write
    // history (small, block-sized, straddling): every way of asking returns the payload
    {
        use std::io::Read as _;
        let mut sizes: Vec<usize> = c.ops.iter().filter_map(|o| match o { Op::Write(n) | Op::WriteAll(n) => Some((*n as usize).max(1)), Op::Flush => None }).collect();
        if sizes.is_empty() {
            sizes.push(7);
        }
        sizes.push(3);
        let mut r = bgzf::io::Reader::new(&file[..]);
        let mut got: Vec<u8> = Vec::with_capacity(data.len());
        let mut i = 0usize;
        while got.len() < data.len() {
            let n = sizes[i % sizes.len()].min(data.len() - got.len());
            i += 1;
            let at = got.len();
            got.resize(at + n, 0);
            if let Err(e) = r.read_exact(&mut got[at..]) {
                return fail1("c01.roundtrip.read-exact", format!("read_exact({n}) at payload offset {at} of {}: {e}", data.len()));
            }
        }
        ensure!(got == data, "c01.roundtrip.read-exact", "read_exact with request sizes {:?}… returned bytes that differ from the payload at {:?}", &sizes[..sizes.len().min(6)], first_diff(&got, &data));
        let mut one = [0u8; 1];
        ensure!(matches!(r.read(&mut one), Ok(0)), "c01.roundtrip.read-exact", "after the whole payload was read with read_exact a further read does not return 0");
        let mut r = bgzf::io::Reader::new(&file[..]);
        let mut got: Vec<u8> = Vec::with_capacity(data.len());
        let mut buf = vec![0u8; sizes.iter().copied().max().unwrap_or(1)];
        let mut i = 0usize;
        loop {
            let n = sizes[i % sizes.len()];
            i += 1;
            match r.read(&mut buf[..n]) {
                Ok(0) => break,
                Ok(k) => got.extend_from_slice(&buf[..k]),
                Err(e) => return fail1("c01.roundtrip.read", format!("read into {n} bytes at payload offset {}: {e}", got.len())),
            }
            if got.len() > data.len() + 70_000 {
                break;
            }
        }
        ensure!(got == data, "c01.roundtrip.read", "read with buffer sizes {:?}… returned {} bytes, payload has {} (first difference at {:?})", &sizes[..sizes.len().min(6)], got.len(), data.len(), first_diff(&got, &data));
    }

    // Oracle 2: independent walker
    let members = bgzf_walk::walk(&file).map_err(|e| vec![Fail::new("c01.malformed", e)])?;
    for m in &members {
        ensure!(m.clen <= 65536 && m.data.len() <= 65536, "c01.member-size", "member at {} has clen={} isize={}", m.cpos, m.clen, m.data.len());
    }
    ensure!(file.len() >= 28 && file[file.len() - 28..] == bgzf_walk::EOF_MARKER, "c01.eof-marker", "file does not end with the EOF marker (len {})", file.len());
    let cat = bgzf_walk::concat(&members);
    ensure!(cat == data, "c01.independent-inflate", "independent inflate gives {} bytes, payload has {} (first difference at {:?})", cat.len(), data.len(), first_diff(&cat, &data));

    // Oracle 3 (thorough): CPython zlib
    let mut py_checked = false;
    if env().tier == Tier::Thorough {
        match pyzlib::gunzip_summary(&file) {
            Ok(s) => {
                py_checked = true;
                ensure_eq!(s.len, data.len() as u64, "c01.python-zlib", "python zlib length");
                ensure_eq!(s.crc32, crc32fast::hash(&data), "c01.python-zlib", "python zlib crc32 of the stream");
                ensure_eq!(s.members as usize, members.len(), "c01.python-zlib", "python zlib member count");
            }
            Err(e) if e.starts_with("unavailable") => {}
            Err(e) => return fail1("c01.python-zlib", format!("python zlib rejects the file: {e}")),
        }
    }

    let data_blocks = members.iter().filter(|m| !m.data.is_empty()).count();
    let big_incompressible = c.payload.class % 6 == 3 && data.len() >= 65_000;
    let nontrivial = data_blocks >= 2 || interior_flush || big_incompressible || c.level == Some(0);
    Ok(Pass::new(nontrivial, key_of(c))
        .label_if(data_blocks >= 2, "blocks>=2")
        .label_if(data_blocks >= 4, "blocks>=4")
        .label_if(interior_flush, "interior-flush")
        .label_if(big_incompressible, "incompressible>=65000")
        .label_if(c.level == Some(0), "level0")
        .label_if(c.level.is_none(), "level-default")
        .label_if(data.is_empty(), "empty-payload")
        .label_if(matches!(c.end, End::Drop), "end-drop")
        .label_if(matches!(c.end, End::TryFinishThenDrop), "end-try_finish+drop")
        .label_if(members.iter().any(|m| m.data.len() == 65495), "full-staging-block")
        .label_if(py_checked, "python-zlib-checked")
        .label(c.payload.class_name()))
}

pub fn first_diff(a: &[u8], b: &[u8]) -> Option<usize> {
    a.iter().zip(b.iter()).position(|(x, y)| x != y).or(if a.len() != b.len() { Some(a.len().min(b.len())) } else { None })
}

pub fn property() -> Property {
    Property {
        id: "C01",
        level: "exploration",
        rule: "payload (content class × boundary-dense length) × write/write_all/flush history × compression level × finish/try_finish+drop/drop on bgzf::io::Writer",
        assumptions: vec![
            "miniz_oxide inflate and crc32fast are correct (independent of zlib-rs, which noodles-bgzf uses)".into(),
            "thorough tier additionally trusts CPython's zlib binding".into(),
            "default feature set only (no libdeflate)".into(),
        ],
        subs: vec![
            sub(
                "write_read",
                "non-trivial = ≥2 data blocks, or a flush strictly inside the payload, or an incompressible payload ≥65000 bytes, or level 0; distinct by hash of the whole case",
                strategy,
                check,
                200_000,
                1_500_000,
            )
            // isolated, so that an abort of the writer (a panic while another one unwinds through
            // its Drop) is attributed to the case and counts, instead of killing the shard
            .with(|o| o.isolate = true)
            .boxed(),
        ],
        max_parallel: 16,
    }
}
