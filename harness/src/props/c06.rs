//! C06 — SAM text round trip (headers and records), the text is a fixed point, and the same
//! (header, records) written as SAM and as BAM read back equal, in both directions of conversion.

use crate::engine::*;
use crate::r#gen::aln::{self, AlnDoc, AlnHeader, AlnRecord, AuxValue, B, Fields, HeaderParams, Mode, Norm, Tag, Target};
use crate::r#gen::payload::XorShift;
use crate::oracle::{bam_raw, bgzf_walk};
use crate::props::c05::{push_record_diffs, read_bam_eager, write_bam};
use noodles_bam as bam;
use noodles_sam as sam;
use proptest::prelude::*;
use sam::alignment::RecordBuf;
use sam::alignment::io::Write as _;
use serde::{Deserialize, Serialize};

fn f(sig: &str, msg: impl Into<String>) -> Vec<Fail> {
    vec![Fail::new(sig, msg)]
}

fn describe_err(e: &std::io::Error) -> String {
    let mut s = format!("{e}");
    let mut src = std::error::Error::source(e);
    while let Some(x) = src {
        s.push_str(&format!(" <- {x}"));
        src = x.source();
    }
    s
}

fn show(b: &[u8]) -> String {
    trunc(&format!("{:?}", B(b.to_vec())), 700)
}

// ---------------------------------------------------------------------------------------------
// helpers (pub: the format drivers can reuse them)
// ---------------------------------------------------------------------------------------------

pub fn write_sam_header(h: &sam::Header, sig_prefix: &str) -> Result<Vec<u8>, Vec<Fail>> {
    let mut w = sam::io::Writer::new(Vec::new());
    w.write_header(h).map_err(|e| f(&format!("{sig_prefix}.valid-rejected"), format!("SAM write_header rejects a valid header: {}", describe_err(&e))))?;
    Ok(w.into_inner())
}

/// One record as a SAM line (with the line feed).
pub fn write_sam_record(h: &sam::Header, r: &dyn sam::alignment::Record, sig: &str) -> Result<Vec<u8>, Vec<Fail>> {
    let mut w = sam::io::Writer::new(Vec::new());
    w.write_alignment_record(h, r).map_err(|e| f(sig, format!("SAM writer rejects the record: {}", describe_err(&e))))?;
    Ok(w.into_inner())
}

pub fn write_sam_doc(h: &sam::Header, records: &[RecordBuf], sig_prefix: &str) -> Result<Vec<u8>, Vec<Fail>> {
    let mut w = sam::io::Writer::new(Vec::new());
    w.write_header(h).map_err(|e| f(&format!("{sig_prefix}.header-rejected"), format!("SAM write_header: {}", describe_err(&e))))?;
    for (i, r) in records.iter().enumerate() {
        w.write_alignment_record(h, r).map_err(|e| f(&format!("{sig_prefix}.valid-rejected"), format!("SAM writer rejects valid record #{i}: {}", describe_err(&e))))?;
    }
    Ok(w.into_inner())
}

pub fn read_sam_eager(bytes: &[u8], sig_prefix: &str) -> Result<(sam::Header, Vec<AlnRecord>), Vec<Fail>> {
    let mut r = sam::io::Reader::new(bytes);
    let h = r.read_header().map_err(|e| f(&format!("{sig_prefix}.read-header-error"), format!("SAM read_header: {}", describe_err(&e))))?;
    let mut rec = RecordBuf::default();
    let mut out = Vec::new();
    loop {
        match r.read_record_buf(&h, &mut rec) {
            Ok(0) => break,
            Ok(_) => out.push(AlnRecord::from_noodles(&rec)),
            Err(e) => return Err(f(&format!("{sig_prefix}.read-error"), format!("SAM read_record_buf #{}: {}", out.len(), describe_err(&e)))),
        }
    }
    Ok((h, out))
}

fn push_header_diffs(fails: &mut Fails, prefix: &str, what: &str, got: &AlnHeader, want: &AlnHeader) {
    for (part, msg) in got.diff(want) {
        fails.push(format!("{prefix}.{part}"), format!("{what}: {part}: {} (got vs want)", trunc(&msg, 700)));
    }
}

// ---------------------------------------------------------------------------------------------
// sub-check 1: headers
// ---------------------------------------------------------------------------------------------

#[derive(Clone, Debug, Serialize, Deserialize)]
pub struct HeaderCase {
    pub header: AlnHeader,
    /// seed for the re-ordered rendering (line order, field order)
    pub shuffle: u32,
}

fn header_strategy(tier: Tier) -> BoxedStrategy<HeaderCase> {
    (aln::header(tier), any::<u32>()).prop_map(|(header, shuffle)| HeaderCase { header, shuffle }).boxed()
}

fn shuffle<T>(v: &mut [T], r: &mut XorShift) {
    for i in (1..v.len()).rev() {
        let j = (r.next() % (i as u64 + 1)) as usize;
        v.swap(i, j);
    }
}

/// The header as another SAM producer might write it: `@HD` first, then the other lines in any
/// interleaving (relative order within a kind kept), fields of a line in any order. Returns the
/// text and the model it denotes (other-fields in their order of appearance).
fn foreign_text(h: &AlnHeader, seed: u32) -> (Vec<u8>, AlnHeader) {
    let mut r = XorShift::new(seed as u64 + 77);
    let mut want = h.clone();
    let render = |kind: &[u8], id: Vec<(Tag, B)>, other: &mut Fields, r: &mut XorShift| -> Vec<u8> {
        let mut all: Vec<(Tag, B, bool)> = id.into_iter().map(|(t, v)| (t, v, true)).chain(other.iter().cloned().map(|(t, v)| (t, v, false))).collect();
        shuffle(&mut all, r);
        *other = all.iter().filter(|x| !x.2).map(|x| (x.0, x.1.clone())).collect();
        let mut l = b"@".to_vec();
        l.extend_from_slice(kind);
        for (t, v, _) in &all {
            l.push(b'\t');
            l.extend_from_slice(&t.0);
            l.push(b':');
            l.extend_from_slice(&v.0);
        }
        l.push(b'\n');
        l
    };
    let mut text = Vec::new();
    if let Some(hd) = &mut want.hd {
        let vn = B::new(format!("{}.{}", hd.major, hd.minor));
        text.extend(render(b"HD", vec![(Tag(*b"VN"), vn)], &mut hd.other, &mut r));
    }
    let mut queues: Vec<Vec<Vec<u8>>> = vec![Vec::new(); 4];
    for sq in &mut want.refs {
        let id = vec![(Tag(*b"SN"), sq.name.clone()), (Tag(*b"LN"), B::new(sq.len.to_string()))];
        queues[0].push(render(b"SQ", id, &mut sq.other, &mut r));
    }
    for rg in &mut want.read_groups {
        queues[1].push(render(b"RG", vec![(Tag(*b"ID"), rg.id.clone())], &mut rg.other, &mut r));
    }
    for pg in &mut want.programs {
        queues[2].push(render(b"PG", vec![(Tag(*b"ID"), pg.id.clone())], &mut pg.other, &mut r));
    }
    queues[3] = h.co_lines();
    let mut idx = [0usize; 4];
    loop {
        let avail: Vec<usize> = (0..4).filter(|k| idx[*k] < queues[*k].len()).collect();
        if avail.is_empty() {
            break;
        }
        let k = avail[(r.next() % avail.len() as u64) as usize];
        text.extend_from_slice(&queues[k][idx[k]]);
        idx[k] += 1;
    }
    (text, want)
}

fn header_check(c: &HeaderCase) -> Verdict {
    let h = &c.header;
    if let Some(why) = aln::header_invalid_reason(h) {
        return fail1("c06.harness.generator", format!("generated header outside the domain: {why}"));
    }
    let nh = h.to_noodles().map_err(|e| f("c06.harness.model", e))?;
    if AlnHeader::from_noodles(&nh) != *h {
        return fail1("c06.harness.model", "AlnHeader → sam::Header → AlnHeader is not the identity");
    }
    let mut fails = Fails::new();

    // write (valid ⇒ accepted), and the text denotes the header by the grammar alone
    let text = write_sam_header(&nh, "c06.header")?;
    match AlnHeader::from_text(&text) {
        Ok(m) => push_header_diffs(&mut fails, "c06.header.text", "independent parse of the written text", &m, h),
        Err(e) => fails.push("c06.header.text.malformed", format!("written header text is not SAM header grammar: {e}; text {}", show(&text))),
    }

    // parse(write(h)) = h, two entry points
    let mut rd = sam::io::Reader::new(&text[..]);
    match rd.read_header() {
        Err(e) => fails.push("c06.header.parse-error", format!("read_header rejects noodles' own output: {}; text {}", describe_err(&e), show(&text))),
        Ok(h2) => {
            push_header_diffs(&mut fails, "c06.header.parse", "read_header(write_header(h))", &AlnHeader::from_noodles(&h2), h);
            if h2 != nh && fails.is_empty() {
                fails.push("c06.header.parse.eq", "parsed header differs from the original by sam::Header's own equality");
            }
            // write(parse(t)) = t
            match write_sam_header(&h2, "c06.header.rewrite") {
                Ok(t2) => {
                    if t2 != text {
                        fails.push("c06.header.fixed-point", format!("write(parse(t)) ≠ t: {} vs {}", show(&t2), show(&text)));
                    }
                }
                Err(mut e) => fails.0.append(&mut e),
            }
        }
    }
    match std::str::from_utf8(&text) {
        Err(_) => fails.push("c06.header.text.malformed", "written header text is not UTF-8 although every value is"),
        Ok(s) => match s.parse::<sam::Header>() {
            Err(e) => fails.push("c06.header.fromstr-error", format!("str::parse::<sam::Header>() rejects noodles' own output: {e}; text {}", show(&text))),
            Ok(h2) => push_header_diffs(&mut fails, "c06.header.fromstr", "text.parse::<sam::Header>()", &AlnHeader::from_noodles(&h2), h),
        },
    }

    // the same header as another producer may lay it out
    let (ftext, fwant) = foreign_text(h, c.shuffle);
    let mut rd = sam::io::Reader::new(&ftext[..]);
    match rd.read_header() {
        Err(e) => fails.push("c06.header.foreign.parse-error", format!("read_header rejects a grammatical header: {}; text {}", describe_err(&e), show(&ftext))),
        Ok(h2) => push_header_diffs(&mut fails, "c06.header.foreign", &format!("read_header of re-ordered text {}", show(&ftext)), &AlnHeader::from_noodles(&h2), &fwant),
    }

    // BAM: text + binary dictionary
    let bytes = write_bam(&nh, &[], "c06.header.bam")?;
    let members = bgzf_walk::walk(&bytes).map_err(|e| f("c06.header.bam.bgzf-malformed", e))?;
    let stream = bgzf_walk::concat(&members);
    match bam_raw::parse_header(&stream) {
        Err(e) => fails.push("c06.header.bam.raw", format!("BAM header framing: {e}")),
        Ok(raw) => {
            let dict: Vec<(B, i64)> = raw.refs.iter().map(|(n, l)| (B(n.clone()), *l as i64)).collect();
            let want: Vec<(B, i64)> = h.refs.iter().map(|s| (s.name.clone(), s.len as i64)).collect();
            if dict != want {
                fails.push("c06.header.bam.dictionary", format!("binary reference list {} ≠ @SQ lines {}", trunc(&format!("{dict:?}"), 400), trunc(&format!("{want:?}"), 400)));
            }
            if raw.records_offset != stream.len() {
                fails.push("c06.header.bam.raw", format!("{} bytes after the reference list of a record-less BAM", stream.len() - raw.records_offset));
            }
            // the embedded text, NUL padding aside, denotes the same header
            let t = raw.text.clone();
            let t = &t[..t.iter().position(|b| *b == 0).unwrap_or(t.len())];
            match AlnHeader::from_text(t) {
                Ok(m) => push_header_diffs(&mut fails, "c06.header.bam.text", "independent parse of the text embedded in BAM", &m, h),
                Err(e) => fails.push("c06.header.bam.text.malformed", format!("{e}")),
            }
        }
    }
    match read_bam_eager(&bytes, "c06.header.bam") {
        Err(mut e) => fails.0.append(&mut e),
        Ok((h3, recs)) => {
            push_header_diffs(&mut fails, "c06.header.bam", "BAM read_header(write_header(h))", &AlnHeader::from_noodles(&h3), h);
            if !recs.is_empty() {
                fails.push("c06.header.bam.records", format!("{} records read from a record-less BAM", recs.len()));
            }
        }
    }

    let kinds = h.hd.is_some() as u32 + !h.refs.is_empty() as u32 + !h.read_groups.is_empty() as u32 + !h.programs.is_empty() as u32 + !h.comments.is_empty() as u32;
    let user_tag = |fs: &Fields| fs.iter().any(|(t, _)| t.0[0].is_ascii_lowercase() || t.0[1].is_ascii_lowercase());
    let any_other = h.hd.iter().any(|x| !x.other.is_empty()) || h.refs.iter().any(|x| !x.other.is_empty()) || h.read_groups.iter().any(|x| !x.other.is_empty()) || h.programs.iter().any(|x| !x.other.is_empty());
    let p = Pass::new(kinds >= 2 || any_other, key_of(c))
        .label_if(h.is_empty(), "empty-header")
        .label_if(h.hd.is_some(), "@HD")
        .label_if(h.hd.is_none() && !h.is_empty(), "no-@HD")
        .label_if(h.hd.as_ref().is_some_and(|x| (x.major, x.minor) < (1, 6)), "VN<1.6")
        .label_if(!h.refs.is_empty(), "@SQ")
        .label_if(h.refs.len() > 20, "@SQ>20")
        .label_if(h.refs.iter().any(|s| s.len == (1 << 31) - 1), "LN=2^31-1")
        .label_if(!h.read_groups.is_empty(), "@RG")
        .label_if(!h.programs.is_empty(), "@PG")
        .label_if(!h.comments.is_empty(), "@CO")
        .label_if(h.comments.iter().any(|c| c.0.contains(&b'\t')), "@CO-with-tab")
        .label_if(h.comments.iter().any(|c| c.0.is_empty()), "@CO-empty")
        .label_if(h.comments.iter().any(|c| !c.0.is_ascii()), "@CO-utf8")
        .label_if(kinds >= 4, "kinds>=4")
        .label_if(any_other, "other-fields")
        .label_if(h.hd.iter().any(|x| user_tag(&x.other)) || h.refs.iter().any(|x| user_tag(&x.other)) || h.read_groups.iter().any(|x| user_tag(&x.other)) || h.programs.iter().any(|x| user_tag(&x.other)), "user-tags")
        .label_if(h.refs.iter().any(|x| x.other.len() >= 2) || h.read_groups.iter().any(|x| x.other.len() >= 2) || h.programs.iter().any(|x| x.other.len() >= 2), "line-with>=2-other-fields");
    fails.finish(p)
}

// ---------------------------------------------------------------------------------------------
// sub-check 2: one record as SAM text
// ---------------------------------------------------------------------------------------------

#[derive(Clone, Debug, Serialize, Deserialize)]
pub struct RecordCase {
    pub header: AlnHeader,
    pub records: Vec<AlnRecord>,
}

fn record_strategy(tier: Tier) -> BoxedStrategy<RecordCase> {
    let mut hp = HeaderParams::for_tier(tier);
    hp.max_lines = 1;
    hp.many_refs = 40;
    aln::document_n(&hp, &Mode::sam(), 1, 3).prop_map(|d| RecordCase { header: d.header, records: d.records }).boxed()
}

fn aux_labels(mut p: Pass, rs: &[AlnRecord]) -> Pass {
    for r in rs {
        for (_, v) in &r.aux {
            p = p.label(match v {
                AuxValue::Char(_) => "aux:A",
                AuxValue::F32(_) => "aux:f",
                AuxValue::Str(_) => "aux:Z",
                AuxValue::Hex(_) => "aux:H",
                AuxValue::ArrF32(_) => "aux:B:f",
                v if v.is_array() => "aux:B:int",
                _ => "aux:int",
            });
            p = p.label_if(v.array_len() == Some(0), "aux:B-empty").label_if(matches!(v, AuxValue::Str(s) if s.is_empty()), "aux:Z-empty").label_if(matches!(v, AuxValue::Hex(s) if s.is_empty()), "aux:H-empty");
            if let Some(n) = v.as_int() {
                p = p.label_if(n < 0, "aux:int<0").label_if(n > i32::MAX as i64, "aux:int>i32").label_if(n == i32::MIN as i64 || n == u32::MAX as i64, "aux:int-extreme");
            }
        }
    }
    p
}

fn record_labels(p: Pass, h: &AlnHeader, rs: &[AlnRecord]) -> Pass {
    let any = |g: &dyn Fn(&AlnRecord) -> bool| rs.iter().any(|r| g(r));
    let mut p = aux_labels(p, rs)
        .label_if(h.refs.is_empty(), "no-dictionary")
        .label_if(any(&|r| r.name.is_none()), "name-missing")
        .label_if(any(&|r| r.ref_id.is_some() && r.mate_ref_id == r.ref_id), "rnext-eq")
        .label_if(any(&|r| r.ref_id.is_some() && r.mate_ref_id.is_some() && r.mate_ref_id != r.ref_id), "rnext-other")
        .label_if(any(&|r| r.ref_id.is_none() && r.mate_ref_id.is_some()), "rnext-without-rname")
        .label_if(any(&|r| r.ref_id.is_some() && r.mate_ref_id.is_none()), "rname-without-rnext")
        .label_if(any(&|r| r.pos.is_none()), "pos-0")
        .label_if(any(&|r| r.pos == Some((1 << 31) - 1)), "pos=2^31-1")
        .label_if(any(&|r| r.mapq.is_none()), "mapq-255")
        .label_if(any(&|r| r.cigar.n_ops() == 0), "cigar-*")
        .label_if(any(&|r| r.cigar.n_ops() >= 2), "cigar>=2")
        .label_if(any(&|r| r.bases().is_empty()), "seq-*")
        .label_if(any(&|r| !r.bases().is_empty() && r.quals().is_empty()), "qual-*")
        .label_if(any(&|r| r.quals().first() == Some(&9)), "qual-starts-with-*")
        .label_if(any(&|r| r.bases().iter().any(|b| b.is_ascii_lowercase() || *b == b'.')), "bases-outside-bam-alphabet")
        .label_if(any(&|r| r.tlen == i32::MIN), "tlen-min")
        .label_if(any(&|r| r.aux.len() >= 4), "aux>=4");
    p.labels.sort();
    p.labels.dedup();
    p
}

fn record_check(c: &RecordCase) -> Verdict {
    let n_ref = c.header.n_ref();
    for r in &c.records {
        if let Some(why) = aln::invalid_reason(r, n_ref, Target::Sam) {
            return fail1("c06.harness.generator", format!("generated record outside the SAM domain: {why}"));
        }
    }
    let nh = c.header.to_noodles().map_err(|e| f("c06.harness.model", e))?;
    let mut fails = Fails::new();
    let mut text = Vec::new();
    let mut lines = Vec::new();
    for (i, r) in c.records.iter().enumerate() {
        let buf = r.to_noodles().map_err(|e| f("c06.harness.model", e))?;
        // valid ⇒ accepted
        let line = write_sam_record(&nh, &buf, "c06.record.valid-rejected")?;
        // the line is the record, by the grammar alone
        if line.last() != Some(&b'\n') || line[..line.len() - 1].contains(&b'\n') {
            fails.push("c06.record.text.columns", format!("record #{i}: not exactly one line: {}", show(&line)));
        } else {
            let want = aln::sam_tokens(&c.header, r).map_err(|e| f("c06.harness.model", e))?;
            if let Err((class, msg)) = aln::check_sam_line(&line[..line.len() - 1], &want) {
                fails.push(format!("c06.record.text.{class}"), format!("record #{i}: {msg}; line {}", show(&line)));
            }
        }
        // the generic writer path must give the same text
        match write_sam_record(&nh, &aln::GenericRecord(&buf), "c06.record.generic.valid-rejected") {
            Ok(l2) => {
                if l2 != line {
                    fails.push("c06.record.generic.text", format!("record #{i}: generic record path writes {} but the RecordBuf path {}", show(&l2), show(&line)));
                }
            }
            Err(mut e) => fails.0.append(&mut e),
        }
        text.extend_from_slice(&line);
        lines.push(line);
    }

    // parse(write(r)) = r, eagerly (one re-used RecordBuf)
    let mut rd = sam::io::Reader::new(&text[..]);
    let mut rec = RecordBuf::default();
    let mut parsed: Vec<RecordBuf> = Vec::new();
    for (i, r) in c.records.iter().enumerate() {
        match rd.read_record_buf(&nh, &mut rec) {
            Ok(0) => {
                fails.push("c06.record.count", format!("EOF at record #{i} of {}", c.records.len()));
                break;
            }
            Ok(_) => {
                push_record_diffs(&mut fails, "c06.record.rt", &format!("record #{i} parsed from {}", show(&lines[i])), &AlnRecord::from_noodles(&rec).normalized(Norm::SAM), &r.normalized(Norm::SAM));
                parsed.push(rec.clone());
            }
            Err(e) => {
                fails.push("c06.record.parse-error", format!("record #{i}: read_record_buf rejects noodles' own output: {}; line {}", describe_err(&e), show(&lines[i])));
                break;
            }
        }
    }
    if parsed.len() == c.records.len() {
        match rd.read_record_buf(&nh, &mut rec) {
            Ok(0) => {}
            other => fails.push("c06.record.count", format!("read after the last record returns {other:?}")),
        }
    }
    // write(parse(t)) = t
    for (i, p) in parsed.iter().enumerate() {
        match write_sam_record(&nh, p, "c06.record.rewrite-rejected") {
            Ok(l2) => {
                if l2 != lines[i] {
                    fails.push("c06.record.fixed-point", format!("record #{i}: write(parse(t)) = {} but t = {}", show(&l2), show(&lines[i])));
                }
            }
            Err(mut e) => fails.0.append(&mut e),
        }
    }
    // the lazy record: conversion = eager parse; written back = t
    let mut rd = sam::io::Reader::new(&text[..]);
    let mut lazy = sam::Record::default();
    let mut reused = RecordBuf::default();
    for (i, r) in c.records.iter().enumerate() {
        match rd.read_record(&mut lazy) {
            Ok(0) => {
                fails.push("c06.record.lazy.count", format!("EOF at record #{i}"));
                break;
            }
            Ok(_) => {}
            Err(e) => {
                fails.push("c06.record.lazy.read-error", format!("record #{i}: read_record: {}", describe_err(&e)));
                break;
            }
        }
        if !r.has_nonlast_empty_array() {
            match reused.try_clone_from_alignment_record(&nh, &lazy) {
                Ok(()) => push_record_diffs(&mut fails, "c06.record.lazy-reused", &format!("record #{i}: sam::Record → used RecordBuf"), &AlnRecord::from_noodles(&reused).normalized(Norm::SAM), &r.normalized(Norm::SAM)),
                Err(e) => fails.push("c06.record.lazy.convert-error", format!("record #{i}: try_clone_from_alignment_record: {}", describe_err(&e))),
            }
        }
        match RecordBuf::try_from_alignment_record(&nh, &lazy) {
            Ok(conv) => push_record_diffs(&mut fails, "c06.record.lazy", &format!("record #{i}: sam::Record → RecordBuf"), &AlnRecord::from_noodles(&conv).normalized(Norm::SAM), &r.normalized(Norm::SAM)),
            Err(e) => {
                let sig = if r.has_nonlast_empty_array() { "c06.record.lazy.empty-array" } else { "c06.record.lazy.convert-error" };
                fails.push(sig, format!("record #{i}: try_from_alignment_record: {}; line {}", describe_err(&e), show(&lines[i])));
            }
        }
        match write_sam_record(&nh, &lazy, if r.has_nonlast_empty_array() { "c06.record.lazy.empty-array.rewrite" } else { "c06.record.lazy.rewrite-rejected" }) {
            Ok(l2) => {
                if l2 != lines[i] {
                    fails.push("c06.record.lazy.fixed-point", format!("record #{i}: writing the lazy sam::Record gives {} but it was read from {}", show(&l2), show(&lines[i])));
                }
            }
            Err(mut e) => fails.0.append(&mut e),
        }
    }
    let nontrivial = c.records.iter().any(|r| !r.aux.is_empty() || r.cigar.n_ops() >= 2 || r.mate_ref_id.is_some());
    fails.finish(record_labels(Pass::new(nontrivial, key_of(c)).evals(c.records.len() as u64), &c.header, &c.records))
}

// ---------------------------------------------------------------------------------------------
// sub-check 3: SAM = BAM, both directions of conversion
// ---------------------------------------------------------------------------------------------

#[derive(Clone, Debug, Serialize, Deserialize)]
pub struct DocCase {
    pub doc: AlnDoc,
}

fn doc_strategy(tier: Tier) -> BoxedStrategy<DocCase> {
    let mut hp = HeaderParams::for_tier(tier);
    hp.many_refs = 60;
    aln::document(&hp, &Mode::both(), 4).prop_map(|doc| DocCase { doc }).boxed()
}

/// One record whose CIGAR has 65 535..70 000 operations (BAM parks it in a `CG` field behind a
/// `kSmN` placeholder; SAM text writes it out), with the sequence missing or present: the two
/// routes must still read back as the same record.
fn huge_doc_strategy(tier: Tier) -> BoxedStrategy<DocCase> {
    use crate::r#gen::aln::{AlnDoc, CigarSpec, QualSpec, SeqSpec};
    let hp = HeaderParams::for_tier(tier);
    let mut mode = Mode::both();
    mode.max_aux = 3;
    let n_ops = prop_oneof![2 => proptest::sample::select(vec![65_535u32, 65_536, 65_537, 70_000]), 3 => 65_536u32..=70_000];
    (aln::header_with(&hp), aln::record_proto(&mode), n_ops, any::<u32>(), 0u8..4)
        .prop_map(|(header, mut r, n_ops, seed, shape)| {
            r.cigar = CigarSpec::Huge { n_ops, seed };
            match shape {
                0 => {
                    r.seq = SeqSpec::Bases(Default::default());
                    r.qual = QualSpec::Scores(vec![]);
                }
                1 => {
                    r.seq = SeqSpec::Auto { seed };
                    r.qual = QualSpec::Scores(vec![]);
                }
                _ => {
                    r.seq = SeqSpec::Auto { seed };
                    r.qual = QualSpec::Auto { seed };
                }
            }
            let n = header.n_ref();
            DocCase { doc: AlnDoc { header, records: vec![r.resolve_refs(n)] } }
        })
        .boxed()
}

fn doc_check(c: &DocCase) -> Verdict {
    let doc = &c.doc;
    let n_ref = doc.header.n_ref();
    for r in &doc.records {
        if let Some(why) = aln::invalid_reason(r, n_ref, Target::Both) {
            return fail1("c06.harness.generator", format!("generated record outside the SAM∩BAM domain: {why}"));
        }
    }
    let nh = doc.header.to_noodles().map_err(|e| f("c06.harness.model", e))?;
    let bufs: Vec<RecordBuf> = doc.records.iter().map(|r| r.to_noodles()).collect::<Result<_, _>>().map_err(|e| f("c06.harness.model", e))?;
    let mut fails = Fails::new();

    let sam_bytes = write_sam_doc(&nh, &bufs, "c06.sambam.sam")?;
    let bam_bytes = write_bam(&nh, &bufs, "c06.sambam.bam")?;
    let (hs, rs) = read_sam_eager(&sam_bytes, "c06.sambam.sam")?;
    let (hb, rb) = read_bam_eager(&bam_bytes, "c06.sambam.bam")?;

    // equal headers
    let (ms, mb) = (AlnHeader::from_noodles(&hs), AlnHeader::from_noodles(&hb));
    push_header_diffs(&mut fails, "c06.sambam.header.sam", "header read from SAM", &ms, &doc.header);
    push_header_diffs(&mut fails, "c06.sambam.header.bam", "header read from BAM", &mb, &doc.header);
    push_header_diffs(&mut fails, "c06.sambam.header", "header read from SAM vs from BAM", &ms, &mb);
    if hs != hb && fails.is_empty() {
        fails.push("c06.sambam.header.eq", "headers read from SAM and from BAM differ by sam::Header's own equality");
    }

    // equal records
    if rs.len() != doc.records.len() || rb.len() != doc.records.len() {
        fails.push("c06.sambam.count", format!("{} records written, {} read from SAM, {} from BAM", doc.records.len(), rs.len(), rb.len()));
        return fails.finish(Pass::new(false, 0));
    }
    for (i, want) in doc.records.iter().enumerate() {
        let w = want.normalized(Norm::CROSS);
        push_record_diffs(&mut fails, "c06.sambam.record", &format!("record #{i}: SAM-read vs BAM-read"), &rs[i].normalized(Norm::CROSS), &rb[i].normalized(Norm::CROSS));
        push_record_diffs(&mut fails, "c06.sambam.sam-read", &format!("record #{i}: SAM-read vs written"), &rs[i].normalized(Norm::CROSS), &w);
        push_record_diffs(&mut fails, "c06.sambam.bam-read", &format!("record #{i}: BAM-read vs written"), &rb[i].normalized(Norm::CROSS), &w);
    }

    // SAM → BAM: eager records, and lazy sam::Record handed straight to the BAM writer
    {
        let conv: Vec<RecordBuf> = rs.iter().map(|r| r.to_noodles()).collect::<Result<_, _>>().map_err(|e| f("c06.harness.model", e))?;
        // the whole document is a fixed point of read → write
        match write_sam_doc(&hs, &conv, "c06.sambam.sam.rewrite") {
            Ok(t) => {
                if t != sam_bytes {
                    fails.push("c06.sambam.sam.fixed-point", format!("write(read(SAM document)) differs: {} vs {}", show(&t), show(&sam_bytes)));
                }
            }
            Err(mut e) => fails.0.append(&mut e),
        }
        match write_bam(&hs, &conv, "c06.convert.sam2bam").and_then(|b| read_bam_eager(&b, "c06.convert.sam2bam")) {
            Err(mut e) => fails.0.append(&mut e),
            Ok((h2, back)) => {
                push_header_diffs(&mut fails, "c06.convert.sam2bam.header", "SAM → BAM header", &AlnHeader::from_noodles(&h2), &doc.header);
                if back.len() != doc.records.len() {
                    fails.push("c06.convert.sam2bam.count", format!("{} of {} records", back.len(), doc.records.len()));
                } else {
                    for (i, want) in doc.records.iter().enumerate() {
                        push_record_diffs(&mut fails, "c06.convert.sam2bam", &format!("record #{i} after SAM → BAM"), &back[i].normalized(Norm::CROSS), &want.normalized(Norm::CROSS));
                    }
                }
            }
        }
        let mut rd = sam::io::Reader::new(&sam_bytes[..]);
        let mut w = bam::io::Writer::from(Vec::new());
        let lazy_result: Result<Vec<u8>, String> = (|| {
            let h = rd.read_header().map_err(|e| format!("read_header: {e}"))?;
            w.write_header(&h).map_err(|e| format!("BAM write_header: {e}"))?;
            let mut rec = sam::Record::default();
            let mut i = 0;
            while rd.read_record(&mut rec).map_err(|e| format!("read_record #{i}: {e}"))? != 0 {
                w.write_alignment_record(&h, &rec).map_err(|e| format!("BAM writer rejects lazy sam::Record #{i}: {}", describe_err(&e)))?;
                i += 1;
            }
            Ok(w.into_inner())
        })();
        match lazy_result {
            Err(e) => {
                let sig = if doc.records.iter().any(|r| r.has_nonlast_empty_array()) { "c06.convert.sam2bam.lazy.empty-array" } else { "c06.convert.sam2bam.lazy.error" };
                fails.push(sig, e);
            }
            Ok(stream) => {
                let mut rr = bam::io::Reader::from(&stream[..]);
                match rr.read_header() {
                    Err(e) => fails.push("c06.convert.sam2bam.lazy.error", format!("read_header: {e}")),
                    Ok(h2) => {
                        let mut rec = RecordBuf::default();
                        for (i, want) in doc.records.iter().enumerate() {
                            match rr.read_record_buf(&h2, &mut rec) {
                                Ok(n) if n > 0 => push_record_diffs(&mut fails, "c06.convert.sam2bam.lazy", &format!("record #{i} after lazy SAM → BAM"), &AlnRecord::from_noodles(&rec).normalized(Norm::CROSS), &want.normalized(Norm::CROSS)),
                                other => {
                                    fails.push("c06.convert.sam2bam.lazy.error", format!("record #{i}: {other:?}"));
                                    break;
                                }
                            }
                        }
                    }
                }
            }
        }
    }

    // BAM → SAM: eager records, and lazy bam::Record handed straight to the SAM writer. When the
    // bases are already in BAM's alphabet the text must be the SAM rendering of the original,
    // byte for byte (SAM text carries no integer width, floats are bit-identical).
    {
        let folded = doc.records.iter().all(|r| r.bases().iter().all(|b| aln::fold_base(*b) == *b));
        let conv: Vec<RecordBuf> = rb.iter().map(|r| r.to_noodles()).collect::<Result<_, _>>().map_err(|e| f("c06.harness.model", e))?;
        match write_sam_doc(&hb, &conv, "c06.convert.bam2sam") {
            Err(mut e) => fails.0.append(&mut e),
            Ok(t) => {
                if folded {
                    if t != sam_bytes {
                        fails.push("c06.convert.bam2sam.text", format!("BAM → SAM text differs from the direct SAM rendering: {} vs {}", show(&t), show(&sam_bytes)));
                    }
                } else {
                    match read_sam_eager(&t, "c06.convert.bam2sam") {
                        Err(mut e) => fails.0.append(&mut e),
                        Ok((_, back)) => {
                            if back.len() != doc.records.len() {
                                fails.push("c06.convert.bam2sam.count", format!("{} of {} records", back.len(), doc.records.len()));
                            } else {
                                for (i, want) in doc.records.iter().enumerate() {
                                    push_record_diffs(&mut fails, "c06.convert.bam2sam", &format!("record #{i} after BAM → SAM"), &back[i].normalized(Norm::CROSS), &want.normalized(Norm::CROSS));
                                }
                            }
                        }
                    }
                }
            }
        }
        let mut rd = bam::io::Reader::new(&bam_bytes[..]);
        let lazy_result: Result<Vec<u8>, String> = (|| {
            let h = rd.read_header().map_err(|e| format!("read_header: {e}"))?;
            let mut w = sam::io::Writer::new(Vec::new());
            w.write_header(&h).map_err(|e| format!("SAM write_header: {e}"))?;
            let mut rec = bam::Record::default();
            let mut i = 0;
            while rd.read_record(&mut rec).map_err(|e| format!("read_record #{i}: {e}"))? != 0 {
                w.write_alignment_record(&h, &rec).map_err(|e| format!("SAM writer rejects lazy bam::Record #{i}: {}", describe_err(&e)))?;
                i += 1;
            }
            Ok(w.into_inner())
        })();
        // a CIGAR of more than 65535 operations: the lazy record's data() still lists the CG field
        // next to the restored CIGAR (the C05 finding c05.lazy.data.cg-visible); its own signature
        let over = doc.records.iter().any(|r| r.cigar.n_ops() > 65535);
        let lazy_sig = |s: &str| -> String { if over { format!("{s}:cigar>65535") } else { s.to_string() } };
        match lazy_result {
            Err(e) => fails.push(lazy_sig("c06.convert.bam2sam.lazy.error"), e),
            Ok(t) => {
                if folded {
                    if t != sam_bytes {
                        fails.push(lazy_sig("c06.convert.bam2sam.lazy.text"), format!("lazy BAM → SAM text differs from the direct SAM rendering: {} vs {}", show(&t), show(&sam_bytes)));
                    }
                } else {
                    match read_sam_eager(&t, "c06.convert.bam2sam.lazy") {
                        Err(mut e) => fails.0.append(&mut e),
                        Ok((_, back)) => {
                            if back.len() != doc.records.len() {
                                fails.push(lazy_sig("c06.convert.bam2sam.lazy.count"), format!("{} of {} records", back.len(), doc.records.len()));
                            } else {
                                for (i, want) in doc.records.iter().enumerate() {
                                    push_record_diffs(&mut fails, &lazy_sig("c06.convert.bam2sam.lazy"), &format!("record #{i} after lazy BAM → SAM"), &back[i].normalized(Norm::CROSS), &want.normalized(Norm::CROSS));
                                }
                            }
                        }
                    }
                }
            }
        }
    }

    let nontrivial = !doc.records.is_empty() && (!doc.header.refs.is_empty() || doc.records.iter().any(|r| !r.aux.is_empty()));
    let folded = doc.records.iter().all(|r| r.bases().iter().all(|b| aln::fold_base(*b) == *b));
    let p = record_labels(Pass::new(nontrivial, key_of(c)).evals(doc.records.len().max(1) as u64), &doc.header, &doc.records)
        .label_if(doc.records.is_empty(), "header-only")
        .label_if(doc.header.is_empty(), "empty-header")
        .label_if(folded && !doc.records.is_empty(), "text-identity-asserted")
        .label_if(doc.header.refs.iter().any(|s| !s.other.is_empty()), "@SQ-other-fields")
        .label_if(!doc.header.comments.is_empty(), "@CO")
        .label_if(!doc.header.read_groups.is_empty(), "@RG")
        .label_if(!doc.header.programs.is_empty(), "@PG");
    fails.finish(p)
}

pub fn property() -> Property {
    Property {
        id: "C06",
        level: "exploration",
        rule: "headers (any mix of @HD/@SQ/@RG/@PG/@CO, standard and user tags, 0..many references); 1..3 SAM-valid records (names/strings over the printable range, '=' / '*' fields, finite floats, arrays, hex) as SAM text; documents of 0..4 records valid for both formats written as SAM and as BAM and converted both ways",
        assumptions: vec![
            "the harness's independent SAM grammar (header line parser, record line renderer per SAMv1 §1.3–1.5) and BAM header framing are correct".into(),
            "float literals are checked by grammar and by Rust's f32 parser denoting the same bits; their spelling is not asserted".into(),
            "comments exclude CR/LF; a one-base read with the single quality 9 (rendered `*`) is outside SAM text's representable set".into(),
            "across formats bases are compared after BAM's alphabet folding and integer aux values numerically".into(),
        ],
        subs: vec![
            sub(
                "header",
                "non-trivial = ≥2 kinds of lines or ≥1 optional field; distinct by hash of the case; oracles: written text denotes h (independent grammar parse), read_header/FromStr(write(h)) = h with field order, write(parse(t)) = t, re-ordered foreign rendering parses to the same header, BAM header text + binary dictionary = h",
                header_strategy,
                header_check,
                12_000,
                300_000,
            )
            .boxed(),
            sub(
                "record",
                "1..3 records with a header; non-trivial = ≥1 aux field, ≥2 CIGAR ops or a mate reference; oracles: valid ⇒ accepted, the line equals the independent rendering (floats by value), eager and lazy parse = record (integers numerically), write(parse(t)) = t for both",
                record_strategy,
                record_check,
                40_000,
                1_000_000,
            )
            .boxed(),
            sub(
                "sam_bam",
                "header + 0..4 records valid for SAM and BAM; non-trivial = ≥1 record and (a dictionary or an aux field); oracles: headers equal, records equal (SAM-read, BAM-read, written), SAM→BAM and BAM→SAM via RecordBuf and via the lazy records; BAM→SAM text identical to the direct rendering when bases are in BAM's alphabet",
                doc_strategy,
                doc_check,
                24_000,
                600_000,
            )
            .boxed(),
            sub(
                "sam_bam_huge_cigar",
                "one record with 65 535..70 000 CIGAR operations, sequence missing / present / with qualities; every case is non-trivial when it has a dictionary or an aux field; oracles as sam_bam (SAM-read = BAM-read = written, conversions both ways incl. through the lazy records)",
                huge_doc_strategy,
                doc_check,
                64,
                800,
            )
            .boxed(),
        ],
        max_parallel: 16,
    }
}
