//! C07 — not implemented yet.

use crate::engine::*;

pub fn property() -> Property {
    Property { id: "C07", level: "exploration", rule: "", assumptions: vec![], subs: vec![], max_parallel: 16 }
}
