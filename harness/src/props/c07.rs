//! C07 — CRAM files round-trip their records and are structurally conformant containers.
//!
//! Oracle 1: write with `cram::io::Writer` (all options from the document), read back with the same
//! repository, compare field by field with the generator's ground truth in the normal form CRAM is
//! specified to keep (see `gen::cram::Canon`).
//! Oracle 2: the independent container walker (`oracle::cram_walk`) plus ground-truth joins
//! (record partition, counters, reference context, slice MD5).
//!
//! Failure signatures are `c07.<what>@<context>`; the context is a predicate on the *case* (which
//! input class the record / document belongs to), so a known defect of one input class never hides
//! a discrepancy in another.

use crate::engine::*;
use crate::oracle::cram_walk::{self as walk, CramFile};
use crate::r#gen::cram::{self as g, Canon, CramDoc, FlatRec};
use proptest::prelude::*;
use serde::{Deserialize, Serialize};

#[derive(Clone, Debug, Serialize, Deserialize)]
pub struct Case {
    pub doc: CramDoc,
}

fn strategy(_tier: Tier) -> BoxedStrategy<Case> {
    g::full_strategy(40).prop_map(|doc| Case { doc }).boxed()
}

// ---------------------------------------------------------------------------------------------
// contexts (predicates on the case)
// ---------------------------------------------------------------------------------------------

/// Document-level input class, for failures that cannot be attributed to one record (writer
/// panic, unreadable file): the first hazard class present, `-` for none.
pub fn doc_ctx(h: &g::Hazards) -> &'static str {
    if h.mapped_missing_bases {
        "mapped-missing-bases"
    } else if h.missing_quals {
        "missing-quals"
    } else if h.unmapped_missing_bases {
        "unmapped-missing-bases"
    } else if h.placed_unmapped_overhang {
        "placed-unmapped-overhang"
    } else if h.missing_name {
        "missing-name"
    } else {
        "-"
    }
}

/// How the CRAM writer will treat the mate information of record `i`: records that are
/// segmented and not secondary are chained by name inside a slice and their mate fields / TLEN are
/// *recomputed* on read; everything else is stored verbatim ("detached").
pub fn chain_ctx(flat: &[FlatRec], rps: usize, i: usize) -> &'static str {
    let r = &flat[i];
    if r.flags & 0x1 == 0 || r.flags & 0x100 != 0 {
        return "detached";
    }
    let s0 = (i / rps) * rps;
    let s1 = (s0 + rps).min(flat.len());
    let chain: Vec<&FlatRec> = flat[s0..s1].iter().filter(|x| x.flags & 0x1 != 0 && x.flags & 0x100 == 0 && x.name == r.name).collect();
    if chain.len() < 2 {
        return "detached";
    }
    if r.name.is_none() {
        return "unnamed-chain";
    }
    if chain.iter().any(|x| x.flags & 0x800 != 0) {
        return "supplementary-chain";
    }
    if chain.len() > 2 {
        return "chain3+";
    }
    let (a, b) = (chain[0], chain[1]);
    if chain.iter().any(|x| x.is_unmapped() && x.ref_id.is_some()) {
        return "placed-unmapped-mate";
    }
    if a.ref_id.is_some() && b.ref_id.is_some() && a.ref_id != b.ref_id {
        return "chimeric-in-slice";
    }
    if let (Some(x), Some(y)) = (a.start, b.start) {
        if x > y {
            return "right-first";
        }
    }
    "regular"
}

fn fmt_canon(c: &Canon) -> String {
    trunc(&g::canonical_text(c), 400)
}

// ---------------------------------------------------------------------------------------------
// the check
// ---------------------------------------------------------------------------------------------

pub fn check_doc(doc: &CramDoc) -> Verdict {
    let n = doc.to_noodles();
    let flat = &n.flat;
    let hz = g::hazards(doc, flat);
    let dctx = doc_ctx(&hz);
    let rps = doc.records_per_slice();
    let mut fails = Fails::new();

    // ---- write -------------------------------------------------------------------------------
    let bytes = match panics::catch(|| g::write_noodles(doc, &n)) {
        Ok(Ok(b)) => b,
        Ok(Err(e)) => {
            // "any stream the writer accepts": an `Err` is a rejection, not a violation — as long as
            // it can come from a codec's stated limits (rANS 4x8 order-1 needs ≥ 4 bytes, the
            // arithmetic coder cannot code symbol 255, …). With the basic codecs (none / gzip /
            // bzip2 / lzma) nothing in the generated domain is documented as unacceptable, so a
            // rejection there is reported.
            let exotic = doc.opts.enc.as_ref().map(|m| std::iter::once(&m.core).chain(std::iter::once(&m.default)).chain(m.series.iter()).chain(m.tag_rule.iter()).any(|e| g::is_31(e) || matches!(e, g::Enc::Rans4x8(_)))).unwrap_or(false);
            if exotic {
                return Ok(Pass::new(false, key_of(doc)).label("writer-rejected-by-codec"));
            }
            // likewise an `Err` for a document of a hazard class (mapped read without bases, …) is a
            // validated rejection; a *panic* there is the violation
            if dctx != "-" {
                return Ok(Pass::new(false, key_of(doc)).label("writer-rejected-hazard-class"));
            }
            return fail1(format!("c07.write-error@{dctx}:{}", panics::normalise(&e.to_string())), format!("the writer rejected the document: {e}"));
        }
        Err(p) => {
            // a panic inside a codec names its own cause; a panic at a generic indexing site
            // (noodles-core) is attributed to the input class of the document
            let sig = if p.file.contains("noodles-core/") { format!("c07.write-panic@{dctx}:{}", p.sig()) } else { format!("c07.write-{}", p.sig()) };
            return fail1(sig, p.describe());
        }
    };
    // the same document with every block stored raw: the reference for the codec differential
    let raw_bytes = doc.opts.enc.as_ref().and_then(|_| {
        let mut d2 = doc.clone();
        d2.opts.enc = Some(g::EncMap { core: g::Enc::None, default: g::Enc::None, series: vec![g::Enc::None; g::N_SERIES], tag_rule: Vec::new() });
        match panics::catch(|| g::write_noodles(&d2, &n)) {
            Ok(Ok(b)) => Some(b),
            _ => None,
        }
    });

    // ---- oracle 2: structure -------------------------------------------------------------------
    let mut walked: Option<CramFile> = None;
    let mut codec_defect = false;
    match walk::walk(&bytes) {
        Err(e) => fails.push("c07.walk.unparseable", e),
        Ok(f) => {
            // codec differential first: a block whose payload does not decode to the bytes that
            // were encoded explains a "decodes to n bytes" size finding for the same method
            let mut bad_methods: Vec<&'static str> = Vec::new();
            if let Some(rb) = &raw_bytes {
                if let Ok(rf) = walk::walk(rb) {
                    bad_methods = codec_differential(&bytes, &f, rb, &rf, &mut fails);
                }
            }
            codec_defect |= !bad_methods.is_empty();
            for (kind, msg) in walk::check_structure(&bytes, &f) {
                if let Some(m) = kind.strip_prefix("block-decode:") {
                    // noodles cannot decode a block it wrote itself: a codec defect (C08's subject),
                    // reported per method so that it does not hide container-level findings
                    codec_defect = true;
                    fails.push(format!("c07.codec.undecodable:{m}"), msg);
                } else if kind.strip_prefix("raw-size:").map(|m| bad_methods.contains(&m)).unwrap_or(false) && msg.contains("decodes to") {
                    continue;
                } else {
                    fails.push(format!("c07.walk.{kind}"), msg);
                }
            }
            check_against_truth(doc, flat, &f, &mut fails);
            walked = Some(f);
        }
    }

    // ---- oracle 1: read back -------------------------------------------------------------------
    // (skipped when a block is undecodable or decodes to other bytes than were encoded: the
    // records cannot be right then, and the cause has been reported above)
    let rctx = dctx;
    if !codec_defect {
    match panics::catch(|| g::read_noodles(&bytes, &n.repository)) {
        Err(p) => fails.push(format!("c07.read-panic@{rctx}:{}", p.sig()), p.describe()),
        Ok(Err(e)) => fails.push(format!("c07.read-error@{rctx}"), format!("reading the file back failed: {e}")),
        Ok(Ok((header, recs))) => {
            if header != doc.expected_header() {
                fails.push("c07.header", format!("header read back differs: got {:?} want {:?}", trunc(&format!("{header:?}"), 500), trunc(&format!("{:?}", doc.expected_header()), 500)));
            }
            if recs.len() != flat.len() {
                fails.push(format!("c07.record-count@{dctx}"), format!("{} records written, {} read back", flat.len(), recs.len()));
            }
            for (i, (want, got)) in flat.iter().zip(recs.iter()).enumerate() {
                compare_record(doc, flat, rps, i, want, got, dctx, &mut fails);
            }
        }
    }
    }

    // ---- accounting ----------------------------------------------------------------------------
    let n_containers = walked.as_ref().map(|f| f.data_containers().count()).unwrap_or(0);
    let in_slice_pair = (0..flat.len()).any(|i| chain_ctx(flat, rps, i) == "regular");
    let cross_slice_pair = (0..flat.len()).any(|i| {
        let r = &flat[i];
        r.flags & 0x1 != 0 && chain_ctx(flat, rps, i) == "detached" && flat.iter().enumerate().any(|(j, x)| j != i && x.template == r.template && j / rps != i / rps)
    });
    let edited = flat.iter().any(|r| !r.is_unmapped() && r.edit_features > 0);
    let nontrivial = edited || n_containers >= 2 || in_slice_pair;
    let mut pass = Pass::new(nontrivial, key_of(doc))
        .label_if(edited, "mapped-with-edits")
        .label_if(n_containers >= 2, "containers>=2")
        .label_if(n_containers >= 5, "containers>=5")
        .label_if(in_slice_pair, "mate-pair-in-slice")
        .label_if(cross_slice_pair, "mate-pair-across-slices")
        .label_if(flat.is_empty(), "no-records")
        .label_if(flat.iter().any(|r| r.is_unmapped() && r.ref_id.is_none()), "unplaced-unmapped")
        .label_if(flat.iter().any(|r| r.is_unmapped() && r.ref_id.is_some()), "placed-unmapped")
        .label_if(!doc.opts.preserve_read_names, "names-not-preserved")
        .label_if(!doc.opts.ap_delta, "ap-absolute")
        .label_if(doc.opts.enc.is_none(), "default-encoder-map")
        .label_if(matches!(doc.order, g::Order::Sorted), "sorted")
        .label_if(!matches!(doc.order, g::Order::Sorted), "unsorted")
        .label_if(flat.iter().any(|r| r.cigar.iter().any(|(k, _)| *k == b'=' || *k == b'X')), "cigar-eqx")
        .label_if(flat.iter().any(|r| r.cigar.iter().any(|(k, _)| *k == b'N')), "cigar-skip")
        .label_if(flat.iter().any(|r| r.cigar.iter().any(|(k, _)| *k == b'P')), "cigar-pad")
        .label_if(flat.iter().any(|r| r.cigar.iter().any(|(k, _)| *k == b'H')), "cigar-hardclip")
        .label_if(flat.iter().any(|r| r.cigar.iter().any(|(k, _)| *k == b'S')), "cigar-softclip")
        .label_if(flat.iter().any(|r| r.cigar.iter().any(|(k, _)| *k == b'I')), "cigar-ins")
        .label_if(flat.iter().any(|r| r.cigar.iter().any(|(k, _)| *k == b'D')), "cigar-del")
        .label_if(flat.iter().any(|r| r.bases.iter().any(|b| !b"ACGTNacgtn".contains(b))), "iupac-read-base")
        .label_if(flat.iter().any(|r| r.bases.iter().any(|b| b.is_ascii_lowercase())), "lowercase-read-base")
        .label_if(flat.iter().any(|r| !r.aux.is_empty()), "aux")
        .label_if(flat.iter().any(|r| r.aux.iter().any(|(t, _)| t == "RG")), "aux-rg")
        .label_if(flat.iter().any(|r| r.aux.iter().any(|(_, v)| g::aux_type_char(v) == b'B')), "aux-array")
        .label_if(hz.any(), "hazard-class");
    if let Some(f) = &walked {
        pass = pass.label(if f.minor == 0 { "version-3.0" } else { "version-3.1" });
        let mut multi = false;
        let mut unm = false;
        let mut methods = [false; 9];
        for c in f.data_containers() {
            for s in &c.slices {
                if let Ok(h) = &s.header {
                    multi |= h.ref_id == -2;
                    unm |= h.ref_id == -1;
                }
            }
            for b in &c.blocks {
                if b.raw_size > 0 && (b.method as usize) < 9 {
                    methods[b.method as usize] = true;
                }
            }
        }
        pass = pass.label_if(multi, "multi-ref-slice").label_if(unm, "unmapped-slice");
        const ML: [&str; 9] = ["method-raw", "method-gzip", "method-bzip2", "method-lzma", "method-rans4x8", "method-ransNx16", "method-arith", "method-fqzcomp", "method-tok3"];
        for (i, m) in methods.iter().enumerate() {
            pass = pass.label_if(*m, ML[i]);
        }
    }
    fails.finish(pass)
}

fn check(c: &Case) -> Verdict {
    check_doc(&c.doc)
}

#[allow(clippy::too_many_arguments)]
fn compare_record(doc: &CramDoc, flat: &[FlatRec], rps: usize, i: usize, want: &FlatRec, got: &noodles_sam::alignment::RecordBuf, dctx: &str, fails: &mut Fails) {
    let w = g::canon_of_flat(want);
    let r = g::canon_of_record(got);
    let cctx = chain_ctx(flat, rps, i);
    let detail = |what: &str| format!("record {i} ({what}): got  {}\n want {}", fmt_canon(&r), fmt_canon(&w));
    if doc.opts.preserve_read_names && w.name != r.name {
        // a missing name anywhere earlier in the same slice shifts the name series
        let s0 = (i / rps) * rps;
        let ctx = if flat[s0..=i].iter().any(|x| x.name.is_none()) { "missing-name" } else { dctx };
        fails.push(format!("c07.name@{ctx}"), detail("name"));
    }
    if w.flags != r.flags {
        fails.push(format!("c07.flags@{cctx}"), detail("flags"));
    }
    if w.ref_id != r.ref_id || w.start != r.start {
        fails.push(format!("c07.position@{dctx}"), detail("reference / start"));
    }
    if w.mapq != r.mapq {
        fails.push(format!("c07.mapq@{dctx}"), detail("mapping quality"));
    }
    if w.cigar != r.cigar {
        fails.push(format!("c07.cigar@{dctx}"), detail("CIGAR"));
    }
    if w.mate_ref_id != r.mate_ref_id || w.mate_start != r.mate_start {
        fails.push(format!("c07.mate@{cctx}"), detail("mate reference / start"));
    }
    // TLEN: not asserted when both segments of the pair start at the same position (the SAM
    // specification leaves the choice of "leftmost" open there)
    let tie = match (want.start, want.mate_start) {
        (Some(a), Some(b)) => a == b && want.ref_id == want.mate_ref_id,
        _ => false,
    };
    if !tie && w.tlen != r.tlen {
        fails.push(format!("c07.tlen@{cctx}"), detail("TLEN"));
    }
    if w.bases != r.bases {
        fails.push(format!("c07.bases@{dctx}"), detail("bases"));
    }
    if w.quals != r.quals {
        fails.push(format!("c07.quals@{dctx}"), detail("quality scores"));
    }
    if w.aux != r.aux {
        fails.push(format!("c07.aux@{dctx}"), detail("aux fields (tag → typed value map)"));
    }
}

/// For every data block of the file written with the requested encoders: its decoded payload must
/// equal the payload of the block with the same content id in the same slice of the file written
/// with all encoders off (both files come from the same records, and each series' byte stream
/// depends on the records only). Returns the methods for which a mismatch was found.
fn codec_differential(file: &[u8], f: &CramFile, raw_file: &[u8], rf: &CramFile, fails: &mut Fails) -> Vec<&'static str> {
    let mut bad: Vec<&'static str> = Vec::new();
    if f.containers.len() != rf.containers.len() {
        return bad;
    }
    for (ci, (c, rc)) in f.containers.iter().zip(rf.containers.iter()).enumerate() {
        if c.is_eof || c.slices.len() != rc.slices.len() {
            continue;
        }
        for (si, (s, rs)) in c.slices.iter().zip(rc.slices.iter()).enumerate() {
            for bi in &s.data_blocks {
                let b = &c.blocks[*bi];
                if b.raw_size == 0 || b.method == walk::method::RAW {
                    continue;
                }
                let Some(rb) = rs.data_blocks.iter().map(|i| &rc.blocks[*i]).find(|x| x.content_id == b.content_id && x.content_type == b.content_type && x.method == walk::method::RAW) else { continue };
                let Ok(d) = walk::decode_block(file, b) else { continue };
                let want = rb.payload(raw_file);
                if d != want {
                    bad.push(walk::method_name(b.method));
                    let at = d.iter().zip(want.iter()).position(|(x, y)| x != y).unwrap_or(d.len().min(want.len()));
                    fails.push(
                        format!("c07.codec.roundtrip:{}", walk::method_name(b.method)),
                        format!(
                            "container {ci} slice {si} content id {} ({}, first payload byte {:#04x}): decodes to {} bytes, the series holds {} bytes; first difference at {at}: series {:02x?}… decoded {:02x?}…",
                            b.content_id,
                            walk::method_name(b.method),
                            b.payload(file).first().copied().unwrap_or(0),
                            d.len(),
                            want.len(),
                            &want[at.min(want.len())..(at + 8).min(want.len())],
                            &d[at.min(d.len())..(at + 8).min(d.len())]
                        ),
                    );
                }
            }
        }
    }
    bad
}

/// Walker facts joined with the generator's ground truth.
fn check_against_truth(doc: &CramDoc, flat: &[FlatRec], f: &CramFile, fails: &mut Fails) {
    let mut next = 0usize; // index of the next ground-truth record
    let base = walk::counter_base(f); // 0, or 1 under the older "1-based" wording
    for (ci, c) in f.containers.iter().enumerate() {
        if c.is_eof {
            continue;
        }
        let w = format!("container {ci} at {}", c.offset);
        let c_first = next;
        if let Some(Ok(h)) = &c.compression_header {
            if h.pm_bool(b"RN") != doc.opts.preserve_read_names {
                fails.push("c07.walk.preservation-map", format!("{w}: RN = {} but preserve_read_names = {}", h.pm_bool(b"RN"), doc.opts.preserve_read_names));
            }
            if h.pm_bool(b"AP") != doc.opts.ap_delta {
                fails.push("c07.walk.preservation-map", format!("{w}: AP = {} but encode_alignment_start_positions_as_deltas = {}", h.pm_bool(b"AP"), doc.opts.ap_delta));
            }
        }
        for (si, s) in c.slices.iter().enumerate() {
            let w = format!("{w} slice {si}");
            let Ok(h) = &s.header else { continue };
            let n = h.n_records.max(0) as usize;
            if next + n > flat.len() {
                fails.push("c07.walk.record-partition", format!("{w}: declares {n} records but only {} of the {} written remain", flat.len() - next, flat.len()));
                next = flat.len();
                continue;
            }
            let recs = &flat[next..next + n];
            next += n;
            if h.record_counter != (next - n) as i64 + base {
                fails.push("c07.walk.slice-record-counter", format!("{w}: record counter {} but {} records precede the slice", h.record_counter, next - n));
            }
            let (rid, start, span, exact) = truth_context(recs);
            check_ref_context(&w, "slice", (h.ref_id, h.start, h.span), (rid, start, span, exact), fails);
            // reference MD5 over the declared span (when the declared span is the true one this is
            // the MD5 of the true span)
            if h.ref_id >= 0 && (h.ref_id as usize) < doc.refs.len() && h.start >= 1 && h.span >= 1 {
                let seq = doc.refs[h.ref_id as usize].seq.as_bytes();
                let (a, b) = (h.start as usize - 1, (h.start + h.span - 1) as usize);
                if b <= seq.len() {
                    let want = g::md5_upper(&seq[a..b]);
                    if h.md5 != want {
                        fails.push("c07.walk.slice-md5", format!("{w}: reference MD5 {} but MD5(upper({}:{}-{})) = {}", g::hex(&h.md5), doc.refs[h.ref_id as usize].name, h.start, b, g::hex(&want)));
                    }
                } else {
                    fails.push("c07.walk.slice-ref-context", format!("{w}: span {}..{} passes the end of reference {} ({} bases)", h.start, b, h.ref_id, seq.len()));
                }
            }
        }
        let recs = &flat[c_first..next];
        if c.n_records as usize != recs.len() {
            fails.push("c07.walk.container-record-count", format!("{w}: declares {} records, its slices hold {}", c.n_records, recs.len()));
        }
        if c.record_counter != c_first as i64 + base {
            fails.push("c07.walk.container-record-counter", format!("{w}: record counter {} but {c_first} records precede it", c.record_counter));
        }
        // base counter: not asserted when a mapped record has no bases (CRAM then stores a read
        // length the SAM record does not show)
        if !recs.iter().any(|r| !r.is_unmapped() && r.bases.is_empty()) {
            let bases: usize = recs.iter().map(|r| r.bases.len()).sum();
            if c.bases != bases as i64 {
                fails.push("c07.walk.container-base-count", format!("{w}: base counter {} but its records hold {bases} bases", c.bases));
            }
        }
        let (rid, start, span, exact) = truth_context(recs);
        check_ref_context(&w, "container", (c.ref_id, c.start, c.span), (rid, start, span, exact), fails);
    }
    if next != flat.len() {
        fails.push("c07.walk.record-partition", format!("the slices declare {next} records in total, {} were written", flat.len()));
    }
}

/// (reference id | −1 all unplaced | −2 mixed, min start, span, exact). `exact` is false when a
/// placed unmapped read lies in the range: the specification does not say how many reference
/// bases such a read covers, so only the reference id is asserted then.
fn truth_context(recs: &[FlatRec]) -> (i32, i32, i32, bool) {
    if recs.is_empty() {
        return (-1, 0, 0, false);
    }
    let first = recs[0].ref_id;
    if recs.iter().any(|r| r.ref_id != first) {
        return (-2, 0, 0, true);
    }
    match first {
        None => (-1, 0, 0, true),
        Some(id) => {
            let exact = !recs.iter().any(|r| r.is_unmapped());
            let start = recs.iter().filter_map(|r| r.start).min().unwrap_or(0);
            let end = recs.iter().filter_map(|r| r.end()).max().unwrap_or(0);
            (id as i32, start as i32, (end + 1).saturating_sub(start) as i32, exact)
        }
    }
}

fn check_ref_context(w: &str, what: &str, got: (i32, i32, i32), want: (i32, i32, i32, bool), fails: &mut Fails) {
    let (rid, start, span, exact) = want;
    if got.0 != rid {
        fails.push(format!("c07.walk.{what}-ref-context"), format!("{w}: reference id {} but its records give {rid}", got.0));
    } else if rid >= 0 && exact && (got.1 != start || got.2 != span) {
        fails.push(format!("c07.walk.{what}-ref-context"), format!("{w}: start {} span {} but its records cover start {start} span {span}", got.1, got.2));
    }
}

// ---------------------------------------------------------------------------------------------
// second sub-check: the lazily decoded records (`Slice::records`, the documented container-level
// read path) show the same aux fields as the input
// ---------------------------------------------------------------------------------------------

fn lazy_strategy(_tier: Tier) -> BoxedStrategy<Case> {
    g::doc_strategy(g::Params { encoders: false, ..g::Params::safe() }).prop_map(|doc| Case { doc }).boxed()
}

type LazyAux = Vec<(String, g::AuxVal)>;

fn lazy_aux(bytes: &[u8], repo: &noodles_fasta::Repository) -> std::io::Result<Vec<(LazyAux, bool)>> {
    use noodles_sam::alignment::Record as _;
    use noodles_sam::alignment::record_buf::data::field::Value as ValueBuf;
    let mut reader = noodles_cram::io::reader::Builder::default().set_reference_sequence_repository(repo.clone()).build_from_reader(bytes);
    let header = reader.read_header()?;
    let mut container = noodles_cram::io::reader::Container::default();
    let mut out = Vec::new();
    while reader.read_container(&mut container)? != 0 {
        let ch = container.compression_header()?;
        for slice in container.slices() {
            let slice = slice?;
            let (core, ext) = slice.decode_blocks()?;
            let records = slice.records(repo.clone(), &header, &ch, &core, &ext)?;
            for rec in &records {
                let data = rec.data();
                let mut aux: LazyAux = Vec::new();
                let mut get_agrees = true;
                for r in data.iter() {
                    let (t, v) = r?;
                    let vb: ValueBuf = v.try_into()?;
                    let a = g::value_to_aux(&vb);
                    match data.get(&t) {
                        Some(Ok(x)) => {
                            let xb: ValueBuf = x.try_into()?;
                            // with a duplicated tag `get` can only agree with one of the two
                            if g::value_to_aux(&xb) != a {
                                get_agrees = false;
                            }
                        }
                        _ => get_agrees = false,
                    }
                    aux.push((String::from_utf8_lossy(t.as_ref()).into_owned(), a));
                }
                out.push((aux, get_agrees));
            }
        }
    }
    Ok(out)
}

fn check_lazy(c: &Case) -> Verdict {
    let doc = &c.doc;
    let n = doc.to_noodles();
    let flat = &n.flat;
    // write / read failures are the first sub-check's business
    let Ok(Ok(bytes)) = panics::catch(|| g::write_noodles(doc, &n)) else { return Ok(Pass::new(false, key_of(doc)).label("write-failed")) };
    let mut fails = Fails::new();
    match panics::catch(|| lazy_aux(&bytes, &n.repository)) {
        Err(p) => fails.push(format!("c07.lazy.read-{}", p.sig()), p.describe()),
        Ok(Err(e)) => fails.push("c07.lazy.read-error", format!("container-level read failed: {e}")),
        Ok(Ok(recs)) => {
            if recs.len() != flat.len() {
                fails.push("c07.lazy.record-count", format!("{} records written, {} decoded", flat.len(), recs.len()));
            }
            for (i, (want, (got, get_agrees))) in flat.iter().zip(recs.iter()).enumerate() {
                let mut w = want.aux.clone();
                w.sort_by(|a, b| a.0.cmp(&b.0));
                let mut gsorted = got.clone();
                gsorted.sort_by(|a, b| a.0.cmp(&b.0));
                if gsorted == w {
                    if !get_agrees {
                        fails.push("c07.lazy.get-vs-iter", format!("record {i}: Data::get disagrees with Data::iter on {got:?}"));
                    }
                    continue;
                }
                let mut dup: Vec<&String> = Vec::new();
                for k in 1..gsorted.len() {
                    if gsorted[k].0 == gsorted[k - 1].0 && !dup.contains(&&gsorted[k].0) {
                        dup.push(&gsorted[k].0);
                    }
                }
                let mut dedup = gsorted.clone();
                dedup.dedup();
                if !dup.is_empty() && dedup == w {
                    for t in dup {
                        fails.push(format!("c07.lazy.duplicate-tag:{t}"), format!("record {i}: the decoded record lists tag {t} twice (same value): {got:?}"));
                    }
                } else {
                    fails.push("c07.lazy.aux", format!("record {i}: decoded aux fields {got:?}, written {:?}", want.aux));
                }
            }
        }
    }
    let with_aux = flat.iter().any(|r| !r.aux.is_empty());
    fails.finish(Pass::new(with_aux, key_of(doc)).label_if(with_aux, "aux").label_if(flat.iter().any(|r| r.aux.iter().any(|(t, _)| t == "RG")), "aux-rg"))
}

pub fn property() -> Property {
    Property {
        id: "C07",
        level: "exploration",
        rule: "reference sequences (ACGT, N runs, lower case, IUPAC) × record streams derived from them by edit scripts (match/mismatch/ins/del/skip/clip/pad, =/X, unmapped, pairs in and across slices, secondary/supplementary, orphans, aux fields of every type, RG) × sorted/listed/shuffled order × preserve_read_names × AP delta × per-series/tag/core/default block encoders × records-per-slice ∈ {1,2,3,7,default}",
        assumptions: vec![
            "harness oracles: gen::cram ground truth (CIGAR/bases from the edit script, mate fields, TLEN by SAMv1 §1.4.9), oracle::cram_walk (own ITF8/LTF8, layout from CRAMv3 §6–§9)".into(),
            "crc32fast, md-5, miniz_oxide and the bzip2 crate are correct".into(),
            "raw/gzip/bzip2 block payloads are decoded independently; lzma, rANS 4x8, rANS Nx16, arith, fqzcomp and tok3 payloads through noodles' own decoders (hook H2a): for those only 'decodes to exactly the declared raw size' and the stream's own size field are established".into(),
            "normal form: =/X → M with adjacent ops merged, bases compared upper-cased, MAPQ of unmapped reads not compared (CRAM has no MQ series for them), aux fields as a tag → typed value map, names only when preserved, TLEN not compared when both segments start at the same position".into(),
            "multi-slice containers are unreachable through the public API and outside the domain".into(),
        ],
        subs: vec![
            sub(
                "roundtrip_and_structure",
                "non-trivial = a mapped read with a non-match feature, or ≥2 containers, or a mate pair inside one slice; distinct by hash of the document",
                strategy,
                check,
                8_000,
                160_000,
            )
            .boxed(),
            sub(
                "lazy_record_aux",
                "the container-level read path (Container::slices → Slice::records → alignment::Record::data) lists exactly the written aux fields, each tag once, and Data::get agrees with Data::iter; non-trivial = a record with aux fields; safe G-cram domain, default encoder map",
                lazy_strategy,
                check_lazy,
                2_000,
                30_000,
            )
            .boxed(),
        ],
        max_parallel: 16,
    }
}
