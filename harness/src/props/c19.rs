//! C19 — CRAM indexing and region queries return exactly the scan-filtered records.
//!
//! (i) `cram::fs::index(path)` = expected index, built from the independent container walker
//!     (container offset, landmark, slice size) joined with the generator's ground truth
//!     (reference, min start, span per reference of each slice).
//! (ii) `Reader::query(header, EXPECTED index, region)` = ground truth filtered by reference and
//!     interval, each record once, in file order. The query is evaluated with the index the harness
//!     built, so that a defect in (i) cannot hide (ii).

use crate::engine::*;
use crate::oracle::cram_walk as walk;
use crate::r#gen::cram::{self as g, CramDoc, FlatRec};
use noodles_core::{Position, Region};
use noodles_cram as cram;
use proptest::prelude::*;
use serde::{Deserialize, Serialize};

#[derive(Clone, Debug, Serialize, Deserialize)]
pub enum RegionSpec {
    /// the whole reference (unbounded interval)
    Whole(u8),
    /// derived from the span [s, e] of the record picked by the selector; kind:
    /// 0 [s,e] · 1 [e,e] · 2 [e+1,e+1] · 3 [s−1,s−1] · 4 [s,s] · 5 [..=s−1] · 6 [e+1..] · 7 [..=s] · 8 [e..]
    Edge { rec: u16, kind: u8 },
    /// [a, a+len−1] on the reference (a wraps into the reference)
    Span { r: u8, a: u32, len: u32 },
    From { r: u8, a: u32 },
    To { r: u8, b: u32 },
    /// starts beyond the end of the reference
    Beyond { r: u8, by: u32 },
}

#[derive(Clone, Debug, Serialize, Deserialize)]
pub struct Case {
    pub doc: CramDoc,
    pub regions: Vec<RegionSpec>,
}

fn region_strategy() -> BoxedStrategy<RegionSpec> {
    prop_oneof![
        2 => (0u8..3).prop_map(RegionSpec::Whole),
        8 => (any::<u16>(), 0u8..9).prop_map(|(rec, kind)| RegionSpec::Edge { rec, kind }),
        3 => (0u8..3, 1u32..320, 1u32..60).prop_map(|(r, a, len)| RegionSpec::Span { r, a, len }),
        1 => (0u8..3, 1u32..320).prop_map(|(r, a)| RegionSpec::From { r, a }),
        1 => (0u8..3, 1u32..320).prop_map(|(r, b)| RegionSpec::To { r, b }),
        1 => (0u8..3, 1u32..50).prop_map(|(r, by)| RegionSpec::Beyond { r, by }),
    ]
    .boxed()
}

fn strategy(_tier: Tier) -> BoxedStrategy<Case> {
    let p = g::Params { sorted_only: true, encoders: false, max_templates: 14, ..g::Params::safe() };
    // multi-reference slices (two references, or placed and unplaced reads, in one slice) are where
    // the pinned tree's indexer panics; half of the documents cannot have one, so that the
    // single-reference logic stays under test
    let docs = prop_oneof![
        5 => g::doc_strategy(g::Params { max_refs: 1, unmapped: false, ..p.clone() }),
        2 => g::doc_strategy(g::Params { max_refs: 1, ..p.clone() }),
        3 => g::doc_strategy(p.clone()),
    ];
    let doc = docs.prop_flat_map(|d| {
        // small slices dominate, so that single-reference, multi-reference and unmapped slices and
        // several containers occur; the default 10 240 stays in as the one-container case
        (Just(d), prop::sample::select(vec![1u16, 2, 2, 3, 3, 5, 7, 0])).prop_map(|(mut d, rps)| {
            d.opts.records_per_slice = rps;
            d
        })
    });
    // one document in six has no read bases in its mapped reads: every one becomes a reference skip of
    // its span (CIGAR `kN`, SEQ `*`, read length 0). `cram::fs::index` decodes records without a reference
    // repository, which on the pinned tree panics for a multi-reference slice whose mapped reads
    // carry bases (known finding); reads without bases are what lets the multi-reference branch of
    // the indexer run to the end and its entries be compared
    let doc = (doc, 0u8..6).prop_map(|(mut d, k)| {
        if k == 0 {
            for t in d.templates.iter_mut() {
                let reads: Vec<&mut g::Read> = match t {
                    g::Template::Single { read, .. } => vec![read],
                    g::Template::Pair { r1, r2, extra, .. } => {
                        let mut v = vec![r1, r2];
                        if let Some((_, r)) = extra {
                            v.push(r);
                        }
                        v
                    }
                };
                for r in reads {
                    if let g::Body::Mapped(a) = &mut r.body {
                        a.skip_only = true;
                        a.bases_missing = false;
                        r.qual = g::Qual::Missing;
                    }
                }
            }
        }
        d
    });
    (doc, prop::collection::vec(region_strategy(), 1..10)).prop_map(|(doc, regions)| Case { doc, regions }).boxed()
}

/// (reference index, start, end) with `None` = unbounded
type Resolved = (usize, Option<usize>, Option<usize>);

fn resolve(doc: &CramDoc, flat: &[FlatRec], spec: &RegionSpec) -> Option<Resolved> {
    let nref = doc.refs.len();
    if nref == 0 {
        return None;
    }
    let ri = |r: u8| (r as usize).min(nref - 1);
    let rlen = |r: usize| doc.refs[r].seq.len();
    Some(match spec {
        RegionSpec::Whole(r) => (ri(*r), None, None),
        RegionSpec::Edge { rec, kind } => {
            let placed: Vec<&FlatRec> = flat.iter().filter(|x| x.ref_id.is_some() && x.start.is_some()).collect();
            if placed.is_empty() {
                return Some((0, Some(1), Some(1)));
            }
            let x = placed[pick_idx(*rec, placed.len())];
            let (r, s, e) = (x.ref_id.unwrap(), x.start.unwrap(), x.end().unwrap());
            match kind {
                0 => (r, Some(s), Some(e)),
                1 => (r, Some(e), Some(e)),
                2 => (r, Some(e + 1), Some(e + 1)),
                3 => {
                    if s > 1 {
                        (r, Some(s - 1), Some(s - 1))
                    } else {
                        (r, Some(s), Some(s))
                    }
                }
                4 => (r, Some(s), Some(s)),
                5 => {
                    if s > 1 {
                        (r, None, Some(s - 1))
                    } else {
                        (r, None, Some(s))
                    }
                }
                6 => (r, Some(e + 1), None),
                7 => (r, None, Some(s)),
                _ => (r, Some(e), None),
            }
        }
        RegionSpec::Span { r, a, len } => {
            let r = ri(*r);
            let a = g::wrap_pos(*a, rlen(r));
            (r, Some(a), Some(a + (*len as usize).max(1) - 1))
        }
        RegionSpec::From { r, a } => {
            let r = ri(*r);
            (r, Some(g::wrap_pos(*a, rlen(r))), None)
        }
        RegionSpec::To { r, b } => {
            let r = ri(*r);
            (r, None, Some(g::wrap_pos(*b, rlen(r))))
        }
        RegionSpec::Beyond { r, by } => {
            let r = ri(*r);
            let a = rlen(r) + *by as usize;
            (r, Some(a), Some(a + 5))
        }
    })
}

fn to_region(doc: &CramDoc, r: &Resolved) -> Option<Region> {
    let name = doc.refs[r.0].name.clone();
    let p = |x: usize| Position::new(x);
    Some(match (r.1, r.2) {
        (None, None) => Region::new(name, ..),
        (Some(a), None) => Region::new(name, p(a)?..),
        (None, Some(b)) => Region::new(name, ..=p(b)?),
        (Some(a), Some(b)) => Region::new(name, p(a)?..=p(b)?),
    })
}

/// What identifies a record in a query answer: everything CRAM keeps except the parts that depend
/// on mate resolution and name preservation (those are C07's subject).
fn ident(c: &g::Canon) -> String {
    let mut c = c.clone();
    c.name = None;
    c.mate_ref_id = None;
    c.mate_start = None;
    c.tlen = 0;
    c.flags &= !(0x20 | 0x8);
    g::canonical_text(&c)
}

#[derive(Clone, Debug, PartialEq, Eq, PartialOrd, Ord)]
struct Entry {
    offset: u64,
    landmark: u64,
    slice_length: u64,
    ref_id: Option<usize>,
    start: Option<usize>,
    span: usize,
}

fn entry_of(r: &cram::crai::Record) -> Entry {
    Entry { offset: r.offset(), landmark: r.landmark(), slice_length: r.slice_length(), ref_id: r.reference_sequence_id(), start: r.alignment_start().map(usize::from), span: r.alignment_span() }
}

fn record_of(e: &Entry) -> cram::crai::Record {
    cram::crai::Record::new(e.ref_id, e.start.and_then(Position::new), e.span, e.offset, e.landmark, e.slice_length)
}

struct Expected {
    /// entries every correct index holds, in file order (per slice: by reference id)
    required: Vec<Entry>,
    /// the "no reference" entry of a multi-reference slice that also holds unplaced reads — a
    /// correct index may or may not list it (the CRAI description does not say)
    optional: Vec<Entry>,
    multi_ref: bool,
    unmapped_slice: bool,
    n_slices: usize,
    n_containers: usize,
}

fn expected_index(flat: &[FlatRec], f: &walk::CramFile) -> Result<Expected, String> {
    let mut ex = Expected { required: Vec::new(), optional: Vec::new(), multi_ref: false, unmapped_slice: false, n_slices: 0, n_containers: 0 };
    let mut next = 0usize;
    for c in f.data_containers() {
        ex.n_containers += 1;
        for s in &c.slices {
            ex.n_slices += 1;
            let h = s.header.as_ref().map_err(|e| format!("slice header: {e}"))?;
            let n = h.n_records.max(0) as usize;
            if next + n > flat.len() {
                return Err(format!("slices declare more records than the {} written", flat.len()));
            }
            let recs = &flat[next..next + n];
            next += n;
            let base = |ref_id, start, span| Entry { offset: c.offset as u64, landmark: s.offset_in_container as u64, slice_length: s.size as u64, ref_id, start, span };
            let mut refs: Vec<Option<usize>> = recs.iter().map(|r| r.ref_id).collect();
            refs.sort();
            refs.dedup();
            let multi = refs.len() > 1;
            ex.multi_ref |= multi;
            ex.unmapped_slice |= refs == [None];
            // real references in ascending order, the "no reference" entry last
            refs.sort_by_key(|r| r.map(|x| x as i64).unwrap_or(i64::MAX));
            for rid in refs {
                match rid {
                    Some(id) => {
                        let on: Vec<&FlatRec> = recs.iter().filter(|r| r.ref_id == Some(id)).collect();
                        let start = on.iter().filter_map(|r| r.start).min().ok_or("placed record without a start")?;
                        let end = on.iter().filter_map(|r| r.end()).max().unwrap_or(start);
                        ex.required.push(base(Some(id), Some(start), end - start + 1));
                    }
                    None => {
                        if multi {
                            ex.optional.push(base(None, None, 0));
                        } else {
                            ex.required.push(base(None, None, 0));
                        }
                    }
                }
            }
        }
    }
    if next != flat.len() {
        return Err(format!("slices declare {next} records, {} were written", flat.len()));
    }
    Ok(ex)
}

fn check(c: &Case) -> Verdict {
    let doc = &c.doc;
    let n = doc.to_noodles();
    let flat = &n.flat;
    let mut fails = Fails::new();

    let bytes = match panics::catch(|| g::write_noodles(doc, &n)) {
        Ok(Ok(b)) => b,
        Ok(Err(e)) => return fail1("c19.write-error", format!("the writer rejected a document of the safe domain: {e}")),
        Err(p) => return fail1(format!("c19.write-{}", p.sig()), p.describe()),
    };
    let f = walk::walk(&bytes).map_err(|e| vec![Fail::new("c19.layout", format!("the written file does not parse (see C07): {e}"))])?;
    let ex = expected_index(flat, &f).map_err(|e| vec![Fail::new("c19.layout", format!("the written file's slices do not partition the records (see C07): {e}"))])?;
    let ctx = if ex.multi_ref { "multi-ref-slice" } else { "single-ref-slices" };

    // ---- (i) the index -------------------------------------------------------------------------
    let path = env().tmp_dir.join(format!("c19-{:016x}-{}.cram", key_of(c), std::process::id()));
    if let Err(e) = std::fs::write(&path, &bytes) {
        return fail1(shard::HARNESS_PANIC, format!("cannot write the scratch file {}: {e}", path.display()));
    }
    let indexed = panics::catch(|| cram::fs::index(&path));
    let _ = std::fs::remove_file(&path);
    match indexed {
        Err(p) => fails.push(format!("c19.index-panic@{ctx}:{}", p.sig()), p.describe()),
        Ok(Err(e)) => fails.push(format!("c19.index-error@{ctx}"), format!("cram::fs::index failed: {e}")),
        Ok(Ok(index)) => {
            let got: Vec<Entry> = index.iter().map(entry_of).collect();
            // every required entry present exactly once; anything else must be an optional entry
            let mut rest = got.clone();
            for e in &ex.required {
                match rest.iter().position(|x| x == e) {
                    Some(i) => {
                        rest.remove(i);
                    }
                    None => {
                        let near: Vec<&Entry> = got.iter().filter(|x| x.offset == e.offset && x.landmark == e.landmark).collect();
                        let what = if near.iter().any(|x| x.ref_id == e.ref_id && (x.start != e.start || x.span != e.span) && x.slice_length == e.slice_length) {
                            "span"
                        } else if near.iter().any(|x| x.ref_id == e.ref_id && x.slice_length != e.slice_length) {
                            "slice-length"
                        } else {
                            "entry"
                        };
                        fails.push(format!("c19.index.{what}@{ctx}"), format!("expected entry {e:?} is not in the index; entries of that slice: {near:?}"));
                    }
                }
            }
            for x in &rest {
                if let Some(i) = ex.optional.iter().position(|o| o == x) {
                    let _ = i;
                } else {
                    fails.push(format!("c19.index.extra@{ctx}"), format!("the index holds {x:?}, which no slice accounts for (expected {:?})", ex.required));
                }
            }
            // slices appear in file order
            let order: Vec<(u64, u64)> = got.iter().map(|x| (x.offset, x.landmark)).collect();
            if order.windows(2).any(|w| w[0] > w[1]) {
                fails.push(format!("c19.index.order@{ctx}"), format!("index entries are not in file order: {order:?}"));
            }
        }
    }

    // ---- (ii) queries through the expected index ------------------------------------------------
    let mut index_entries = ex.required.clone();
    index_entries.extend(ex.optional.iter().cloned());
    index_entries.sort_by_key(|e| (e.offset, e.landmark, e.ref_id.map(|x| x as i64).unwrap_or(i64::MAX)));
    let index: cram::crai::Index = index_entries.iter().map(record_of).collect();
    let truth: Vec<(usize, String)> = flat.iter().enumerate().map(|(i, r)| (i, ident(&g::canon_of_flat(r)))).collect();
    let mut nonempty = 0usize;
    let mut empty = 0usize;
    let mut evals = 0u64;
    let mut leak_possible = false;
    for spec in &c.regions {
        let Some(res) = resolve(doc, flat, spec) else { continue };
        let Some(region) = to_region(doc, &res) else { continue };
        evals += 1;
        let (lo, hi) = (res.1.unwrap_or(1), res.2.unwrap_or(usize::MAX));
        let hits = |r: &FlatRec| match (r.start, r.end()) {
            (Some(s), Some(e)) => s <= hi && e >= lo,
            _ => false,
        };
        let want: Vec<&String> = flat.iter().zip(truth.iter()).filter(|(r, _)| r.ref_id == Some(res.0) && hits(r)).map(|(_, t)| &t.1).collect();
        let want_any_ref: Vec<&String> = flat.iter().zip(truth.iter()).filter(|(r, _)| r.ref_id.is_some() && hits(r)).map(|(_, t)| &t.1).collect();
        leak_possible |= want_any_ref.len() != want.len();
        if want.is_empty() {
            empty += 1;
        } else {
            nonempty += 1;
        }
        let answer = panics::catch(|| -> std::io::Result<Vec<noodles_sam::alignment::RecordBuf>> {
            let mut reader = cram::io::reader::Builder::default().set_reference_sequence_repository(n.repository.clone()).build_from_reader(std::io::Cursor::new(&bytes[..]));
            let header = reader.read_header()?;
            let q = reader.query(&header, &index, &region)?;
            q.records().collect()
        });
        let what = format!("query {}:{}-{}", doc.refs[res.0].name, res.1.map(|x| x.to_string()).unwrap_or_default(), res.2.map(|x| x.to_string()).unwrap_or_default());
        match answer {
            Err(p) => fails.push(format!("c19.query-panic@{ctx}:{}", p.sig()), format!("{what}: {}", p.describe())),
            Ok(Err(e)) => fails.push(format!("c19.query-error@{ctx}"), format!("{what}: {e}")),
            Ok(Ok(recs)) => {
                let got: Vec<String> = recs.iter().map(|r| ident(&g::canon_of_record(r))).collect();
                let got_refs: Vec<&String> = got.iter().collect();
                if got_refs != want {
                    // classify: does the answer equal the records of *any* reference that
                    // intersect the interval (the reference id is ignored)?
                    let on_ref: Vec<&String> = recs.iter().zip(got.iter()).filter(|(r, _)| r.reference_sequence_id() == Some(res.0)).map(|(_, t)| t).collect();
                    let sig = if on_ref == want && got_refs.len() > want.len() {
                        format!("c19.query.other-reference-leak@{ctx}")
                    } else if got_refs.len() < want.len() {
                        format!("c19.query.missing@{ctx}")
                    } else if got_refs.len() > want.len() {
                        format!("c19.query.extra@{ctx}")
                    } else {
                        format!("c19.query.different@{ctx}")
                    };
                    fails.push(sig, format!("{what}: got {} records, want {}\n got  {}\n want {}", got.len(), want.len(), trunc(&format!("{got:?}"), 700), trunc(&format!("{want:?}"), 700)));
                }
            }
        }
    }

    let nontrivial = nonempty > 0 && ex.n_slices >= 2;
    let pass = Pass::new(nontrivial, key_of(c))
        .evals(evals.max(1))
        .label_if(ex.multi_ref, "multi-ref-slice")
        .label_if(ex.unmapped_slice, "unmapped-slice")
        .label_if(ex.n_containers >= 2, "containers>=2")
        .label_if(ex.n_containers >= 5, "containers>=5")
        .label_if(ex.n_slices == 1, "one-slice")
        .label_if(nonempty > 0, "region-with-hits")
        .label_if(empty > 0, "region-without-hits")
        .label_if(leak_possible, "other-reference-also-intersects")
        .label_if(doc.refs.len() >= 2, "refs>=2")
        .label_if(flat.is_empty(), "no-records")
        .label_if(c.regions.iter().any(|r| matches!(r, RegionSpec::Whole(_) | RegionSpec::From { .. } | RegionSpec::To { .. } | RegionSpec::Edge { kind: 5..=8, .. })), "unbounded-interval")
        .label_if(c.regions.iter().any(|r| matches!(r, RegionSpec::Edge { kind: 1..=4, .. })), "edge-point-query");
    fails.finish(pass)
}

// ---------------------------------------------------------------------------------------------
// async twin of the region query (registered under C16)

#[derive(Clone, Debug, Serialize, Deserialize)]
pub struct AsyncQueryCase {
    pub case: Case,
    pub script: crate::io_adv::async_adv::PollScript,
}

pub fn async_query_strategy(tier: Tier) -> BoxedStrategy<AsyncQueryCase> {
    let script = prop_oneof![
        1 => Just(crate::io_adv::async_adv::PollScript { steps: vec![] }),
        2 => Just(crate::io_adv::async_adv::PollScript { steps: vec![0, 1] }),
        3 => proptest::collection::vec(prop_oneof![2 => Just(0u32), 3 => 1u32..8, 2 => 1u32..700, 1 => Just(70_000u32)], 1..7).prop_map(|steps| crate::io_adv::async_adv::PollScript { steps }),
    ];
    (strategy(tier), script).prop_map(|(case, script)| AsyncQueryCase { case, script }).boxed()
}

/// Sync `Reader::query` vs async `Reader::query` with the same (expected) index on the same file.
pub fn check_async_queries(c: &AsyncQueryCase) -> Verdict {
    use crate::io_adv::async_adv::AdvAsyncRead;
    use futures::TryStreamExt;
    let doc = &c.case.doc;
    let n = doc.to_noodles();
    let flat = &n.flat;
    let key = key_of(c);
    let bytes = match panics::catch(|| g::write_noodles(doc, &n)) {
        Ok(Ok(b)) => b,
        // what the writer does with the document is C07's / C19's subject
        _ => return Ok(Pass::new(false, key).label("not-written")),
    };
    let Ok(f) = walk::walk(&bytes) else { return Ok(Pass::new(false, key).label("not-walkable")) };
    let Ok(ex) = expected_index(flat, &f) else { return Ok(Pass::new(false, key).label("not-walkable")) };
    let mut index_entries = ex.required.clone();
    index_entries.extend(ex.optional.iter().cloned());
    index_entries.sort_by_key(|e| (e.offset, e.landmark, e.ref_id.map(|x| x as i64).unwrap_or(i64::MAX)));
    let index: cram::crai::Index = index_entries.iter().map(record_of).collect();
    let data = std::sync::Arc::new(bytes.clone());
    let rt = crate::drivers::asyncs::runtime();
    let mut fails = Fails::new();
    let (mut evals, mut nonempty) = (0u64, 0u64);
    let ctx = if ex.multi_ref { "multi-ref-slice" } else { "single-ref-slices" };
    for spec in &c.case.regions {
        let Some(res) = resolve(doc, flat, spec) else { continue };
        let Some(region) = to_region(doc, &res) else { continue };
        evals += 1;
        let sync_ans = panics::catch(|| -> std::io::Result<Vec<String>> {
            let mut reader = cram::io::reader::Builder::default().set_reference_sequence_repository(n.repository.clone()).build_from_reader(std::io::Cursor::new(&bytes[..]));
            let header = reader.read_header()?;
            let q = reader.query(&header, &index, &region)?;
            q.records().map(|r| r.map(|r| ident(&g::canon_of_record(&r)))).collect()
        });
        let src = AdvAsyncRead::new(data.clone(), &c.script);
        let async_ans = panics::catch(|| -> std::io::Result<Vec<String>> {
            rt.block_on(async {
                let mut reader = cram::r#async::io::reader::Builder::default().set_reference_sequence_repository(n.repository.clone()).build_from_reader(src);
                let header = reader.read_header().await?;
                let q = reader.query(&header, &index, &region)?;
                let mut recs = std::pin::pin!(q.records());
                let mut out = Vec::new();
                while let Some(r) = recs.try_next().await? {
                    out.push(ident(&g::canon_of_record(&r)));
                }
                Ok(out)
            })
        });
        let what = format!("query {}:{}-{}", doc.refs[res.0].name, res.1.map(|x| x.to_string()).unwrap_or_default(), res.2.map(|x| x.to_string()).unwrap_or_default());
        // a panic of the sync reader is C19's finding; here only the relation between the two counts
        let (a, b) = match (sync_ans, async_ans) {
            (Ok(a), Ok(b)) => (a, b),
            (Err(_), _) => continue,
            (Ok(_), Err(p)) => {
                fails.push(format!("c16.query.async-panic:cram:{}", p.sig()), format!("{what}: {}", p.describe()));
                break;
            }
        };
        if a.as_ref().map(|v| !v.is_empty()).unwrap_or(false) {
            nonempty += 1;
        }
        let same = match (&a, &b) {
            (Ok(x), Ok(y)) => x == y,
            (Err(_), Err(_)) => true,
            _ => false,
        };
        if !same {
            let show = |r: &std::io::Result<Vec<String>>| match r {
                Ok(v) => format!("{} records {}", v.len(), trunc(&format!("{v:?}"), 300)),
                Err(e) => format!("Err({e})"),
            };
            let leak = matches!((&a, &b), (Ok(x), Ok(y)) if y.len() > x.len());
            fails.push(format!("c16.query.differs:cram{}@{ctx}", if leak { ".async-returns-more" } else { "" }), format!("{what}: sync reader {}, async reader {}", show(&a), show(&b)));
            break;
        }
    }
    fails.finish(Pass::new(nonempty > 0, key).evals(evals.max(1)).label("cram").label_if(ex.multi_ref, "multi-ref-slice").label_if(nonempty > 0, "non-empty-answer"))
}

pub fn property() -> Property {
    Property {
        id: "C19",
        level: "exploration",
        rule: "coordinate-sorted record streams over 1–3 references (edits, pairs, secondary lines, unplaced unmapped tail) from the safe G-cram domain × records-per-slice ∈ {1,2,3,5,7,default} × region batteries (whole reference, intervals at the edges of a picked record's span, random spans, unbounded bounds, beyond the reference end)",
        assumptions: vec![
            "the expected index comes from oracle::cram_walk (container offset, landmark, slice size) and the generator's ground truth (reference, min start, max end per reference and slice); C07 checks that walker against the same files".into(),
            "record identity in query answers = flags (without the mate bits), reference, start, MAPQ, CIGAR, bases, qualities, aux fields — names, mate fields and TLEN are C07's subject".into(),
            "the 'no reference' entry of a multi-reference slice that also holds unplaced reads is accepted present or absent".into(),
            "placed unmapped reads are outside the domain (the reference span of such a read is not defined by the specification)".into(),
        ],
        subs: vec![
            sub(
                "index_and_query",
                "non-trivial = ≥2 slices and at least one region with a non-empty expected answer; distinct by hash of (document, regions); one evaluation per region",
                strategy,
                check,
                60_000,
                800_000,
            )
            .boxed(),
        ],
        max_parallel: 16,
    }
}
