//! C12 — decoded content does not depend on how the underlying stream chunks its reads.
//!
//! Relation: transcript(plain slice) = transcript(adversarial delivery of the same bytes), for
//! every format driver; evaluated separately without (`<driver>`) and with (`<driver>+intr`)
//! injected `ErrorKind::Interrupted`, so that a finding in one does not hide the other.

use crate::drivers::{self, Delivery, Doc, Driver, Ev, ReadOpts, summarize};
use crate::engine::shard::ClosureSub;
use crate::engine::*;
use crate::io_adv::chunk::ReadScript;
use crate::oracle::bgzf_walk;
use proptest::prelude::*;
use serde::{Deserialize, Serialize};
use std::sync::Arc;

#[derive(Clone, Debug, Serialize, Deserialize)]
pub enum Mode {
    /// every read returns one byte
    OneByte,
    /// sizes cycle through the list
    Sizes(Vec<u32>),
    /// reads stop at every structural boundary shifted by `delta` (−2..=2), plus `sizes`
    Boundaries { delta: i8, sizes: Vec<u32> },
}

#[derive(Clone, Debug, Serialize, Deserialize)]
pub enum Wrap {
    /// adversary handed to the reader directly where it only needs `Read`; default-capacity
    /// `BufReader` where it needs `BufRead`
    Direct,
    /// `BufReader::with_capacity(cap, adversary)`
    BufReader(u32),
    /// direct `BufRead` exposing scripted windows
    Window,
}

#[derive(Clone, Debug, Serialize, Deserialize)]
pub struct Case {
    pub doc: Doc,
    pub mode: Mode,
    pub wrap: Wrap,
    /// pattern of injected `Interrupted` (only used by the `+intr` sub-checks)
    pub interrupts: Vec<bool>,
    /// BGZF based files: insert an empty member (EOF marker block) at the member boundary selected
    /// per-mille — the valid `cat a.bgz b.bgz` shape that noodles' own writers never produce
    #[serde(default)]
    pub empty_member: Option<u16>,
    /// BGZF based files: re-cut the payload into blocks at arbitrary byte offsets first
    #[serde(default)]
    pub reframe: Option<u32>,
}

fn sizes() -> BoxedStrategy<Vec<u32>> {
    prop_oneof![
        proptest::collection::vec(1u32..4, 1..4),
        proptest::collection::vec(1u32..40, 1..6),
        proptest::collection::vec(prop_oneof![Just(1u32), 1u32..9000, Just(65536u32), Just(1u32 << 20)], 1..5),
    ]
    .boxed()
}

fn mode() -> BoxedStrategy<Mode> {
    prop_oneof![
        1 => Just(Mode::OneByte),
        3 => sizes().prop_map(Mode::Sizes),
        3 => (-2i8..=2, prop_oneof![Just(vec![]), sizes()]).prop_map(|(delta, sizes)| Mode::Boundaries { delta, sizes }),
    ]
    .boxed()
}

fn wrap() -> BoxedStrategy<Wrap> {
    prop_oneof![
        3 => Just(Wrap::Direct),
        3 => proptest::sample::select(vec![1u32, 2, 3, 5, 17, 64, 4096, 65536]).prop_map(Wrap::BufReader),
        2 => Just(Wrap::Window),
    ]
    .boxed()
}

/// Offsets of structural boundaries of a file, computed without noodles.
pub fn structural_boundaries(drv: &dyn Driver, bytes: &[u8]) -> Vec<usize> {
    let mut v = Vec::new();
    if drv.is_bgzf() {
        if let Ok(members) = bgzf_walk::walk(bytes) {
            for m in &members {
                let s = m.cpos as usize;
                v.push(s);
                v.push(s + 12);
                v.push(s + 18);
                v.push(s + m.clen - 8);
                v.push(s + m.clen - 4);
            }
        }
    } else if drv.family() == drivers::Family::Text || matches!(drv.name(), "sam" | "vcf" | "fai") {
        for (i, b) in bytes.iter().enumerate() {
            if *b == b'\n' {
                v.push(i);
                v.push(i + 1);
            }
            if *b == b'\r' {
                v.push(i);
            }
        }
    } else {
        // binary, not BGZF (CRAM, BAI, gzi, crai is gzip): fixed strides as a stand-in
        let mut i = 0;
        while i < bytes.len() {
            v.push(i);
            i += 4;
        }
    }
    v.sort_unstable();
    v.dedup();
    v
}

fn delivery_for(drv: &dyn Driver, bytes: &[u8], c: &Case, with_interrupts: bool) -> Delivery {
    let mut script = ReadScript::default();
    match &c.mode {
        Mode::OneByte => script.sizes = vec![1],
        Mode::Sizes(s) => script.sizes = s.clone(),
        Mode::Boundaries { delta, sizes } => {
            script.sizes = sizes.clone();
            script.cuts = structural_boundaries(drv, bytes)
                .into_iter()
                .filter_map(|b| {
                    let x = b as i64 + *delta as i64;
                    if x > 0 && (x as usize) < bytes.len() { Some(x as u32) } else { None }
                })
                .collect();
        }
    }
    if with_interrupts {
        let mut p = c.interrupts.clone();
        if !p.iter().any(|b| *b) {
            p = vec![true, false];
        }
        if !p.iter().any(|b| !*b) {
            p.push(false);
        }
        script.interrupts = p;
    }
    match &c.wrap {
        Wrap::Direct => Delivery::Chunk { script, bufcap: None },
        Wrap::BufReader(cap) => Delivery::Buffered { script, bufcap: *cap },
        Wrap::Window => Delivery::Window { script },
    }
}

/// Plain-slice read vs adversarial delivery of the same bytes. `Err` = the failures; `Ok` = the
/// delivery statistics and the number of records.
fn compare(drv: &dyn Driver, c: &Case, with_interrupts: bool, data: &Arc<Vec<u8>>, what: &str, noodles_written: bool) -> Result<(crate::io_adv::chunk::ReadStats, usize), Vec<Fail>> {
    let name = drv.name();
    let opts = ReadOpts::default();
    let (plain, _) = drv.read(data, &Delivery::Plain, &c.doc, &opts);
    if noodles_written && plain.iter().any(|e| matches!(e, Ev::Err { .. } | Ev::Runaway)) {
        return Err(vec![Fail::new(format!("c12.baseline-read-error:{name}"), format!("plain-slice read of noodles' own output fails: {}", summarize(&plain)))]);
    }
    let delivery = delivery_for(drv, data, c, with_interrupts);
    let (adv, stats) = drv.read(data, &delivery, &c.doc, &opts);
    let st = stats.get();
    if adv != plain {
        // classify
        let interrupted = adv.iter().find_map(|e| match e {
            Ev::Err { stage, kind } if kind == "Interrupted" => Some(*stage),
            _ => None,
        });
        let idx = adv.iter().zip(plain.iter()).position(|(a, b)| a != b).unwrap_or(adv.len().min(plain.len()));
        let detail = format!(
            "{what}: first difference at event {idx}: plain={} adversary={} | plain: {} | adversary: {} | delivery={}",
            plain.get(idx).map(|e| trunc(&format!("{e:?}"), 300)).unwrap_or("<none>".into()),
            adv.get(idx).map(|e| trunc(&format!("{e:?}"), 300)).unwrap_or("<none>".into()),
            summarize(&plain),
            summarize(&adv),
            trunc(&format!("{delivery:?}"), 300)
        );
        return match interrupted {
            Some(stage) if with_interrupts => {
                // the reader gave up on the injected interrupt: a finding of its own class; what it
                // delivered before that must still be a prefix of the reference transcript
                let mut fails = Fails::new();
                fails.push(format!("c12.interrupted-propagated:{name}:{stage}"), detail.clone());
                let k = adv.iter().position(|e| matches!(e, Ev::Err { kind, .. } if kind == "Interrupted")).unwrap_or(0);
                if k > plain.len() || adv[..k] != plain[..k] {
                    fails.push(format!("c12.differs:{name}"), format!("events before the propagated interrupt differ from the reference: {detail}"));
                }
                Err(fails.0)
            }
            _ => Err(vec![Fail::new(format!("c12.differs:{name}"), detail)]),
        };
    }
    Ok((st, drivers::records_of(&plain).len()))
}

fn check(drv: &dyn Driver, c: &Case, with_interrupts: bool) -> Verdict {
    let name = drv.name();
    let bytes = match drivers::write_to_vec(drv, &c.doc) {
        Ok(b) => b,
        Err(e) => return fail1(format!("c12.baseline-write-error:{name}"), format!("writing the generated document failed: {e}")),
    };
    let mut bytes = bytes;
    // BAM: NUL padding behind the header text (legal, never written by noodles), for half of the
    // re-cut cases; the padding is where a short read must not end the header
    let mut padded = false;
    if let (true, Some(seed)) = (name.starts_with("bam"), c.reframe) {
        if seed % 2 == 0 {
            let k = 1 + (seed as usize / 2) % 300;
            let stream = if drv.is_bgzf() { bgzf_walk::walk(&bytes).ok().map(|m| bgzf_walk::concat(&m)) } else { Some(bytes.clone()) };
            if let Some(p) = stream.and_then(|s| crate::oracle::framing::bam_with_padded_header(&s, k)) {
                bytes = if drv.is_bgzf() { bgzf_walk::build_file(&p.chunks(60_000).map(|c| c.to_vec()).collect::<Vec<_>>(), 1, true) } else { p };
                padded = true;
            }
        }
    }
    if let (true, Some(seed)) = (drv.is_bgzf(), c.reframe) {
        if let Some(b) = bgzf_walk::reframed(&bytes, seed) {
            bytes = b;
        }
    }
    let mut with_empty = false;
    if let (true, Some(sel)) = (drv.is_bgzf(), c.empty_member) {
        if let Some(b) = bgzf_walk::with_empty_member(&bytes, sel) {
            bytes = b;
            with_empty = true;
        }
    }
    let data = Arc::new(bytes);
    let (st, n_records) = compare(drv, c, with_interrupts, &data, "file written by noodles", true)?;
    // text formats: the same relation on the harness's own rendering of the document, which keeps
    // what noodles' writers normalise away (CRLF, missing final newline, raw UTF-8)
    let mut raw_short = 0;
    let raw = drv.raw_input(&c.doc).filter(|r| r[..] != data[..]);
    if let Some(raw) = &raw {
        let (st2, _) = compare(drv, c, with_interrupts, &Arc::new(raw.clone()), "text rendered by the harness", false)?;
        raw_short = st2.short_reads;
    }
    let nontrivial = st.short_reads > 0 && (!with_interrupts || st.interrupts > 0);
    Ok(Pass::new(nontrivial, key_of(c))
        .label_if(st.short_reads > 0, "short-reads")
        .label_if(st.short_reads > 20, "short-reads>20")
        .label_if(st.interrupts > 0, "interrupts-delivered")
        .label_if(matches!(c.mode, Mode::OneByte), "one-byte")
        .label_if(matches!(c.mode, Mode::Boundaries { .. }), "at-boundaries")
        .label_if(matches!(c.wrap, Wrap::Window), "window-bufread")
        .label_if(matches!(c.wrap, Wrap::BufReader(_)), "bufreader-capacity")
        .label_if(n_records >= 2, "records>=2")
        .label_if(n_records == 0, "no-records")
        .label_if(with_empty, "empty-member-mid-file")
        .label_if(c.reframe.is_some() && drv.is_bgzf(), "block-boundaries-anywhere")
        .label_if(padded, "bam-header-nul-padded")
        .label_if(raw_short > 0, "raw-text-input")
        .label_if(raw.as_ref().map(|r| r.windows(2).any(|w| w == b"\r\n")).unwrap_or(false), "raw-text-crlf")
        .label_if(raw.as_ref().map(|r| !r.is_ascii()).unwrap_or(false), "raw-text-non-ascii")
        .label_if(data.len() > 65536, "file>64KiB")
        .evals(1 + raw.is_some() as u64))
}

// ---------------------------------------------------------------------------------------------
// the generic (format-detecting) readers of noodles-util: detection looks at the leading bytes, so
// it is the place where a short first read matters most

#[derive(Clone, Debug, Serialize, Deserialize)]
pub struct UtilAlnCase {
    pub case: super::c20::AlnCase,
    pub sel: u8,
}

#[derive(Clone, Debug, Serialize, Deserialize)]
pub struct UtilVarCase {
    pub case: super::c20::VarCase,
    pub sel: u8,
}

fn check_util_aln(c: &UtilAlnCase) -> Verdict {
    use super::c20;
    use crate::r#gen::cram as gcram;
    let (repo, files) = c20::aln_files(&c.case);
    let mut fails = Fails::new();
    let mut n = 0;
    for (fmt, bytes) in &files {
        let canon = |v: &[noodles_sam::alignment::RecordBuf]| -> Vec<gcram::Canon> { v.iter().map(gcram::canon_of_record).collect() };
        let plain = c20::read_aln(bytes, &repo).map(|(_, r)| canon(&r)).map_err(|e| e.kind());
        let adv = c20::read_aln_from(c20::short_reads(bytes, c.sel as u64), &repo).map(|(_, r)| canon(&r)).map_err(|e| e.kind());
        n += 1;
        if plain != adv {
            let d = |x: &Result<Vec<gcram::Canon>, std::io::ErrorKind>| match x {
                Ok(v) => format!("{} records", v.len()),
                Err(k) => format!("Err({k:?})"),
            };
            fails.push(
                format!("c12.differs:util-alignment:{}{}", fmt.name(), if c.case.empty { ":empty" } else { "" }),
                format!("generic alignment reader on a {} stream ({} bytes): from a slice {}, delivered in short reads (script {}) {}", fmt.name(), bytes.len(), d(&plain), c.sel % 4, d(&adv)),
            );
        }
    }
    fails.finish(Pass::new(n > 0, key_of(c)).evals(n.max(1)).label_if(c.case.empty, "empty-file"))
}

fn check_util_var(c: &UtilVarCase) -> Verdict {
    use super::c20;
    use crate::r#gen::var as gvar;
    let files = c20::var_files(&c.case);
    let mut fails = Fails::new();
    let mut n = 0;
    for (fmt, bytes) in &files {
        let models = |v: &[noodles_vcf::variant::RecordBuf]| -> Vec<gvar::VarRecord> { v.iter().map(gvar::VarRecord::from_record_buf).collect() };
        let plain = c20::read_var(bytes).map(|(_, r)| models(&r)).map_err(|e| e.kind());
        let adv = c20::read_var_from(c20::short_reads(bytes, c.sel as u64)).map(|(_, r)| models(&r)).map_err(|e| e.kind());
        n += 1;
        if plain != adv {
            let d = |x: &Result<Vec<gvar::VarRecord>, std::io::ErrorKind>| match x {
                Ok(v) => format!("{} records", v.len()),
                Err(k) => format!("Err({k:?})"),
            };
            fails.push(
                format!("c12.differs:util-variant:{}", fmt.name()),
                format!("generic variant reader on a {} stream ({} bytes): from a slice {}, delivered in short reads (script {}) {}", fmt.name(), bytes.len(), d(&plain), c.sel % 4, d(&adv)),
            );
        }
    }
    fails.finish(Pass::new(n > 0, key_of(c)).evals(n.max(1)).label_if(c.case.header_only, "header-only"))
}

pub fn property() -> Property {
    let mut subs: Vec<Box<dyn DynSub>> = Vec::new();
    subs.push(
        sub(
            "util-alignment",
            "generic alignment reader (noodles-util, format and compression detected): streams of the generic writer for SAM, SAM.gz, BAM, CRAM read from a slice and delivered in short reads (first reads of 1–5 bytes); non-trivial = ≥1 stream written; distinct by hash of (document, script)",
            |_tier| (super::c20::aln_case_strategy(), any::<u8>()).prop_map(|(case, sel)| UtilAlnCase { case, sel }).boxed(),
            check_util_aln,
            600,
            12_000,
        )
        .boxed(),
    );
    subs.push(
        sub(
            "util-variant",
            "generic variant reader: streams of the generic writer for VCF, VCF.gz, BCF read from a slice and delivered in short reads; non-trivial = ≥1 stream written; distinct by hash of (document, script)",
            |tier| (super::c20::var_case_strategy(tier), any::<u8>()).prop_map(|(case, sel)| UtilVarCase { case, sel }).boxed(),
            check_util_var,
            1_000,
            20_000,
        )
        .boxed(),
    );
    for drv in drivers::all() {
        for with_interrupts in [false, true] {
            let name = if with_interrupts { format!("{}+intr", drv.name()) } else { drv.name().to_string() };
            let dname = drv.name();
            let heavy = matches!(dname, "bgzf");
            let (q, t) = if heavy { (400, 6000) } else { (1500, 20000) };
            subs.push(
                ClosureSub::<Case> {
                    name,
                    rule: "non-trivial = the adversary actually delivered ≥1 short read (and ≥1 Interrupted for +intr); distinct by hash of (document, script)".into(),
                    strategy: Box::new(move |tier| {
                        let d = drivers::by_name(dname).unwrap();
                        (d.doc(tier), mode(), wrap(), proptest::collection::vec(any::<bool>(), 1..6), proptest::option::weighted(0.25, 0u16..=1000), proptest::option::weighted(0.25, any::<u32>()))
                            .prop_map(|(doc, mode, wrap, interrupts, empty_member, reframe)| Case { doc, mode, wrap, interrupts, empty_member, reframe })
                            .boxed()
                    }),
                    check: Box::new(move |c| {
                        let d = drivers::by_name(dname).unwrap();
                        check(d.as_ref(), c, with_interrupts)
                    }),
                    quick: q,
                    thorough: t,
                    opts: SubOpts { max_shards: 4, isolate: true, hang_is_violation: true, timeout_s: (240, 3600), case_budget_s: 6, ..SubOpts::default() },
                }
                .boxed(),
            );
        }
    }
    Property {
        id: "C12",
        level: "exploration",
        rule: "valid file per format driver (BGZF, BAM lazy+eager, SAM, SAM.gz, CRAM, VCF, VCF.gz, BCF, FASTA, FASTQ, GFF3, GTF, BED3-6, BAI, CSI, tabix, gzi, fai, crai) × delivery script (1-byte, size cycles, cuts at structural boundaries ±2, BufReader capacities 1..64Ki, direct BufRead windows) × Interrupted pattern",
        assumptions: vec![
            "the plain-slice read of the same bytes is the reference behaviour (the relation is metamorphic)".into(),
            "structural boundaries come from the harness's own BGZF walker / line scan".into(),
        ],
        subs,
        max_parallel: 16,
    }
}
